"""C10 - stability labels follow the soft criteria between consecutive orders.
Model: coq/Model/M_sc.v; theorems: coq/Properties/C10.v.

Streams:
  corpus   corpus/C10/*.json first (the pLSCF ordmin >= 2 call repaired by 799da21, hand-made tie-breaking tables);
  A        gen.SC_apply on random option tables (dyadic values: exact in float and in Q) vs the model, every column
           range, tolerances on both sides of each margin, exact ties, duplicates, NaN patterns, malformed inputs;
  forms    in streams A, A-tall and B* every input is presented in a randomly chosen FORM: tables / records read-only
           (setflags(write=False)); integer options as int, np.int64, np.int32, element of np.arange, 0-d array; float options as
           float, np.float64, 0-d array; booleans as bool, 0/1, np.bool_; tables as float32/complex64 when exactly representable
           (judged by the text at 1e-5), records as float32 or integer-valued int32/int64.  All forms of one value must give
           the labels the model / text says; an exception is a failing input.
  A-int    NaN-free integer-valued frequency and shape tables stored as int32 / int64 against their float64 image;
  A-tall   gen.SC_apply on tables of 1023 / 1024 / 1025 / 1230 / 2100 / 3000 rows x 3-6 columns whose matching previous
           poles sit in rows beyond 1024 and 2048 (decoys in low rows); generated from a recipe, judged by the NumPy text only;
  B        result.Lab of SSIcov / SSIdat / pLSCF and the _MS variants vs the model applied to their own result tables
           (Fn_poles, Xi_poles, Phi_poles) with their run parameters (column<->order map of each class);
  B-hc     the same for every class variant with each hard criterion (conj, xi_max, mpc_lim, mpd_lim, and cov_max with
           calc_unc for SSIcov cov_mm) set at a quantile of the unfiltered values so that it rejects some poles: the labels
           must be the label function of the RETURNED tables, and no returned NaN cell may be labelled stable.
           Every sc / hc dict of the class-level streams is passed with its keys in a random order and three clearly
           different tolerances (small / medium / large, assignment permuted), and judged by key.
  B-boundary  every class variant with each tolerance exactly 0 in turn (int and float), one tolerance 1e9, and the
           limits mpc_lim = 0, xi_max = 1, mpd_lim = 0.
  steps    stream A calls gen.SC_apply with step 1 (about half), 2, 3, 4, 5 or 7: ordmin / ordmax are ORDERS, column c stands for
           order c*step; the model executes the loop itself (M_sc_step.sc_apply_step).  With ordmin a multiple of step the NumPy
           text judges too (order c*step in [ordmin, ordmax]); with ordmin off the grid (outside the property, 15 % of the
           step > 1 cases) only the model judges.
  glue     every class run goes through a recording wrapper of gen.SC_apply: the six arguments the class passes are compared
           with the model's glue (M_sc_step.class_args of the run parameters, sc read by key in the key order given), the call
           must happen exactly once, and gen.SC_apply re-applied to the RETURNED tables with those arguments must reproduce
           result.Lab.  B-step: SSI classes with step = ordmax (the only step > 1 for which SSI_poles builds a table).
  purity   an earlier input of stream A is called again after other calls, and the first SSI / pLSCF configuration of stream B is
           run again at the end of the stream: the same tables and tolerances must give the same labels whatever ran before.
Oracle: the property text written in NumPy floats (independent of the model), run on every input of every stream.
"""
import glob
import json
import os

from fractions import Fraction

import numpy as np

from common import VERIF, clist, jsonable, qq

HEADER = "From PyOMA.Model Require Import M_sc M_sc_step.\nOpen Scope Q_scope."
REL = 1e-9  # decisions closer than this (relative) to a tolerance are not judged

# ---------------------------------------------------------------------------------------------------------------
# Coq encoding


def qh(x):
    """Q literal with hexadecimal numerals (parsed about twice as fast as decimal ones for 53-bit mantissas)."""
    f = Fraction(float(x))
    return "((%s0x%x)#0x%x)" % ("-" if f.numerator < 0 else "", abs(f.numerator), f.denominator)


def opt_q(x):
    return "None" if x != x else "(Some %s)" % qh(x)


def balanced_eval(ctx, exprs, shard):
    """ctx.coq_eval cuts consecutive chunks; deal the expressions out by decreasing size so that every chunk carries the
    same load (the few full-precision class tables would otherwise sit together in the last chunk)."""
    n = len(exprs)
    if n == 0:
        return []
    S = -(-n // shard)
    per = -(-n // S)
    order = sorted(range(n), key=lambda k: -len(exprs[k]))
    slots = [[] for _ in range(S)]
    for r, k in enumerate(order):
        slots[r % S].append(k)
    flat, where = [], {}
    for sl in slots:
        for k in sl:
            where[k] = len(flat)
            flat.append(exprs[k])
        flat.extend(['""'] * (per - len(sl)))
    res = ctx.coq_eval(HEADER, flat, shard=per, timeout=2400)
    return [res[where[k]] for k in range(n)]


def tab_q(A):
    return clist([clist([opt_q(float(v)) for v in row]) for row in A])


def opt_c(z):
    z = complex(z)
    if z.real != z.real or z.imag != z.imag:
        return "None"
    return "(Some (%s, %s))" % (qh(z.real), qh(z.imag))


def tab_phi(P):
    return clist([clist([clist([opt_c(z) for z in cell]) for cell in row]) for row in P])


def finite_tables(*arrs):
    return all(not np.isinf(np.asarray(a, dtype=complex)).any() for a in arrs)


def visited_columns(ordmin, ordmax, step, upto):
    """Columns o < upto in which a requested order oo = ordmin + j*step <= ordmax is looked up (o = oo // step); written from
    C10_sc_step_spec: ordmin <= o*step + ordmin mod step <= ordmax."""
    return [o for o in range(upto) if ordmin <= o * step + ordmin % step <= ordmax]


def parse_glue(a):
    """'start stop step n/d n/d n/d' -> dict of the SC_apply arguments the model's glue builds (ordmax argument = stop - 1)."""
    if a.startswith("KeyError"):
        return a
    t = a.split(" ")
    return dict(ordmin=int(t[0]), ordmax=int(t[1]) - 1, step=int(t[2]), err_fn=Fraction(t[3]), err_xi=Fraction(t[4]), err_phi=Fraction(t[5]))


def parse_model(s):
    """'rows of 0/1|rows of TFne' -> (labels or 'IndexError', verdict rows)."""
    a, b = s.split("|")
    lab = a if (a in ("IndexError", "ValueError") or a.startswith("KeyError")) else [r for r in a.split(";")]
    return lab, b.split(";")


# ---------------------------------------------------------------------------------------------------------------
# the property text, in NumPy (floats).  -1 = not judged (near a tolerance / near-tied neighbour), -2 = outside the
# domain of the text (the pole itself has a negative frequency or damping: never the case in a filtered table)


def text_mac(p, q):
    num = abs(np.vdot(p, q)) ** 2  # vdot conjugates its first argument: |p^H q|^2
    den = np.vdot(p, p).real * np.vdot(q, q).real
    if not den > 0:
        return float("nan")
    return float(num / den)


REL_NOW = [REL]  # margin in force inside text_labels (widened to REL_NARROW for float32 / complex64 inputs)
REL_NARROW = 1e-5


def near(a, b, scale):
    if REL_NOW[0] > REL:  # narrower arithmetic: an exact tie of the float64 image is not a tie there, so it is not judged either
        return abs(a - b) <= REL_NOW[0] * scale
    return a != b and abs(a - b) <= REL_NOW[0] * scale


def text_cell(Fn, Xi, Phi, i, o, efn, exi, ephi):
    """Expected label of a cell whose order is inside [ordmin, ordmax] and is not the first order."""
    f, x, p = Fn[i, o], Xi[i, o], Phi[i, o, :]
    if f != f or x != x or np.isnan(p).any():
        return 0, "nan-pole"
    prev = Fn[:, o - 1]
    cand = np.flatnonzero(~np.isnan(prev))
    if cand.size == 0:
        return 0, "empty-prev"
    if f < 0 or x < 0:
        return -2, "negative"
    d = np.abs(prev[cand] - f)
    dmin = d.min()
    if any(near(e, dmin, e) for e in d):
        return -1, "near-neighbour"
    # closest in frequency; when several poles of the previous order are EXACTLY equally close the property leaves the choice open:
    # the cell is judged only if every such neighbour gives the same verdict
    tied = [int(cand[j]) for j in np.flatnonzero(d == dmin)]
    verdicts = [_text_verdict(Fn, Xi, Phi, f, x, p, k, o, efn, exi, ephi) for k in tied]
    if len({v[0] for v in verdicts}) > 1:
        return -1, "tied-neighbours-disagree"
    return verdicts[0]


def _text_verdict(Fn, Xi, Phi, f, x, p, k, o, efn, exi, ephi):
    f1, x1, p1 = Fn[k, o - 1], Xi[k, o - 1], Phi[k, o - 1, :]
    tests = []  # (decided?, passes)
    for a, a1, err in ((f, f1, efn), (x, x1, exi)):
        if a1 != a1 or a == 0:
            tests.append((True, False))
            continue
        rel = abs(a - a1) / abs(a)
        tests.append((not near(rel, err, abs(err)), rel < err))
    if np.isnan(p1).any():
        tests.append((True, False))
    else:
        m = text_mac(p, p1)
        if m != m:
            tests.append((True, False))
        else:
            tests.append((abs(1 - m - ephi) > REL_NOW[0], 1 - m < ephi))
    if any(dec and not ok for dec, ok in tests):
        return 0, "criteria"
    if any(not dec for dec, ok in tests):
        return -1, "near-tolerance"
    return 1, "stable"


def text_labels(Fn, Xi, Phi, in_range, efn, exi, ephi, rel=REL):
    """in_range(o) : the ORDER held by column o lies in [ordmin, ordmax]; column 0 holds the first order."""
    REL_NOW[0] = rel
    try:
        return _text_labels(Fn, Xi, Phi, in_range, efn, exi, ephi)
    finally:
        REL_NOW[0] = REL


def _text_labels(Fn, Xi, Phi, in_range, efn, exi, ephi):
    R, C = Fn.shape
    exp = np.zeros((R, C), dtype=int)
    why = {}
    for o in range(C):
        for i in range(R):
            if not in_range(o):
                e, w = 0, "outside-range"
            elif o == 0:
                e, w = 0, "first-order"
            else:
                e, w = text_cell(Fn, Xi, Phi, i, o, efn, exi, ephi)
            exp[i, o] = e
            why[(i, o)] = w
    return exp, why


# ---------------------------------------------------------------------------------------------------------------
# generator of stream A


def dy(rng, lo, hi, den):
    """random multiple of 1/den in [lo, hi]"""
    return rng.randint(int(lo * den), int(hi * den)) / float(den)


def rand_shape(rng, L, cplx):
    while True:
        v = np.array([complex(rng.randint(-16, 16) / 8.0, (rng.randint(-16, 16) / 8.0) if cplx else 0.0) for _ in range(L)])
        if np.any(v != 0):
            return v


UNITS = [1, -1, 1j, -1j, 1 + 1j, 2, 0.5 - 0.5j]


def perturb_shape(rng, v, cplx, level):
    w = v.copy()
    if level == 0:
        pass
    elif level == 1:  # same direction: complex scalar multiple (MAC = 1 only with the conjugation)
        w = w * (rng.choice(UNITS) if cplx else rng.choice([1, -1, 2, 0.5]))
    else:  # small / large change of direction
        n = len(w)
        for _ in range(1 if level == 2 else n):
            j = rng.randrange(n)
            step = (1 / 64.0, 1 / 16.0, 1 / 4.0, 1.0)[rng.randrange(4) if level == 3 else rng.randrange(2)]
            w[j] += step * (rng.choice([1, -1]) + (rng.choice([1j, -1j, 0]) if cplx else 0))
        if rng.random() < 0.5:
            w = w * (rng.choice(UNITS) if cplx else -1)
    if not np.any(w != 0):
        w = v.copy()
    return w


def gen_tables(rng, quick):
    R = rng.randint(1, 7 if quick else 12)
    C = rng.randint(1, 12) if quick else rng.choice([rng.randint(1, 12), rng.randint(13, 40)])
    L = rng.randint(1, 4)
    cplx = rng.random() < 0.75
    feats = set()
    nm = rng.randint(1, max(1, min(R, 4)))
    base_f = [dy(rng, 0.5, 12, 4) for _ in range(nm)]
    if nm >= 2 and rng.random() < 0.3:  # closely spaced modes
        base_f[1] = base_f[0] + rng.choice([1, 2, 3]) / 256.0
        feats.add("close-modes")
    if rng.random() < 0.3:  # power-of-two frequencies: exact quotients, exact ties possible
        base_f = [float(2 ** rng.randint(-1, 3)) for _ in range(nm)]
        feats.add("pow2")
    base_x = [dy(rng, 1 / 256.0, 1 / 8.0, 256) for _ in range(nm)]
    if rng.random() < 0.3:
        base_x = [float(2.0 ** -rng.randint(3, 7)) for _ in range(nm)]
    base_p = [rand_shape(rng, L, cplx) for _ in range(nm)]
    Fn = np.full((R, C), np.nan)
    Xi = np.full((R, C), np.nan)
    Phi = np.full((R, C, L), np.nan, dtype=complex)
    p_present = rng.choice([0.5, 0.8, 0.95])
    for o in range(C):
        rows = list(range(R))
        rng.shuffle(rows)
        for m in range(nm):
            if not rows or rng.random() > p_present:
                continue
            i = rows.pop()
            Fn[i, o] = base_f[m] + rng.choice([0, 0, 1, -1, 2, -2, 3, 5, -8, 16]) / 256.0
            Xi[i, o] = base_x[m] + rng.choice([0, 0, 1, -1, 2, -3, 4, 8, -16]) / 4096.0
            Phi[i, o, :] = perturb_shape(rng, base_p[m], cplx, rng.choice([0, 1, 1, 2, 2, 3]))
        for i in rows:  # spurious poles / rejected poles
            if rng.random() < 0.35:
                Fn[i, o] = dy(rng, 0.25, 14, 64)
                Xi[i, o] = dy(rng, 1 / 256.0, 1 / 4.0, 256)
                Phi[i, o, :] = rand_shape(rng, L, cplx)
    # ---- targeted structures in a random pair of consecutive columns
    for _ in range(rng.randint(0, 3)):
        if C < 2 or R < 2:
            break
        o = rng.randint(1, C - 1)
        i = rng.randrange(R)
        kind = rng.choice(["dup", "equi", "dup-cur"])
        f = Fn[i, o] if Fn[i, o] == Fn[i, o] else base_f[0]
        x = Xi[i, o] if Xi[i, o] == Xi[i, o] else base_x[0]
        p = Phi[i, o, :] if not np.isnan(Phi[i, o, :]).any() else base_p[0]
        Fn[i, o], Xi[i, o], Phi[i, o, :] = f, x, p
        k1, k2 = rng.sample(range(R), 2)
        good = (x + rng.choice([0, 1, -1]) / 4096.0, perturb_shape(rng, p, cplx, rng.choice([0, 1])))
        bad = (x * rng.choice([2, 4]), rand_shape(rng, L, cplx)) if rng.random() < 0.7 else good
        first, second = (good, bad) if rng.random() < 0.5 else (bad, good)
        if kind == "dup":  # the same frequency twice in the previous column: the first row is the match
            d = rng.choice([0, 1, -1, 2]) / 256.0
            Fn[k1, o - 1] = Fn[k2, o - 1] = f + d
            feats.add("dup-prev")
        elif kind == "equi":  # f - d and f + d in the previous column: equally close, the first row is the match
            d = rng.choice([1, 2, 4]) / 256.0
            s = rng.choice([1, -1])
            Fn[k1, o - 1], Fn[k2, o - 1] = f + s * d, f - s * d
            feats.add("equidistant")
        else:  # the same pole twice in the current column: both compare with the same neighbour
            i2 = rng.randrange(R)
            Fn[i2, o], Xi[i2, o], Phi[i2, o, :] = f, x, p
            Fn[k1, o - 1] = f + rng.choice([0, 1]) / 256.0
            Fn[k2, o - 1] = f + 3 / 256.0
            feats.add("dup-cur")
        (Xi[k1, o - 1], Phi[k1, o - 1, :]), (Xi[k2, o - 1], Phi[k2, o - 1, :]) = first, second
    # ---- malformed stream
    r = rng.random()
    if r < 0.04 and C >= 1:
        Fn[:, rng.randrange(C)] = np.nan  # (Xi, Phi keep their values: a NaN frequency alone rejects the pole)
        feats.add("nan-column-fn")
    elif r < 0.08:
        o = rng.randrange(C)
        Fn[:, o], Xi[:, o], Phi[:, o, :] = np.nan, np.nan, np.nan
        feats.add("nan-column")
    elif r < 0.11:
        i = rng.randrange(R)
        Fn[i, :], Xi[i, :], Phi[i, :, :] = np.nan, np.nan, np.nan
        feats.add("nan-row")
    elif r < 0.15:
        for _ in range(rng.randint(1, 3)):
            i, o = rng.randrange(R), rng.randrange(C)
            t = rng.choice(["xi", "phi", "phi1", "fn"])
            if t == "xi":
                Xi[i, o] = np.nan
            elif t == "phi":
                Phi[i, o, :] = np.nan
            elif t == "phi1":
                Phi[i, o, rng.randrange(L)] = complex(np.nan, 0.0) if rng.random() < 0.5 else complex(0.0, np.nan)
            else:
                Fn[i, o] = np.nan
        feats.add("partial-nan")
    elif r < 0.19:
        for _ in range(rng.randint(1, 2)):
            i, o = rng.randrange(R), rng.randrange(C)
            t = rng.choice(["zero-shape", "zero-fn", "zero-xi"])
            if t == "zero-shape":
                Phi[i, o, :] = 0.0
            elif t == "zero-fn" and Fn[i, o] == Fn[i, o]:
                Fn[i, o] = 0.0
            elif t == "zero-xi" and Xi[i, o] == Xi[i, o]:
                Xi[i, o] = 0.0
            feats.add(t)
    elif r < 0.22:
        for _ in range(rng.randint(1, 3)):
            i, o = rng.randrange(R), rng.randrange(C)
            if rng.random() < 0.7:
                Xi[i, o] = -abs(Xi[i, o]) if Xi[i, o] == Xi[i, o] else -1 / 64.0
            else:
                Fn[i, o] = -abs(Fn[i, o]) if Fn[i, o] == Fn[i, o] else -2.0
        feats.add("negative")
    Fn, Xi = Fn + 0.0, Xi + 0.0  # no negative zeros
    if not cplx and rng.random() < 0.5:
        Phi = Phi.real.copy()  # a real-valued table
        feats.add("real-dtype")
    return Fn, Xi, Phi, feats


def cell_conds(Fn, Xi, Phi, i, o):
    """the three quantities of a cell, for placing tolerances beside them (generator only)"""
    f, x, p = Fn[i, o], Xi[i, o], Phi[i, o, :]
    prev = Fn[:, o - 1]
    if f != f or x != x or np.isnan(p).any() or np.isnan(prev).all() or f == 0 or x == 0:
        return None
    k = int(np.nanargmin(np.abs(prev - f)))
    if Xi[k, o - 1] != Xi[k, o - 1] or np.isnan(Phi[k, o - 1, :]).any():
        return None
    m = text_mac(p, Phi[k, o - 1, :])
    if m != m:
        return None
    return abs(f - Fn[k, o - 1]) / f, abs(x - Xi[k, o - 1]) / x, 1 - m


def gen_tols(rng, Fn, Xi, Phi):
    efn = rng.choice([1 / 64.0, 1 / 128.0, 0.01, 1 / 32.0, 0.05, 1 / 16.0])
    exi = rng.choice([1 / 16.0, 0.05, 1 / 8.0, 0.3, 1 / 32.0])
    ephi = rng.choice([1 / 32.0, 0.03, 1 / 16.0, 0.1, 0.5])
    R, C = Fn.shape
    how = "grid"
    if C >= 2 and rng.random() < 0.6:
        cells = [(i, o) for o in range(1, C) for i in range(R) if Fn[i, o] == Fn[i, o]]
        rng.shuffle(cells)
        for (i, o) in cells[:6]:
            c = cell_conds(Fn, Xi, Phi, i, o)
            if c is None:
                continue
            which = rng.randrange(3)
            if c[which] <= 0 and which < 2:
                continue
            if rng.random() < 0.5:  # open the two other tests so that this margin decides the label
                efn, exi, ephi = max(efn, 2 * abs(c[0]) + 0.01), max(exi, 2 * abs(c[1]) + 0.01), max(ephi, 2 * abs(c[2]) + 0.01)
            side = rng.choice([1, -1, 0])
            fac = 1.0 + side * 2.0 ** -rng.choice([2, 4, 8, 16, 24])
            v = c[which] * fac if which < 2 else c[2] + side * 2.0 ** -rng.choice([3, 6, 12, 20])
            if which == 0:
                efn = v
            elif which == 1:
                exi = v
            else:
                ephi = v
            how = "margin-%s-%s" % (("fn", "xi", "phi")[which], {1: "above", -1: "below", 0: "on"}[side])
            break
    r = rng.random()
    if r < 0.03:
        efn, how = 0.0, "zero-tol"
    elif r < 0.05:
        exi, how = -1 / 16.0, "negative-tol"
    elif r < 0.07:
        ephi, how = 0.0, "zero-tol"
    return float(efn), float(exi), float(ephi), how


# ---------------------------------------------------------------------------------------------------------------
# comparison of one SC_apply-shaped result with the model output and with the text


def case_json(Fn, Xi, Phi, **kw):
    Phi = np.asarray(Phi)
    d = dict(Fn=np.asarray(Fn).tolist(), Xi=np.asarray(Xi).tolist(), Phi_re=Phi.real.tolist(),
             Phi_im=(Phi.imag.tolist() if np.iscomplexobj(Phi) else None))
    d.update(kw)
    return d


def tables_from_json(c):
    Fn = np.array(c["Fn"], dtype=float)
    Xi = np.array(c["Xi"], dtype=float)
    if c.get("Phi_im") is not None:
        Phi = np.array(c["Phi_re"], dtype=float) + 1j * np.array(c["Phi_im"], dtype=float)
    else:
        Phi = np.array(c["Phi_re"], dtype=float)
    return Fn, Xi, Phi


def judge(ctx, site, Lab, model, Fn, Xi, Phi, in_range, tols, case, dyadic, text=True):
    """Lab: implementation labels (array) ; model: parsed model output.  Returns number of judged cells.
    text=False: the input is outside the domain of the property text (ordmin off the order grid of a step > 1); the model alone judges."""
    efn, exi, ephi = tols
    mlab, mver = model
    R, C = Fn.shape
    Lab = np.asarray(Lab)
    if Lab.shape != (R, C):
        ctx.fail("oracle", "%s: label table has shape %s, pole table %s" % (site, Lab.shape, (R, C)), case, key="C10:%s:shape" % site)
        return 0
    if not np.isin(Lab, (0, 1)).all():
        ctx.fail("oracle", "%s: labels other than 0/1" % site, case, key="C10:%s:not-01" % site)
        return 0
    # ---- property text
    exp, why = text_labels(Fn, Xi, Phi, in_range, efn, exi, ephi)
    if not text:
        exp = np.full((R, C), -3)
    judged = 0
    bad_text = None
    for o in range(C):
        for i in range(R):
            e = exp[i, o]
            if e == -3:
                continue
            if e < 0:
                ctx.hist("text-not-judged", why[(i, o)])
                continue
            if int(Lab[i, o]) != e and bad_text is None:
                bad_text = (i, o, e, why[(i, o)])
    # ---- model
    bad_model = None
    near_cells = 0
    for i in range(R):
        for o in range(C):
            v = mver[i][o]
            ctx.hist("model-verdict", {"T": "stable", "F": "not-stable", "n": "near (not judged)", "e": "exact tie"}[v])
            if v == "n" or (v == "e" and not dyadic):
                near_cells += 1
                continue
            if exp[i, o] < 0 and why.get((i, o)) == "tied-neighbours-disagree":
                # the model pins the first of several exactly equally close neighbours (what the present code does); the property does not
                near_cells += 1
                continue
            e = 1 if v == "T" else 0
            judged += 1
            if int(mlab[i][o]) != e:
                ctx.fail("correspondence", "model self-check: verdict %s but label %s at %s" % (v, mlab[i][o], (i, o)), case, key="C10:model:verdict")
            if int(Lab[i, o]) != e and bad_model is None:
                bad_model = (i, o, e, v)
            if exp[i, o] >= 0 and exp[i, o] != e:
                # the text (floats) and the model (exact) disagree on a cell both consider decided
                ctx.fail("correspondence", "model and NumPy text disagree at cell %s: model %s, text %s (%s)" % ((i, o), e, exp[i, o], why[(i, o)]),
                         case, key="C10:model-vs-text")
    if near_cells:
        ctx.not_judged += 1
        ctx.hist("near-cells-per-case", min(near_cells, 5))
    if bad_text is not None:
        i, o, e, w = bad_text
        ctx.fail("oracle", "%s: pole (row %d, column %d) labelled %d, the property says %d (%s)" % (site, i, o, int(Lab[i, o]), e, w),
                 dict(case, cell=[i, o], expected=int(e), got=int(Lab[i, o]), reason=w),
                 key="C10:%s:%s" % (site, "spurious-" + w if e == 0 else "missed-stable"))
    if bad_model is not None:
        i, o, e, v = bad_model
        ctx.fail("correspondence", "%s differs from the model at (row %d, column %d): got %d, model %d (verdict %s)" % (site, i, o, int(Lab[i, o]), e, v),
                 dict(case, cell=[i, o]), key="C10:%s:corr" % site)
    return judged


def nan_equal(a, b):
    a, b = np.asarray(a), np.asarray(b)
    return a.shape == b.shape and a.dtype == b.dtype and bool(np.all((a == b) | ((a != a) & (b != b))))


# ---------------------------------------------------------------------------------------------------------------
# forms in which one and the same input can be handed over (established on the unchanged tree: all of them are accepted by
# gen.SC_apply and by the six classes and give bit-identical results, except that narrower storage types compute narrower)
INT_FORMS = ("int", "np.int64", "np.int32", "arange", "0-d")
FLOAT_FORMS = ("float", "np.float64", "0-d")
BOOL_FORMS = ("bool", "int", "np.bool_")


def as_int(v, form):
    v = int(v)
    return {"int": lambda: v, "np.int64": lambda: np.int64(v), "np.int32": lambda: np.int32(v), "arange": lambda: np.arange(v + 1)[v],
            "0-d": lambda: np.array(v)}[form]()


def as_float(v, form):
    if isinstance(v, (int, np.integer)) and not isinstance(v, (bool, np.bool_)) and form == "float":
        return v  # an int given for a float option (e.g. tolerance 0) stays what it is
    return {"float": lambda: float(v), "np.float64": lambda: np.float64(v), "0-d": lambda: np.array(float(v))}[form]()


def as_bool(v, form):
    return {"bool": lambda: bool(v), "int": lambda: int(bool(v)), "np.bool_": lambda: np.bool_(bool(v))}[form]()


def pick_forms(rng, plain=False):
    if plain:
        return dict(readonly=False, ints="int", floats="float", bools="bool", dtype="float64")
    return dict(readonly=rng.random() < 0.45, ints=rng.choice(INT_FORMS), floats=rng.choice(FLOAT_FORMS), bools=rng.choice(BOOL_FORMS),
                dtype=rng.choice(["float64"] * 5 + ["float32"]))


def exact_in(a, dt):
    a = np.asarray(a)
    with np.errstate(all="ignore"):
        b = a.astype(dt).astype(a.dtype)
    return bool(np.all((a == b) | (a != a)))


def present_tables(Fn, Xi, Phi, forms):
    """Fresh copies of the three tables in the storage type and with the write flag the forms ask for; the narrow type is used only
    when every value is exactly representable in it (so the float64 image denotes the same table)."""
    a0, a1, a2 = np.array(Fn), np.array(Xi), np.array(Phi)
    narrow = False
    if forms.get("dtype") == "float32":
        pdt = np.complex64 if np.iscomplexobj(a2) else np.float32
        if exact_in(a0, np.float32) and exact_in(a1, np.float32) and exact_in(a2, pdt):
            a0, a1, a2, narrow = a0.astype(np.float32), a1.astype(np.float32), a2.astype(pdt), True
    if forms.get("readonly"):
        for a in (a0, a1, a2):
            a.setflags(write=False)
    return a0, a1, a2, narrow


def call_sc(gen, Fn, Xi, Phi, c0, c1, tols, forms=None, step=1):
    """gen.SC_apply(Fn, Xi, Phi, ordmin=c0, ordmax=c1, step, *tols)"""
    ints, floats = (forms or {}).get("ints", "int"), (forms or {}).get("floats", "float")
    try:
        return np.asarray(gen.SC_apply(Fn, Xi, Phi, as_int(c0, ints), as_int(c1, ints), as_int(step, ints), *[as_float(t, floats) for t in tols])), None
    except Exception as e:  # noqa: BLE001
        return None, type(e).__name__


# ---------------------------------------------------------------------------------------------------------------
# tall tables (rows are unbounded in the property): generated from a recipe, judged by the NumPy text only

TALL_ROWS = (1023, 1024, 1025, 1230, 2100, 3000)
TALL_TOLS = (1 / 16.0, 1 / 4.0, 1 / 8.0)


def gen_tall(seed, R, C, L):
    """Deterministic function of the recipe (seed, R, C, L): a table of R rows, almost all NaN, in which every current pole has
    its matching previous-order pole in a chosen row zone ([0,1024), [1024,2048), [2048,R)) and, usually, a DECOY in a low row:
    farther in frequency (so it must not be chosen) but inside err_fn, with a damping / shape that fails the criteria.
    Returns Fn, Xi, Phi and the list of (row, column, row of the true match)."""
    import random

    rng = random.Random("C10-tall-%d-%d-%d-%d" % (seed, R, C, L))
    cplx = L >= 2
    Fn = np.full((R, C), np.nan)
    Xi = np.full((R, C), np.nan)
    Phi = np.full((R, C, L), np.nan, dtype=complex if cplx else float)
    zones = [z for z in ((0, min(R, 1024)), (1024, min(R, 2048)), (2048, R)) if z[0] < z[1]]
    K = rng.randint(6, 10)
    base_f = [2.0 + 1.5 * m for m in range(K)]
    base_x = [1 / 32.0] * K
    base_p = [rand_shape(rng, L, cplx) for _ in range(K)]
    used = [set() for _ in range(C)]

    def free_row(o, lo, hi):
        free = [r for r in range(lo, hi) if r not in used[o]]
        if not free:  # the zone is full (e.g. the single row 1024 of a 1025-row table): any free row
            free = [r for r in range(R) if r not in used[o]]
        r = rng.choice(free)
        used[o].add(r)
        return r

    def put(i, o, f, x, p):
        Fn[i, o], Xi[i, o] = f, x
        Phi[i, o, :] = p if cplx else np.real(p)

    rows = [[None] * K for _ in range(C)]
    for o in range(C):
        for m in range(K):
            z = zones[-1] if rng.random() < 0.6 else rng.choice(zones)  # mostly the highest zone the table has
            i = free_row(o, *z)
            rows[o][m] = i
            mult = rng.choice(UNITS) if cplx else rng.choice([1, -1, 2, 0.5])
            put(i, o, base_f[m] + rng.choice([0, 1, -1]) / 256.0, base_x[m] + rng.choice([0, 1, -1, 2]) / 4096.0, base_p[m] * mult)
    matches = []
    for o in range(1, C):
        for m in range(K):
            matches.append((rows[o][m], o, rows[o - 1][m]))
            if rng.random() < 0.75:  # decoy in the previous column, low row, 8/256 away from the true neighbour
                i = free_row(o - 1, 0, min(R, 1024))
                f = Fn[rows[o - 1][m], o - 1] + rng.choice([1, -1]) * 8 / 256.0
                if rng.random() < 0.5:
                    put(i, o - 1, f, base_x[m] * 3, base_p[m])
                else:
                    q = rand_shape(rng, L, cplx)
                    put(i, o - 1, f, base_x[m], q + 0 * base_p[m])
    return Fn + 0.0, Xi + 0.0, Phi, matches


def tall_case(ctx, gen, recipe, label):
    """Run gen.SC_apply on the tall table of the recipe and judge it with the NumPy text (no Coq evaluation)."""
    seed, R, C, L = int(recipe["seed"]), int(recipe["R"]), int(recipe["C"]), int(recipe["L"])
    c0, c1 = int(recipe.get("c0", 0)), int(recipe.get("c1", C - 1))
    tols = tuple(float(recipe.get(k, d)) for k, d in zip(("efn", "exi", "ephi"), TALL_TOLS))
    Fn, Xi, Phi, matches = gen_tall(seed, R, C, L)
    case = dict(kind="sc_apply_tall", seed=seed, R=R, C=C, L=L, c0=c0, c1=c1, efn=tols[0], exi=tols[1], ephi=tols[2], label=label,
                note="table = props/C10.py gen_tall(seed, R, C, L)")
    ctx.hist("stream", "A-tall")
    ctx.hist("tall-rows", R)
    forms = recipe.get("forms") or dict(readonly=bool(seed % 2), ints=INT_FORMS[seed % len(INT_FORMS)], floats=FLOAT_FORMS[seed % len(FLOAT_FORMS)])
    case["forms"] = forms
    a0, a1, a2, _ = present_tables(Fn, Xi, Phi, dict(forms, dtype="float64"))
    Lab, err = call_sc(gen, a0, a1, a2, c0, c1, tols, forms)
    inr = (lambda o: c0 <= o <= c1)
    exp, why = text_labels(Fn, Xi, Phi, inr, *tols)
    far = sum(1 for (i, o, k) in matches if k >= 1024 and exp[i, o] == 1)
    ctx.count(case, nontrivial=bool(far > 0 or R <= 1024))
    if recipe.get("expected_stable") is not None and (int((exp == 1).sum()) != int(recipe["expected_stable"])
                                                      or far < int(recipe.get("expected_far_neighbours_min", 0))):
        ctx.note("corpus recipe %s no longer generates the recorded table (%d stable poles expected by the text, %d recorded; %d with a neighbour in a row >= 1024)"
                 % (label, int((exp == 1).sum()), int(recipe["expected_stable"]), far))
    ctx.hist("tall-matches", "stable pole whose neighbour sits in a row >= 1024: %s" % ("yes" if far else "no"))
    if Lab is None:
        ctx.fail("oracle", "gen.SC_apply raised %s on a tall table (%d rows; input forms %s)" % (err, R, forms), case, key="C10:SC_apply:raised-%s" % err)
        return
    if Lab.shape != Fn.shape or not np.isin(Lab, (0, 1)).all():
        ctx.fail("oracle", "gen.SC_apply: label table of a tall table has shape %s / values outside 0,1" % (Lab.shape,), case, key="C10:SC_apply:shape")
        return
    bad = [(int(i), int(o)) for i, o in np.argwhere((exp >= 0) & (Lab != exp))]
    if bad:
        i, o = bad[0]
        k = int(np.nanargmin(np.abs(Fn[:, o - 1] - Fn[i, o]))) if o >= 1 and Fn[i, o] == Fn[i, o] and not np.isnan(Fn[:, o - 1]).all() else None
        ctx.fail("oracle", "SC_apply: %d poles of a %d-row table mislabelled, e.g. (row %d, column %d) labelled %d, the property says %d (%s); "
                 "its closest previous-order pole is in row %s" % (len(bad), R, i, o, int(Lab[i, o]), int(exp[i, o]), why[(i, o)], k),
                 dict(case, cell=[i, o], expected=int(exp[i, o]), got=int(Lab[i, o]), reason=why[(i, o)], neighbour_row=k, mislabelled=len(bad)),
                 key="C10:SC_apply:%s" % ("spurious-" + why[(i, o)] if exp[i, o] == 0 else "missed-stable"))


def shrink_two_columns(gen, Fn, Xi, Phi, c0, c1, tols, i, o):
    """By C10_sc_label_local the label of (i, o) depends on columns o-1, o only: try the two-column table."""
    if o < 1:
        return None
    F2, X2, P2 = Fn[:, o - 1:o + 1].copy(), Xi[:, o - 1:o + 1].copy(), Phi[:, o - 1:o + 1, :].copy()
    inr = c0 <= o <= c1
    d0, d1 = (1, 1) if inr else (2, 1)
    lab, err = call_sc(gen, F2, X2, P2, d0, d1, tols)
    if lab is None:
        return None
    exp, why = text_labels(F2, X2, P2, (lambda c: d0 <= c <= d1), *tols)
    if exp[i, 1] >= 0 and int(lab[i, 1]) != exp[i, 1]:
        return case_json(F2, X2, P2, c0=d0, c1=d1, efn=tols[0], exi=tols[1], ephi=tols[2], cell=[i, 1], expected=int(exp[i, 1]),
                         got=int(lab[i, 1]), reason=why[(i, 1)], shrunk_from=dict(shape=list(Fn.shape), column=o, c0=c0, c1=c1))
    return None


# ---------------------------------------------------------------------------------------------------------------
# stream B: the algorithm classes


def synth(nrng, N, l, fs, nmodes):
    from scipy import signal

    y = np.zeros((N, l))
    fmax = 0.4 * fs
    for k in range(nmodes):
        f = (k + 1) * fmax / (nmodes + 1) * (1 + 0.1 * nrng.standard_normal())
        z = 0.01 + 0.03 * nrng.random()
        w = 2 * np.pi * f
        b, a = signal.bilinear([1.0], [1.0, 2 * z * w, w * w], fs)
        q = signal.lfilter(b, a, nrng.standard_normal(N))
        y += np.outer(q / np.std(q), nrng.standard_normal(l))
    y += 0.05 * nrng.standard_normal((N, l))
    return y


def shuffled(rng, d):
    """The same dict with its keys inserted in a random order (the run must read sc / hc by key, never by position)."""
    keys = list(d.keys())
    rng.shuffle(keys)
    return {k: d[k] for k in keys}


def pick_sc(rng, is_p):
    """Three clearly different tolerances - small, medium, large - so that any mis-pairing of the three changes labels;
    half of the cases use the usual assignment (frequency small, damping large, shape medium), the others a random one."""
    small = rng.choice([0.02, 0.05] if is_p else [0.01, 0.02, 0.03])
    medium = rng.choice([0.1, 0.15, 0.2])
    large = rng.choice([0.6, 0.8, 1.0])
    vals = [small, large, medium]
    if rng.random() < 0.5:
        rng.shuffle(vals)
    return dict(err_fn=vals[0], err_xi=vals[1], err_phi=vals[2])


LAST_RUN = {"untouched": True}
CLS_NUMBER = {"SSIdat": 0, "SSIcov": 1, "SSIdat_MS": 2, "SSIcov_MS": 3, "pLSCF": 4, "pLSCF_MS": 5}  # M_sc_step.cls_of_nat


def run_class(kind, data, fs, params, readonly=False, dtype=float):
    """kind in SSIcov SSIdat pLSCF SSIcov_MS SSIdat_MS pLSCF_MS ; returns result object.  The record(s) are handed over as fresh
    arrays of the given storage type, read-only when asked; afterwards they must still hold the same values."""
    from pyoma2 import algorithms as A
    from pyoma2.functions import gen
    from pyoma2.setup import MultiSetup_PreGER, SingleSetup

    original = gen.SC_apply
    calls = []

    def recording_sc_apply(Fn, Xi, Phi, ordmin, ordmax, step, err_fn, err_xi, err_phi):
        # positional or keyword: what is recorded is the VALUE of each parameter of the call
        calls.append(dict(ordmin=ordmin, ordmax=ordmax, step=step, err_fn=err_fn, err_xi=err_xi, err_phi=err_phi))
        return original(Fn, Xi, Phi, ordmin, ordmax, step, err_fn, err_xi, err_phi)

    LAST_RUN["sc_calls"] = calls

    def present(d):
        a = np.array(d, dtype=dtype)
        if readonly:
            a.setflags(write=False)
        return a

    cls = getattr(A, kind)
    alg = cls(name="a", **params)
    gen.SC_apply = recording_sc_apply
    try:
        if kind.endswith("_MS"):
            given = [present(d) for d in data["datasets"]]
            before = [g.copy() for g in given]
            ms = MultiSetup_PreGER(fs=fs, ref_ind=data["ref_ind"], datasets=given)
            ms.add_algorithms(alg)
            ms.run_by_name("a")
        else:
            given = [present(data)]
            before = [given[0].copy()]
            ss = SingleSetup(given[0], fs=fs)
            ss.add_algorithms(alg)
            ss.run_by_name("a")
    finally:
        gen.SC_apply = original
    LAST_RUN["untouched"] = all(np.array_equal(g, b) for g, b in zip(given, before))
    return alg.result


def apply_forms(kind, fs, params, forms):
    """params / fs with every option value in the form the descriptor asks for (the judge keeps the plain values, by key)."""
    ints, floats, bools = forms.get("ints", "int"), forms.get("floats", "float"), forms.get("bools", "bool")
    out = dict(params)
    for k in ("ordmin", "ordmax", "step", "br", "nxseg", "nb"):
        if k in out:
            out[k] = as_int(out[k], ints)
    if "calc_unc" in out:
        out["calc_unc"] = as_bool(out["calc_unc"], bools)
    out["sc"] = {k: as_float(v, floats) for k, v in params["sc"].items()}
    out["hc"] = {k: (as_bool(v, bools) if k == "conj" else as_float(v, floats)) for k, v in params["hc"].items()}
    return as_float(fs, floats), out


def class_case(ctx, kind, data, fs, params, exprs, meta, label, store_data=False, evaluate=True, shuffle=True, forms=None):
    """Run one class, queue the model evaluation of its result tables; returns result.Lab (None when unusable).
    The sc and hc dicts are handed to the class with their keys in a random order, every option in a randomly chosen value form
    (int / NumPy integer / 0-d array, float / np.float64 / 0-d array, bool / 0-1 / np.bool_), the record read-only and in float32
    or (integer-valued) int32 / int64 storage in a share of the cases; the judge below uses its own plain copy by key."""
    if shuffle:
        params = dict(params, sc=shuffled(ctx.rng, params["sc"]), hc=shuffled(ctx.rng, params["hc"]))
        ctx.hist("sc-key-order", ",".join(k[4:] for k in params["sc"]))
        if forms is None:
            forms = pick_forms(ctx.rng)
            forms["dtype"] = ctx.rng.choice(["float64"] * 6 + ["float32", "float32", "int64", "int32"])
    forms = forms or pick_forms(None, plain=True)
    if forms["dtype"] in ("int64", "int32"):  # integer-valued record (counts of 1/64), the same values in either storage type
        scale = lambda d: np.round(np.asarray(d, dtype=float) * 64.0)  # noqa: E731
        data = dict(data, datasets=[scale(d) for d in data["datasets"]]) if isinstance(data, dict) else scale(data)
    for k, v in forms.items():
        ctx.hist("class-form-" + k, v)
    is_p = kind.startswith("pLSCF")
    ordmin, ordmax = int(params.get("ordmin", 0)), int(params["ordmax"])
    step = 1 if is_p else int(params.get("step", 1))
    sc = params["sc"]
    tols = (float(sc["err_fn"]), float(sc["err_xi"]), float(sc["err_phi"]))
    site = "%s.run" % kind
    case = dict(kind="class", cls=kind, fs=fs, params=params, label=label, forms=forms)
    if store_data:
        case["data"] = data
    fs_run, params_run = apply_forms(kind, fs, params, forms)
    dt = {"float64": float, "float32": np.float32, "int64": np.int64, "int32": np.int32}[forms["dtype"]]
    try:
        r = run_class(kind, data, fs_run, params_run, readonly=forms["readonly"], dtype=dt)
    except Exception as e:  # noqa: BLE001
        ctx.count(case)
        ctx.fail("oracle", "%s raised %s: %s (no labels produced for ordmin=%d, ordmax=%d; input forms %s)"
                 % (site, type(e).__name__, str(e)[:200], ordmin, ordmax, forms),
                 dict(case, data=data), key="C10:%s:raised-%s" % (site, type(e).__name__))
        return
    if not LAST_RUN["untouched"]:
        ctx.fail("oracle", "%s modified the record it was given" % site, dict(case, data=data), key="C10:%s:mutates-input" % site)
    captured = list(LAST_RUN.get("sc_calls") or [])
    if forms["dtype"] in ("int64", "int32"):
        # the float64 image of the same integer-valued record must give the same tables and labels
        try:
            rf = run_class(kind, data, fs, params)
            same = (np.array_equal(np.asarray(rf.Lab), np.asarray(r.Lab))
                    and np.allclose(np.asarray(rf.Fn_poles, dtype=float), np.asarray(r.Fn_poles, dtype=float), rtol=1e-9, atol=0, equal_nan=True))
        except Exception:  # noqa: BLE001
            same = False
        if not same:
            ctx.fail("oracle", "%s: an integer-valued record stored as %s gives other pole tables / labels than its float64 image" % (site, forms["dtype"]),
                     dict(case, data=data), key="C10:%s:storage-dtype" % site)
    Fn, Xi, Phi, Lab = np.asarray(r.Fn_poles, dtype=float), np.asarray(r.Xi_poles, dtype=float), np.asarray(r.Phi_poles), np.asarray(r.Lab)
    case.update(shape=list(Fn.shape), channels=int(Phi.shape[2]), n_stable=int(Lab.sum()))
    ctx.count(dict(case, fn=Fn.tolist()), nontrivial=bool(Lab.sum() > 0 and (Lab == 0).any()))
    ctx.hist("class", kind)
    ctx.hist("class-ordmin", "%s ordmin=%d" % ("pLSCF" if is_p else "SSI", min(ordmin, 3)))
    ctx.hist("class-step", "pLSCF (no step)" if is_p else ("step=1" if step == 1 else "step=ordmax"))
    want_cols = ordmax if is_p else ordmax // step + 1
    if Fn.shape[1] != want_cols or Xi.shape != Fn.shape or Phi.shape[:2] != Fn.shape:
        ctx.fail("oracle", "%s: pole tables have %d columns, expected orders %s" % (site, Fn.shape[1], "1..ordmax" if is_p else "0..ordmax by step"), case,
                 key="C10:%s:layout" % site)
        return
    # ---- the glue: the class must consult gen.SC_apply exactly once, and the labels it stores must be what gen.SC_apply gives
    # for the tables it stores with the arguments it passed (the labels are a function of the FILTERED tables and the tolerances)
    if len(captured) != 1:
        ctx.fail("correspondence", "%s called gen.SC_apply %d times (the model: once)" % (site, len(captured)), case, key="C10:%s:glue-calls" % site)
    else:
        cap = captured[0]
        try:
            cap_plain = dict(ordmin=int(cap["ordmin"]), ordmax=int(cap["ordmax"]), step=int(cap["step"]),
                             err_fn=float(cap["err_fn"]), err_xi=float(cap["err_xi"]), err_phi=float(cap["err_phi"]))
        except Exception:  # noqa: BLE001
            cap_plain = None
        case["sc_apply_arguments"] = cap_plain
        if cap_plain is not None and finite_tables(Fn, Xi, Phi):
            from pyoma2.functions import gen as _gen

            again, err = call_sc(_gen, Fn.copy(), Xi.copy(), np.array(Phi), cap_plain["ordmin"], cap_plain["ordmax"],
                                 (cap_plain["err_fn"], cap_plain["err_xi"], cap_plain["err_phi"]), step=cap_plain["step"])
            if again is None or again.shape != Lab.shape or not np.array_equal(again, Lab):
                ctx.fail("correspondence", "%s: result.Lab is not gen.SC_apply of the returned tables with the arguments the class passed (%s)"
                         % (site, "raised " + str(err) if again is None else "%d cells differ" % int((again != Lab).sum()) if again.shape == Lab.shape else "shape"),
                         dict(case, **case_json(Fn, Xi, Phi), Lab=Lab.tolist(), data=data), key="C10:%s:glue-replay" % site)
    if not finite_tables(Fn, Xi, Phi):
        ctx.note("%s produced an infinite table entry; case skipped" % site)
        return
    # clause "rejected (NaN) poles are never labelled stable", directly on the RETURNED tables (the labels must be a
    # function of the filtered tables the result carries, not of an earlier stage of the filtering)
    rejected = np.isnan(Fn) | np.isnan(Xi) | np.isnan(Phi).any(axis=2)
    if Lab.shape == Fn.shape and (Lab[rejected] != 0).any():
        i, o = [int(v) for v in np.argwhere(rejected & (Lab != 0))[0]]
        ctx.fail("oracle", "%s: %d rejected (NaN) poles of the returned tables are labelled stable, e.g. (row %d, column %d)"
                 % (site, int((Lab[rejected] != 0).sum()), i, o),
                 dict(case, **case_json(Fn, Xi, Phi), Lab=Lab.tolist(), data=data, cell=[i, o], expected=0, got=int(Lab[i, o]), reason="nan-pole"),
                 key="C10:%s:spurious-nan-pole" % site)
    # a frequency or damping tolerance <= 0 admits no stable pole (|a-a'|/|a| is never negative, in floats either); the
    # shape tolerance is left to the judged cells (1 - MAC can be -1e-16 by rounding)
    if (tols[0] <= 0 or tols[1] <= 0) and Lab.shape == Fn.shape and Lab.sum() > 0:
        i, o = [int(v) for v in np.argwhere(Lab != 0)[0]]
        ctx.fail("oracle", "%s: %d poles labelled stable although err_fn = %r, err_xi = %r (no difference is below a tolerance <= 0)"
                 % (site, int(Lab.sum()), sc["err_fn"], sc["err_xi"]),
                 dict(case, **case_json(Fn, Xi, Phi), Lab=Lab.tolist(), data=data, cell=[i, o], expected=0, got=int(Lab[i, o]), reason="criteria"),
                 key="C10:%s:spurious-criteria" % site)
    if not evaluate:
        return Lab
    order = (lambda o: o + 1) if is_p else (lambda o: o * step)
    in_range = lambda o: ordmin <= order(o) <= ordmax  # noqa: E731
    # the model: class number, run parameters, sc as the item list in the key order the class was given, then the returned tables
    sc_items = clist(['("%s", %s)' % (k, qq(float(v))) for k, v in sc.items()])
    exprs.append("run_cls %d%%nat %d%%nat %d%%nat %d%%nat %s %s %s %s" % (CLS_NUMBER[kind], ordmin, ordmax, step, sc_items, tab_q(Fn), tab_q(Xi), tab_phi(Phi)))
    full = dict(case, **case_json(Fn, Xi, Phi), Lab=Lab.tolist(), data=data)  # data: the record(s) the class was run on (replay)
    meta.append(("class", site, Lab, Fn, Xi, Phi, in_range, tols, full, False, dict(captured=captured, text=True)))
    return Lab


def class_configs(ctx):
    rng, nrng = ctx.rng, ctx.np_rng
    quick = ctx.quick()
    out = []
    kinds = ["SSIcov", "SSIdat", "pLSCF", "pLSCF", "SSIcov_MS", "SSIdat_MS", "pLSCF_MS"]
    reps = ctx.n(2, 12)
    for rep in range(reps):
        for kind in kinds:
            is_p = kind.startswith("pLSCF")
            fs = rng.choice([20.0, 32.0, 50.0])
            l = rng.randint(2, 4)
            N = rng.choice([1500, 2400]) if quick else rng.choice([1500, 2400, 4000])
            nmodes = rng.randint(1, 3)
            if is_p:
                ordmax = rng.randint(3, 8) if quick else rng.randint(3, 16)
            else:
                ordmax = rng.randint(4, 12) if quick else rng.choice([rng.randint(4, 14), rng.randint(15, 40)])
            ordmin = 0  # first pass; run() then places ordmin beside a column that holds stable poles
            sc = pick_sc(rng, is_p)
            hc = dict(conj=rng.random() < 0.7, xi_max=rng.choice([0.1, 0.2, 0.5]), mpc_lim=rng.choice([0.0, 0.5, 0.7]), mpd_lim=rng.choice([0.3, 0.6, 1.0]))
            if is_p:
                params = dict(ordmax=ordmax, ordmin=ordmin, nxseg=rng.choice([128, 256]), method_SD=rng.choice(["per", "cor"]), sc=sc, hc=hc)
            else:
                hc["cov_max"] = 0.2
                br = max(rng.randint(4, 10), -(-ordmax // l) + 1)
                params = dict(br=br, ordmax=ordmax, ordmin=ordmin, sc=sc, hc=hc)
                if kind.startswith("SSIcov"):
                    params["method"] = rng.choice(["cov_mm", "cov_R"])
            if kind.endswith("_MS"):
                nref = rng.randint(1, 2)
                nsets = rng.randint(2, 3)
                seed = int(nrng.integers(1 << 30))
                base = synth(np.random.default_rng(seed), N, nref + nsets, fs, nmodes)
                datasets = []
                for s in range(nsets):
                    noise = 0.02 * nrng.standard_normal((N, nref + 1))
                    datasets.append((base[:, list(range(nref)) + [nref + s]] + noise))
                data = dict(ref_ind=[list(range(nref))] * nsets, datasets=datasets)
                if not is_p:
                    params["br"] = max(params["br"], -(-ordmax // nref) + 1)
            else:
                data = synth(nrng, N, l, fs, nmodes)
            out.append((kind, data, fs, params, rep))
    return out


HC_OPEN = dict(conj=False, xi_max=1e9, mpc_lim=-1.0, mpd_lim=1e9)


def bite_variants(ctx):
    """(kind, extra params) of every class variant whose hard criteria are exercised one at a time."""
    v = [("SSIcov", dict(method="cov_mm", calc_unc=True, nb=20)), ("SSIcov", dict(method="cov_R")), ("SSIdat", {}), ("pLSCF", dict(method_SD="per")),
         ("SSIcov_MS", dict(method="cov_mm")), ("SSIdat_MS", {}), ("pLSCF_MS", dict(method_SD="per"))]
    if not ctx.quick():
        v += [("pLSCF", dict(method_SD="cor")), ("SSIcov_MS", dict(method="cov_R"))]
    return v


def bite_stream(ctx, exprs, meta):
    """For every class variant: one run with every hard criterion open (unfiltered tables), then one run per hard criterion with
    its threshold at a quantile of the unfiltered values, so that it rejects some but not all poles.  Each run is judged like any
    class case: Lab against the model and the text applied to the RETURNED tables, and no NaN cell labelled stable."""
    from pyoma2.functions import gen

    rng, nrng = ctx.rng, ctx.np_rng
    for rnd in range(ctx.n(1, 3)):
        for kind, extra in bite_variants(ctx):
            is_p = kind.startswith("pLSCF")
            fs = rng.choice([20.0, 32.0])
            l = 3
            N = rng.choice([1500, 2000])
            nmodes = rng.randint(2, 3)
            ordmax = (rng.randint(5, 8) if is_p else rng.randint(6, 9)) if ctx.quick() else (rng.randint(5, 10) if is_p else rng.randint(6, 16))
            sc = pick_sc(rng, is_p)
            base = dict(extra, ordmax=ordmax, ordmin=0, sc=sc)
            if is_p:
                base["nxseg"] = 128
            else:
                base["br"] = -(-ordmax // l) + rng.randint(2, 4)
            if kind.endswith("_MS"):
                nref, nsets = 2, 2
                big = synth(np.random.default_rng(int(nrng.integers(1 << 30))), N, nref + nsets, fs, nmodes)
                data = dict(ref_ind=[list(range(nref))] * nsets,
                            datasets=[big[:, list(range(nref)) + [nref + k]] + 0.02 * nrng.standard_normal((N, nref + 1)) for k in range(nsets)])
                if not is_p:
                    base["br"] = max(base["br"], -(-ordmax // nref) + 2)
            else:
                data = synth(nrng, N, l, fs, nmodes)
            has_cov = bool(base.get("calc_unc"))
            hc_open = dict(HC_OPEN, **({} if is_p else {"cov_max": 1e300}))
            try:
                r0 = run_class(kind, data, fs, dict(base, hc=hc_open))
            except Exception as e:  # noqa: BLE001
                ctx.count(dict(kind="class", cls=kind, label="hc-open"))
                ctx.fail("oracle", "%s.run raised %s: %s with every hard criterion open" % (kind, type(e).__name__, str(e)[:200]),
                         dict(kind="class", cls=kind, fs=fs, params=dict(base, hc=hc_open), data=data), key="C10:%s.run:raised-%s" % (kind, type(e).__name__))
                continue
            F0, X0, P0 = np.asarray(r0.Fn_poles, dtype=float), np.asarray(r0.Xi_poles, dtype=float), np.asarray(r0.Phi_poles)
            alive0 = ~np.isnan(F0)
            n0 = int(alive0.sum())
            vals = {"xi_max": X0[alive0 & ~np.isnan(X0)]}
            for name, f in (("mpc_lim", gen.MPC), ("mpd_lim", gen.MPD)):
                out = []
                for i, o in np.argwhere(alive0):
                    try:
                        out.append(float(np.real(f(P0[i, o, :]))))
                    except Exception:  # noqa: BLE001
                        pass
                vals[name] = np.array([v for v in out if v == v])
            if has_cov and getattr(r0, "Fn_poles_cov", None) is not None:
                cv = np.asarray(r0.Fn_poles_cov, dtype=float)
                vals["cov_max"] = cv[alive0 & ~np.isnan(cv)]
            crits = ["conj", "xi_max", "mpc_lim", "mpd_lim"] + (["cov_max", "cov_max-stable"] if "cov_max" in vals else [])
            for crit in crits:
                hc = dict(hc_open)
                if crit == "conj":
                    hc["conj"] = True
                elif crit == "cov_max-stable":  # the median covariance of the poles that are stable with every criterion open
                    st = (np.asarray(r0.Lab) == 1) & ~np.isnan(cv)
                    if st.sum() < 2:
                        ctx.hist("hc-bites", "%s: no values" % crit)
                        continue
                    hc["cov_max"] = float(np.median(cv[st]))
                else:
                    v = vals[crit]
                    if v.size < 2:
                        ctx.hist("hc-bites", "%s: no values" % crit)
                        continue
                    qlo, qhi = (0.15, 0.5) if crit == "cov_max" else (0.3, 0.7)
                    hc[crit] = float(np.quantile(v, qlo + (qhi - qlo) * rng.random()))
                ordmin = rng.choice([0, 1, 2])
                params = dict(base, ordmin=ordmin, hc=hc)
                ctx.hist("stream", "B-hc")
                Lab = class_case(ctx, kind, data, fs, params, exprs, meta, "hc-bites:%s round %d" % (crit, rnd))
                if Lab is None:
                    continue
                n1 = int((~np.isnan(np.asarray(meta[-1][3]))).sum())
                ctx.hist("hc-bites", "%s: %s" % (crit, "none rejected" if n1 == n0 else ("all rejected" if n1 == 0 else "some rejected")))


def boundary_stream(ctx, exprs, meta):
    """Boundary values of the tolerances and limits, for every class variant, on one record per variant:
    each tolerance exactly 0 in turn (int 0 and float 0.0: legal, and no pole can then be stable), one tolerance 1e9 (that test
    always passes for a matched pair), and the hard-criteria limits mpc_lim = 0, xi_max = 1, mpd_lim = 0."""
    rng, nrng = ctx.rng, ctx.np_rng
    for rnd in range(ctx.n(1, 2)):
        for vi, (kind, extra) in enumerate(bite_variants(ctx)):
            is_p = kind.startswith("pLSCF")
            extra = {k: v for k, v in extra.items() if k not in ("calc_unc", "nb")}
            fs = rng.choice([20.0, 32.0])
            l, N, nmodes = 3, rng.choice([1500, 2000]), rng.randint(2, 3)
            ordmax = (5 if is_p else rng.randint(5, 6)) if ctx.quick() else (rng.randint(5, 7) if is_p else rng.randint(5, 10))
            base = dict(extra, ordmax=ordmax)
            if is_p:
                base["nxseg"] = 128
            else:
                base["br"] = -(-ordmax // l) + rng.randint(2, 4)
            if kind.endswith("_MS"):
                nref, nsets = 2, 2
                big = synth(np.random.default_rng(int(nrng.integers(1 << 30))), N, nref + nsets, fs, nmodes)
                data = dict(ref_ind=[list(range(nref))] * nsets,
                            datasets=[big[:, list(range(nref)) + [nref + k]] + 0.02 * nrng.standard_normal((N, nref + 1)) for k in range(nsets)])
                if not is_p:
                    base["br"] = max(base["br"], -(-ordmax // nref) + 2)
            else:
                data = synth(nrng, N, l, fs, nmodes)
            hc = dict(conj=True, xi_max=0.3, mpc_lim=0.3, mpd_lim=0.8)
            if not is_p:
                hc["cov_max"] = 0.2
            loose = dict(err_fn=0.05, err_xi=0.8, err_phi=0.2)
            runs = []
            for t, name in enumerate(("err_fn", "err_xi", "err_phi")):
                zero = 0 if (vi + t + rnd) % 2 == 0 else 0.0
                runs.append(("%s=%r" % (name, zero), dict(loose, **{name: zero}), hc))
            big_name = ("err_fn", "err_xi", "err_phi")[(vi + rnd) % 3]
            runs.append(("%s=1e9" % big_name, dict(loose, **{big_name: 1e9}), hc))
            runs.append(("mpc_lim=0,xi_max=1", loose, dict(hc, mpc_lim=0 if vi % 2 else 0.0, xi_max=1 if vi % 2 == 0 else 1.0)))
            runs.append(("mpd_lim=0", loose, dict(hc, mpd_lim=0 if vi % 2 == 0 else 0.0)))
            for what, sc, hc_run in runs:
                params = dict(base, ordmin=rng.choice([0, 1, 2]), sc=dict(sc), hc=dict(hc_run))
                ctx.hist("stream", "B-boundary")
                ctx.hist("boundary", what.split("=")[0] + "=" + what.split("=", 1)[1] if "," not in what else what)
                class_case(ctx, kind, data, fs, params, exprs, meta, "boundary:%s round %d" % (what, rnd))


# ---------------------------------------------------------------------------------------------------------------


def run(ctx):
    from pyoma2.functions import gen

    rng = ctx.rng
    quick = ctx.quick()
    ctx.extra["rule"] = ("stream A: random option tables (rows 1-%d, columns 1-%d, 1-4 channels, dyadic values) x column range x tolerance triple, "
                         "distinct by hash of (tables, range, tolerances); non-trivial when the expected table has both a stable and an unstable pole "
                         "inside the visited range.  stream B: one run of an algorithm class on synthetic multi-mode data; non-trivial when its Lab "
                         "has both values.  A cell is judged unless a decision of it lies within relative 1e-9 of its tolerance or of a tied neighbour."
                         % ((7, 12) if quick else (12, 40)))
    ctx.assumptions += [
        "NumPy element-wise IEEE semantics: nan comparisons are False, x/0 is inf or nan (never an exception), np.nanargmin returns the first minimum and raises on an all-NaN slice",
        "float subtraction and division are exact on the dyadic inputs of stream A (so exact ties are observable); on the full-precision tables of stream B cells within relative 1e-9 of a threshold are not judged",
        "the relative tests are read as |a-a'|/|a| < err; cells whose own frequency or damping is negative (impossible after HC_damp) are compared with the model only, not with the text",
        "C10_cell_verdict_sound: the exact margin classifier used to select judged cells is proved consistent with the labels",
    ]
    exprs, meta = [], []

    # ---------------- corpus first
    for path in sorted(glob.glob(os.path.join(VERIF, "corpus", "C10", "*.json"))):
        c = json.load(open(path))
        name = os.path.basename(path)
        ctx.hist("stream", "corpus")
        if c["kind"] == "class":
            Lab = class_case(ctx, c["cls"], c["data"], c["fs"], c["params"], exprs, meta, "corpus:" + name, shuffle=False,
                             forms=(dict(pick_forms(None, plain=True), **c["forms"]) if c.get("forms") else None))
            if Lab is not None and c.get("zero_tolerance_defaults") is not None:
                # keep the case discriminating: with the zero tolerance replaced by the documented default some pole is stable
                F, X, P = meta[-1][3], meta[-1][4], meta[-1][5]
                pr = c["params"]
                rngc = (max(pr.get("ordmin", 0) - 1, 0), pr["ordmax"] - 1) if c["cls"].startswith("pLSCF") else (pr.get("ordmin", 0), pr["ordmax"])
                dflt = c["zero_tolerance_defaults"]
                alt, _ = call_sc(gen, F.copy(), X.copy(), np.array(P), rngc[0], rngc[1],
                                 tuple(float(pr["sc"][k]) or float(dflt[k]) for k in ("err_fn", "err_xi", "err_phi")))
                if alt is None or alt.sum() == 0:
                    ctx.note("corpus case %s: no pole is stable even with the zero tolerance replaced by its default" % name)
            if Lab is not None and c.get("mispairing_must_differ"):
                # keep the case discriminating: the tolerances taken in the stored key ORDER give other labels than taken by KEY
                F, X, P = meta[-1][3], meta[-1][4], meta[-1][5]
                pr = c["params"]
                rngc = (max(pr.get("ordmin", 0) - 1, 0), pr["ordmax"] - 1) if c["cls"].startswith("pLSCF") else (pr.get("ordmin", 0), pr["ordmax"])
                by_pos, _ = call_sc(gen, F.copy(), X.copy(), np.array(P), rngc[0], rngc[1], tuple(float(v) for v in pr["sc"].values()))
                by_key, _ = call_sc(gen, F.copy(), X.copy(), np.array(P), rngc[0], rngc[1], (pr["sc"]["err_fn"], pr["sc"]["err_xi"], pr["sc"]["err_phi"]))
                if by_pos is None or by_key is None or np.array_equal(by_pos, by_key):
                    ctx.note("corpus case %s: tolerances taken by position no longer give labels different from tolerances taken by key" % name)
            if Lab is not None and c.get("open_hc") is not None:
                # keep the case discriminating: with the criterion open some poles are stable that the stated criterion rejects
                try:
                    r_open = run_class(c["cls"], c["data"], c["fs"], dict(c["params"], hc=c["open_hc"]))
                    lost = (np.asarray(r_open.Lab) == 1) & np.isnan(np.asarray(meta[-1][3]))
                    if not lost.any():
                        ctx.note("corpus case %s no longer rejects a pole that is stable with the criterion open" % name)
                except Exception as e:  # noqa: BLE001
                    ctx.note("corpus case %s: the open-criteria run raised %s" % (name, type(e).__name__))
            if Lab is not None and c.get("expect_stable_at_column") is not None:
                col = int(c["expect_stable_at_column"])
                if not (Lab.shape[1] > col and Lab[:, col].sum() > 0):
                    ctx.fail("oracle", "%s.run: no pole of order %d (= ordmin, column %d) is labelled stable on the corpus record %s, where the pole of order %d "
                             "repeats the pole of order %d within the tolerances" % (c["cls"], col + 1, col, name, col + 1, col),
                             dict(corpus=name, cls=c["cls"], params=c["params"]), key="C10:%s.run:missed-stable" % c["cls"])
        elif c["kind"] == "sc_apply_tall":
            tall_case(ctx, gen, c, "corpus:" + name)
        elif c["kind"] == "sc_apply":
            Fn, Xi, Phi = tables_from_json(c)
            tols = (float(c["efn"]), float(c["exi"]), float(c["ephi"]))
            c0, c1 = int(c["c0"]), int(c["c1"])  # the ordmin / ordmax arguments (orders; = columns when step is 1)
            cstep = int(c.get("step", 1))
            forms = dict(pick_forms(None, plain=True), **(c.get("forms") or {}))
            a0, a1, a2, narrow = present_tables(Fn, Xi, Phi, forms)
            if forms["dtype"] == "float32" and not narrow:
                ctx.note("corpus table %s is no longer exactly representable in float32" % name)
            Lab, err = call_sc(gen, a0, a1, a2, c0, c1, tols, forms, step=cstep)
            case = case_json(Fn, Xi, Phi, c0=c0, c1=c1, step=cstep, efn=tols[0], exi=tols[1], ephi=tols[2], corpus=name, forms=forms)
            ctx.count(case)
            if Lab is None:
                ctx.fail("oracle", "gen.SC_apply raised %s on corpus table %s (input forms: %s)" % (err, name, forms), case, key="C10:SC_apply:raised-%s" % err)
                continue
            free = np.zeros(np.shape(Lab), dtype=bool)
            for (fi, fo) in c.get("free_cells") or []:   # exact ties of the nearest neighbour: the choice is the implementation's
                free[int(fi), int(fo)] = True
            if c.get("expected") is not None and (np.shape(Lab) != np.shape(c["expected"]) or not np.array_equal(np.asarray(Lab)[~free], np.array(c["expected"])[~free])):
                ctx.fail("oracle", "gen.SC_apply on corpus table %s: labels %s, expected %s" % (name, Lab.tolist(), c["expected"]), case,
                         key="C10:SC_apply:corpus-%s" % name)
            exprs.append("run_sc_step %s %s %s %d%%nat %d%%nat %d%%nat %s %s %s"
                         % (tab_q(Fn), tab_q(Xi), tab_phi(Phi), c0, c1, cstep, qq(tols[0]), qq(tols[1]), qq(tols[2])))
            vis = set(visited_columns(c0, c1, cstep, Fn.shape[1]))
            case["shrink_columns"] = [min(vis), max(vis)] if vis else [1, 0]
            meta.append(("sc", "SC_apply", Lab, Fn, Xi, Phi, (lambda o, vis=vis: o in vis), tols, case, True, dict(text=(c0 % cstep == 0))))

    # ---------------- stream A
    nA = ctx.n(600, 4000)
    pool = []
    for _ in range(nA):
        Fn, Xi, Phi, feats = gen_tables(rng, quick)
        R, C = Fn.shape
        efn, exi, ephi, how = gen_tols(rng, Fn, Xi, Phi)
        tols = (efn, exi, ephi)
        r = rng.random()
        c1 = C - 1 if r < 0.7 else (rng.randint(0, C - 1) if r < 0.95 else C + rng.randint(0, 2))
        r = rng.random()
        c0 = 0 if r < 0.2 else (rng.randint(0, min(c1, C - 1)) if r < 0.93 else rng.randint(0, C))  # mostly ordmin <= ordmax
        # c0, c1 are COLUMNS; the call is made in ORDERS with a step: column c stands for order c*step
        step = 1 if rng.random() < 0.5 else rng.choice([2, 2, 3, 3, 4, 5, 7])
        offgrid = step > 1 and rng.random() < 0.15
        ordmin = c0 * step + (rng.randint(1, step - 1) if offgrid else 0)
        ordmax = c1 * step + (rng.randint(0, step - 1) if step > 1 else 0)
        vis = set(visited_columns(ordmin, ordmax, step, C + 4))
        if not offgrid and vis != set(range(c0, c1 + 1)) & set(range(C + 4)):
            ctx.note("generator: on-grid orders do not give the intended columns")
        case = case_json(Fn, Xi, Phi, c0=ordmin, c1=ordmax, step=step, efn=efn, exi=exi, ephi=ephi,
                         shrink_columns=[min(vis), max(vis)] if vis else [1, 0])
        ctx.hist("step", step)
        ctx.hist("order-grid", "step 1" if step == 1 else ("ordmin off the grid (model only)" if offgrid else "ordmin on the grid"))
        ctx.hist("stream", "A")
        ctx.hist("rows", R)
        ctx.hist("columns", C if C <= 12 else "13-40")
        ctx.hist("tolerances", how)
        ctx.hist("range", "empty" if not vis else ("beyond-table" if max(vis) >= C else ("all" if (min(vis) <= 1 and max(vis) == C - 1) else "partial")))
        for ft in sorted(feats):
            ctx.hist("feature", ft)
        ctx.sample(dict(shape=[R, C, Phi.shape[2]], ordmin=ordmin, ordmax=ordmax, step=step, efn=efn, exi=exi, ephi=ephi, features=sorted(feats),
                        Fn_first_rows=Fn[:2].tolist()))
        forms = pick_forms(rng)
        a0, a1, a2, narrow = present_tables(Fn, Xi, Phi, forms)
        forms["dtype"] = "float32" if narrow else "float64"
        case["forms"] = forms
        for k_, v_ in forms.items():
            ctx.hist("A-form-" + k_, v_)
        b0, b1, b2 = a0.copy(), a1.copy(), a2.copy()
        Lab, err = call_sc(gen, a0, a1, a2, ordmin, ordmax, tols, forms, step=step)
        if not (nan_equal(a0, b0) and nan_equal(a1, b1) and nan_equal(a2, b2)):
            ctx.fail("oracle", "gen.SC_apply modified its input tables", case, key="C10:SC_apply:mutates-input")
        beyond = bool(vis) and max(vis) >= C
        if beyond:
            # ordmax beyond the table is outside the property; the model says IndexError, the kind is not compared
            ctx.count(case, nontrivial=False)
            if Lab is not None:
                ctx.note("gen.SC_apply returned labels for a column range beyond the table (model: IndexError) - not constrained by the property")
            continue
        if Lab is None:
            ctx.count(case, nontrivial=False)
            ctx.fail("oracle", "gen.SC_apply raised %s on a well-formed table and range (input forms: %s)" % (err, forms), case,
                     key="C10:SC_apply:raised-%s" % err)
            continue
        # the same call with writable float64 tables and plain Python int / float options
        Lab2, _ = call_sc(gen, Fn.copy(), Xi.copy(), Phi.copy(), ordmin, ordmax, tols, step=step)
        inr = (lambda o, vis=vis: o in vis)  # on the grid this is the text's "order o*step lies in [ordmin, ordmax]"
        # purity: now and then an EARLIER input is called again, after all the calls made since; same inputs, same labels
        if len(pool) < 8 and rng.random() < 0.1:
            pool.append((Fn.copy(), Xi.copy(), Phi.copy(), ordmin, ordmax, step, tols, Lab2.copy() if Lab2 is not None else None, case))
        elif pool and rng.random() < 0.08:
            pF, pX, pP, pmin, pmax, pstep, ptols, plab, pcase = pool[rng.randrange(len(pool))]
            again, _ = call_sc(gen, pF.copy(), pX.copy(), pP.copy(), pmin, pmax, ptols, step=pstep)
            ctx.hist("purity", "function-level re-call")
            if (again is None) != (plab is None) or (again is not None and not np.array_equal(again, plab)):
                ctx.fail("oracle", "gen.SC_apply gives other labels for the same tables, range and tolerances after other calls were made in between",
                         pcase, key="C10:SC_apply:history-dependent")
        if narrow:
            # float32 / complex64 storage computes in single precision: judged by the text on the float64 image with the margin
            # of the narrower type; the model judges the float64 call below
            expn, whyn = text_labels(Fn, Xi, Phi, inr, *tols, rel=REL_NARROW)
            if offgrid:
                expn = np.full(Fn.shape, -3)
            badn = np.argwhere((expn >= 0) & (Lab != expn)) if Lab.shape == expn.shape else np.zeros((1, 2), int)
            if len(badn):
                i_, o_ = [int(v) for v in badn[0]]
                ctx.fail("oracle", "SC_apply on float32/complex64 tables: pole (row %d, column %d) labelled %s, the property says %d (%s)"
                         % (i_, o_, Lab[i_, o_] if Lab.shape == expn.shape else "?", expn[i_, o_], whyn[(i_, o_)]),
                         dict(case, cell=[i_, o_]), key="C10:SC_apply:storage-dtype")
            if Lab2 is None:
                ctx.fail("oracle", "gen.SC_apply raised on the float64 image of a table it accepts as float32", case, key="C10:SC_apply:storage-dtype")
                continue
            Lab = Lab2
        elif Lab2 is None or not np.array_equal(Lab, Lab2):
            ctx.fail("oracle", "gen.SC_apply gives other labels for the same inputs handed over as %s than as writable arrays with Python int/float options"
                     % forms, case, key="C10:SC_apply:input-form")
        exp, _ = text_labels(Fn, Xi, Phi, inr, *tols)
        seen = [o for o in sorted(vis) if 1 <= o < C]
        ctx.count(case, nontrivial=bool((exp == 1).any() and seen and (exp[:, seen] == 0).any()))
        exprs.append("run_sc_step %s %s %s %d%%nat %d%%nat %d%%nat %s %s %s" % (tab_q(Fn), tab_q(Xi), tab_phi(Phi), ordmin, ordmax, step, qq(efn), qq(exi), qq(ephi)))
        meta.append(("sc", "SC_apply", Lab, Fn, Xi, Phi, inr, tols, case, True, dict(text=not offgrid)))

    # ---------------- stream A-int: NaN-free integer-valued frequency / shape tables stored as int32 / int64 (signed: the
    # pristine subtraction wraps around for unsigned storage) against their float64 image; NumPy text only
    for k in range(ctx.n(16, 80)):
        R, C, L = rng.randint(2, 5), rng.randint(2, 6), rng.randint(1, 3)
        base = [rng.randint(2, 40) for _ in range(R)]
        Fi = np.array([[b + rng.choice([0, 0, 1, -1, 2, 5]) for _ in range(C)] for b in base])
        Xf = np.array([[1 / 32.0 + rng.choice([0, 1, -1, 8]) / 1024.0 for _ in range(C)] for _ in range(R)])
        shp = [[rng.randint(-4, 4) for _ in range(L)] for _ in range(R)]
        Pi = np.array([[[v * rng.choice([1, 1, -1, 2]) + rng.choice([0, 0, 0, 1]) for v in shp[i]] for _ in range(C)] for i in range(R)])
        Pi[(Pi == 0).all(axis=2)] = 1
        tols = (rng.choice([0.04, 0.06, 0.11, 0.3]), rng.choice([0.1, 0.3]), rng.choice([0.05, 0.2]))
        idt = rng.choice([np.int64, np.int32])
        forms = dict(pick_forms(rng), dtype=np.dtype(idt).name)
        xdt = np.float32 if (rng.random() < 0.3 and exact_in(Xf, np.float32)) else float
        c0, c1 = rng.randint(0, 1), C - 1
        F64, P64 = Fi.astype(float), Pi.astype(float)
        case = case_json(F64, Xf, P64, c0=c0, c1=c1, efn=tols[0], exi=tols[1], ephi=tols[2], forms=forms, xi_dtype=np.dtype(xdt).name, kind="sc_apply_int")
        ctx.hist("stream", "A-int")
        a0, a1, a2 = Fi.astype(idt), Xf.astype(xdt), Pi.astype(idt)
        if forms["readonly"]:
            for a in (a0, a1, a2):
                a.setflags(write=False)
        Lab, err = call_sc(gen, a0, a1, a2, c0, c1, tols, forms)
        inr = (lambda o, c0=c0, c1=c1: c0 <= o <= c1)
        exp, why = text_labels(F64, Xf, P64, inr, *tols, rel=(REL_NARROW if xdt is np.float32 else REL))
        ctx.count(case, nontrivial=bool((exp == 1).any() and (exp[:, 1:] == 0).any()))
        if Lab is None:
            ctx.fail("oracle", "gen.SC_apply raised %s on integer-valued tables stored as %s (input forms %s)" % (err, forms["dtype"], forms), case,
                     key="C10:SC_apply:raised-%s" % err)
            continue
        bad = np.argwhere((exp >= 0) & (Lab != exp)) if Lab.shape == exp.shape else np.zeros((1, 2), int)
        if len(bad):
            i_, o_ = [int(v) for v in bad[0]]
            ctx.fail("oracle", "SC_apply on integer-valued tables stored as %s: pole (row %d, column %d) labelled %s, the property says %d (%s)"
                     % (forms["dtype"], i_, o_, Lab[i_, o_] if Lab.shape == exp.shape else "?", exp[i_, o_], why[(i_, o_)]),
                     dict(case, cell=[i_, o_]), key="C10:SC_apply:storage-dtype")

    # ---------------- stream A-tall: tables of 1023 ... 3000 rows (function level, NumPy text only)
    for k, R in enumerate(TALL_ROWS * ctx.n(1, 3)):
        tall_case(ctx, gen, dict(seed=rng.randrange(1 << 30), R=R, C=rng.randint(3, 6), L=1 if (k + rng.randrange(2)) % 2 else 2), "generated")

    # ---------------- stream B
    class_configs_list = class_configs(ctx)
    first_result = {}
    for (kind, data, fs, params, rep) in class_configs_list:
        ctx.hist("stream", "B")
        if not any(k.startswith("pLSCF") == kind.startswith("pLSCF") for k in first_result):
            try:  # reference run of the first configuration of each family (plain forms), repeated after the whole stream
                r1 = run_class(kind, data, fs, params)
                first_result[kind] = (np.asarray(r1.Fn_poles, dtype=float), np.asarray(r1.Lab))
            except Exception:  # noqa: BLE001  (class_case below reports it)
                pass
        # first pass with ordmin = 0 (every column requested); judged against the model for the first repetition of each class
        Lab0 = class_case(ctx, kind, data, fs, params, exprs, meta, "rep%d ordmin=0" % rep, evaluate=(rep == 0))
        if Lab0 is None:
            continue
        # second pass: ordmin placed ON a column holding stable poles (it must stay labelled) or just ABOVE it (it must not)
        is_p = kind.startswith("pLSCF")
        ordmax = params["ordmax"]
        cols = [int(c) for c in np.flatnonzero(Lab0.sum(axis=0) > 0)]
        if cols:
            col = rng.choice(cols)
            order = col + 1 if is_p else col
            ordmin = order if rep % 3 != 2 else min(order + 1, ordmax)
            ctx.hist("class-ordmin-placement", "on a stable column" if ordmin == order else "just above a stable column")
        else:
            ordmin = [2, 3, 1, ordmax, ordmax // 2][rep % 5]
            ctx.hist("class-ordmin-placement", "no stable column")
        ordmin = max(0, min(int(ordmin), ordmax))
        p2 = dict(params, ordmin=ordmin)
        ctx.hist("stream", "B")
        class_case(ctx, kind, data, fs, p2, exprs, meta, "rep%d ordmin=%d" % (rep, ordmin))

    # ---------------- purity at class level: the first SSI and the first pLSCF configuration once more, after everything above
    seen_family = set()
    for (kind, data, fs, params, rep) in class_configs_list:
        fam = kind.startswith("pLSCF")
        if fam in seen_family or kind not in first_result:
            continue
        seen_family.add(fam)
        try:
            r2 = run_class(kind, data, fs, params)
        except Exception as e:  # noqa: BLE001
            ctx.fail("oracle", "%s.run raised %s when the same configuration was run a second time" % (kind, type(e).__name__),
                     dict(kind="class", cls=kind, fs=fs, params=params, data=data), key="C10:%s.run:history-dependent" % kind)
            continue
        ctx.hist("purity", "class-level re-run")
        F1, L1 = first_result[kind]
        if not (nan_equal(np.asarray(r2.Fn_poles, dtype=float), F1) and np.array_equal(np.asarray(r2.Lab), L1)):
            ctx.fail("oracle", "%s.run: the same record and parameters give other pole tables / labels when run again after other runs" % kind,
                     dict(kind="class", cls=kind, fs=fs, params=params, data=data), key="C10:%s.run:history-dependent" % kind)

    # ---------------- stream B-step: SSI classes with a step > 1.  SSI_poles builds a table only for step = ordmax (two columns:
    # order 0 and one more); what is judged is the glue - ordmin, ordmax, STEP reach gen.SC_apply unchanged - and the labels
    for rnd in range(ctx.n(1, 3)):
        for kind in ("SSIcov", "SSIdat", "SSIcov_MS", "SSIdat_MS"):
            ordmax = rng.randint(3, 6)
            ordmin = rng.choice([0, ordmax, rng.randint(1, ordmax - 1)])
            fs = rng.choice([20.0, 32.0])
            N = 1200
            hc = dict(conj=True, xi_max=0.3, mpc_lim=0.3, mpd_lim=0.8, cov_max=0.2)
            params = dict(br=ordmax + 2, ordmax=ordmax, ordmin=ordmin, step=ordmax, sc=pick_sc(rng, False), hc=hc)
            if kind.startswith("SSIcov"):
                params["method"] = rng.choice(["cov_mm", "cov_R"])
            if kind.endswith("_MS"):
                big = synth(np.random.default_rng(int(ctx.np_rng.integers(1 << 30))), N, 4, fs, 2)
                data = dict(ref_ind=[[0, 1]] * 2, datasets=[big[:, [0, 1, 2 + k]] + 0.02 * ctx.np_rng.standard_normal((N, 3)) for k in range(2)])
            else:
                data = synth(ctx.np_rng, N, 3, fs, 2)
            ctx.hist("stream", "B-step")
            class_case(ctx, kind, data, fs, params, exprs, meta, "step=ordmax=%d ordmin=%d round %d" % (ordmax, ordmin, rnd))

    # ---------------- stream B-hc: every hard criterion biting, one at a time, for every class variant
    bite_stream(ctx, exprs, meta)

    # ---------------- stream B-boundary: tolerances exactly 0 / huge, limits at their boundary values, every class variant
    boundary_stream(ctx, exprs, meta)

    # ---------------- model evaluation and comparison
    res = balanced_eval(ctx, exprs, ctx.n(24, 16))
    judged = 0
    for (typ, site, Lab, Fn, Xi, Phi, in_range, tols, case, dyadic, extra), s in zip(meta, res):
        if typ == "class":
            # "arguments|labels|verdicts": first the glue (what the class hands to gen.SC_apply), then the labels as before
            glue, s = s.split("|", 1)
            want = parse_glue(glue)
            ctx.hist("glue", "arguments compared")
            for cap in extra["captured"][:1]:
                try:
                    got = dict(ordmin=int(cap["ordmin"]), ordmax=int(cap["ordmax"]), step=int(cap["step"]),
                               err_fn=Fraction(float(cap["err_fn"])), err_xi=Fraction(float(cap["err_xi"])), err_phi=Fraction(float(cap["err_phi"])))
                except Exception:  # noqa: BLE001
                    got = None
                if got != want:
                    show = lambda d: {k: (float(v) if isinstance(v, Fraction) else v) for k, v in d.items()} if isinstance(d, dict) else d  # noqa: E731
                    ctx.fail("correspondence", "%s passes %s to gen.SC_apply, the model's glue %s" % (site, show(got), show(want)), case,
                             key="C10:%s:glue-args" % site)
        model = parse_model(s)
        if model[0] in ("IndexError", "ValueError") or str(model[0]).startswith("KeyError"):
            ctx.fail("correspondence", "%s returned labels where the model raises %s" % (site, model[0]), case, key="C10:%s:corr-indexerror" % site)
            continue
        before = len(ctx.failures)
        judged += judge(ctx, site, Lab, model, Fn, Xi, Phi, in_range, tols, case, dyadic, text=extra.get("text", True))
        if typ == "sc" and len(ctx.failures) > before:
            f = next((f for f in ctx.failures[before:] if f["kind"] == "oracle" and "cell" in (f["case"] or {})), None)
            if f is not None:
                i, o = f["case"]["cell"]
                sc0, sc1 = case.get("shrink_columns", [case["c0"], case["c1"]])
                small = shrink_two_columns(gen, Fn, Xi, np.asarray(Phi), sc0, sc1, tols, i, o)
                if small is not None:
                    f["case"] = jsonable(small)
    ctx.extra["judged_cells"] = judged
