"""C16 - interactive pole picking hands over exactly the picked (frequency, order) pairs.

Model / specification: coq/Model/M_pick.v (`allowed`: relation on multisets of (frequency, column) pairs, evaluated as a
checker on the transitions recorded from the real handlers); theorems: coq/Properties/C16.v.

The real `SelFromPlot` is constructed head-less: `_initialize_gui` is replaced (from this process only) by a stub whose
`root.mainloop()` applies a scripted sequence of events to the REAL handlers (`on_key_press`, `on_key_release`,
`on_click_SSI`, `on_click_FDD`) and records (shift_is_held, sel_freq, pole_ind / freq_ind) after every event.  The
same stub serves `mpe_from_plot` of the real algorithm classes, so the hand-over is observed on `algorithm.result`.
"""
import glob
import inspect
import itertools
import json
import os
import types
from collections import Counter
from fractions import Fraction

import numpy as np

from common import VERIF, jsonable

HEADER = "From PyOMA.Model Require Import M_pick."
BTN = {1: "BLeft", 2: "BMiddle", 3: "BRight"}
NAN = float("nan")


# =====================================================================================================================
# head-less driving of the real dialog
# =====================================================================================================================
class _Ev:
    def __init__(self, **kw):
        self.__dict__.update(kw)


_SESSION = {"script": [], "rec": None, "exc": None, "obj": None, "enum": False, "owner": None, "conn": {}, "menu": {}, "root": None,
            "closed_via": None, "gui": None}


def _snap(o):
    idx = o.freq_ind if o.plot == "FDD" else o.pole_ind
    return (o.shift_is_held, list(o.sel_freq), list(idx))


def _button(code):
    if _SESSION["enum"]:
        from matplotlib.backend_bases import MouseButton

        try:
            return MouseButton(code)
        except ValueError:
            return code
    return code


def _dispatch(o, name, ev, direct):
    """Deliver an event the way the canvas does: to the callbacks the REAL _initialize_gui registered with mpl_connect
    (falls back to the handler method when the dialog was built by the minimal stub)."""
    cbs = _SESSION["conn"].get(name)
    if cbs:
        for cb in list(cbs):
            cb(ev)
    else:
        direct(ev)


def _apply(o, a, phys):
    """Apply one scripted action to the real handlers; returns the exception kind if the handler raised."""
    k = a[0]
    try:
        if k == "kd":
            _dispatch(o, "key_press_event", _Ev(key="shift", name="key_press_event", inaxes=o.ax2, xdata=None, ydata=None, x=100, y=100, guiEvent=None, canvas=None), o.on_key_press)
        elif k == "ku":
            _dispatch(o, "key_release_event", _Ev(key="shift", name="key_release_event", inaxes=o.ax2, xdata=None, ydata=None, x=100, y=100, guiEvent=None, canvas=None), o.on_key_release)
        elif k == "ko":
            ev = _Ev(key=a[1], name="key_%s_event" % a[2], inaxes=o.ax2, xdata=None, ydata=None, x=100, y=100, guiEvent=None, canvas=None)
            _dispatch(o, "key_%s_event" % a[2], ev, o.on_key_press if a[2] == "press" else o.on_key_release)
        elif k == "m":  # a menu entry of the dialog (show / hide unstable poles, help): selects nothing
            cmd = _SESSION["menu"].get(a[1])
            if cmd is None:
                return "NoSuchMenuEntry"
            cmd()
        elif k == "close":  # the user closes the window: the callback registered for WM_DELETE_WINDOW
            cb = getattr(_SESSION["root"], "protocols", {}).get("WM_DELETE_WINDOW")
            if cb is not None:
                _SESSION["closed_via"] = "WM_DELETE_WINDOW"
                cb()
            elif hasattr(o, "on_closing"):
                _SESSION["closed_via"] = "on_closing"
                o.on_closing()
            else:
                _SESSION["closed_via"] = "none"
        else:
            mods = frozenset(["shift"]) if phys else frozenset()
            dbl = a[-1] == "dbl"  # the second of two quick presses: Matplotlib delivers it with MouseEvent.dblclick = True
            canvas = getattr(getattr(o, "fig", None), "canvas", None)
            if k == "c":  # every attribute a real matplotlib.backend_bases.MouseEvent carries
                ev = _Ev(name="button_press_event", canvas=canvas, guiEvent=None, button=_button(a[1]), xdata=np.float64(a[2]), ydata=np.float64(a[3]),
                         inaxes=o.ax2, key="shift" if phys else None, modifiers=mods, dblclick=dbl, x=100, y=100, step=0)
            else:  # click outside the axes
                ev = _Ev(name="button_press_event", canvas=canvas, guiEvent=None, button=_button(a[1]), xdata=None, ydata=None, inaxes=None,
                         key="shift" if phys else None, modifiers=mods, dblclick=dbl, x=1, y=1, step=0)
            _dispatch(o, "button_press_event", ev, o.on_click_FDD if o.plot == "FDD" else (lambda e: o.on_click_SSI(e, o.plot)))
        return None
    except Exception as e:  # Matplotlib's callback registry swallows handler exceptions too
        return type(e).__name__


CLOSE = ("close",)


class _FakeWidget:
    """Stands for any Tk widget / Matplotlib GUI object: accepts every call, chains."""

    def __init__(self, *a, **k):
        pass

    def __getattr__(self, name):
        if name.startswith("__"):
            raise AttributeError(name)
        return lambda *a, **k: _FakeWidget()


class _FakeRoot(_FakeWidget):
    """Stands for tkinter.Tk(): records protocol() registrations; mainloop() plays the script on the real handlers and then
    CLOSES the window the way a user does - through the callback the dialog registered for WM_DELETE_WINDOW."""

    def __init__(self, *a, **k):
        self.protocols = {}
        self.calls = []
        _SESSION["root"] = self

    def protocol(self, name=None, func=None):
        if func is not None:
            self.protocols[name] = func

    def quit(self):
        self.calls.append("quit")

    def destroy(self):
        self.calls.append("destroy")

    def mainloop(self, n=0):
        o = _SESSION["owner"]
        rec, exc = [_snap(o)], []
        phys = False
        for a in tuple(_SESSION["script"]) + (CLOSE,):
            if a[0] == "kd":
                phys = True
            elif a[0] == "ku":
                phys = False
            exc.append(_apply(o, a, phys))
            rec.append(_snap(o))
        _SESSION.update(rec=rec, exc=exc, obj=o)


class _FakeMenu(_FakeWidget):
    def add_command(self, label=None, command=None, **k):
        if label is not None and command is not None:
            _SESSION["menu"][label] = command


class _FakeCanvas(_FakeWidget):
    def mpl_connect(self, name, cb):
        _SESSION["conn"].setdefault(name, []).append(cb)
        return len(_SESSION["conn"][name])


class _FakeFigure(_FakeWidget):
    """draw=False: stands for matplotlib.figure.Figure (nothing is drawn, plot_stab / plot_svPSD are stubbed)."""

    def __init__(self, *a, **k):
        self.canvas = _FakeCanvas()


class _FakeCanvasTkAgg(_FakeCanvas):
    """Stands for FigureCanvasTkAgg(fig, root).  With a real Figure (draw=True) it installs an Agg canvas and records the
    mpl_connect registrations made on it."""

    def __init__(self, fig=None, master=None, **k):
        if not isinstance(fig, _FakeFigure) and fig is not None:
            from matplotlib.backends.backend_agg import FigureCanvasAgg

            FigureCanvasAgg(fig)
            real = fig.canvas.mpl_connect

            def connect(name, cb):
                _SESSION["conn"].setdefault(name, []).append(cb)
                return real(name, cb)

            fig.canvas.mpl_connect = connect


class _FakeTk:
    """Stands for the tkinter module inside pyoma2.support.sel_from_plot."""

    Tk = _FakeRoot
    Menu = _FakeMenu
    messagebox = _FakeWidget()

    def __getattr__(self, name):
        return _FakeWidget


_ORIG = {}


def _gui_real(self):
    """The REAL SelFromPlot._initialize_gui, run against stand-ins for tkinter / FigureCanvasTkAgg / NavigationToolbar2Tk (and
    for Figure when nothing is drawn): menus, mpl_connect registrations and the WM_DELETE_WINDOW protocol are the dialog's own."""
    _SESSION.update(owner=self, conn={}, menu={}, root=None, closed_via=None, gui="real")
    try:
        _ORIG["gui"](self)
        if not isinstance(getattr(self, "root", None), _FakeRoot):
            raise RuntimeError("dialog did not create its root through tkinter.Tk()")
    except Exception:
        # a differently organised GUI construction: minimal stub, events go straight to the handler methods
        _SESSION.update(conn={}, menu={}, gui="stub")
        self.root = _FakeRoot()
        if _SESSION.get("draw"):
            from matplotlib.backends.backend_agg import FigureCanvasAgg

            self.fig = _ORIG["Figure"](figsize=(5, 3))
            FigureCanvasAgg(self.fig)
            self.ax2 = self.fig.add_subplot(111)
        else:
            self.fig, self.ax2 = _FakeFigure(), _FakeWidget()


def set_mode(draw):
    """draw=False: nothing is drawn (Figure stand-in, plot_stab / plot_svPSD stubbed); draw=True: a real Figure on an Agg canvas
    and the real plot_stab / plot_svPSD.  In both modes the dialog is built by its own _initialize_gui."""
    import pyoma2.support.sel_from_plot as M

    SelFromPlot = M.SelFromPlot
    if not _ORIG:
        _ORIG.update(gui=SelFromPlot._initialize_gui, ps=SelFromPlot.plot_stab, pv=SelFromPlot.plot_svPSD, tk=M.tk, Figure=M.Figure,
                     canvas=M.FigureCanvasTkAgg, toolbar=M.NavigationToolbar2Tk)
    _SESSION["draw"] = bool(draw)
    SelFromPlot._initialize_gui = _gui_real
    M.tk = _FakeTk()
    M.FigureCanvasTkAgg = _FakeCanvasTkAgg
    M.NavigationToolbar2Tk = _FakeWidget
    if draw:
        M.Figure = _ORIG["Figure"]
        SelFromPlot.plot_stab = _ORIG["ps"]
        SelFromPlot.plot_svPSD = _ORIG["pv"]
    else:
        M.Figure = _FakeFigure
        SelFromPlot.plot_stab = lambda self, *a, **k: None
        SelFromPlot.plot_svPSD = lambda self, *a, **k: None


def restore():
    import pyoma2.support.sel_from_plot as M

    if _ORIG:
        M.SelFromPlot._initialize_gui = _ORIG["gui"]
        M.SelFromPlot.plot_stab = _ORIG["ps"]
        M.SelFromPlot.plot_svPSD = _ORIG["pv"]
        M.tk, M.Figure, M.FigureCanvasTkAgg, M.NavigationToolbar2Tk = _ORIG["tk"], _ORIG["Figure"], _ORIG["canvas"], _ORIG["toolbar"]


def drive(algo, plot, script, enum=False, freqlim=None):
    """Construct the real SelFromPlot on `algo` (with the display option freqlim), play `script`; returns (recorded
    snapshots, exception kinds, .result)."""
    from pyoma2.support.sel_from_plot import SelFromPlot

    _SESSION.update(script=script, rec=None, exc=None, obj=None, enum=enum)
    obj = SelFromPlot(algo, freqlim=None if freqlim is None else tuple(freqlim), plot=plot)
    return _SESSION["rec"], _SESSION["exc"], getattr(obj, "result", "missing")


def as_table(tab, shape=None):
    """rows x orders float array from a nested list / array (shape given explicitly for tables without rows or orders)."""
    A = np.array(tab, dtype=float)
    if A.ndim != 2:
        A = A.reshape(tuple(shape) if shape is not None else (len(tab), 0))
    return A


def fake_algo(variant, tab, shape=None, ordlim=None):
    if variant == "FDD":
        freq = np.array(tab, dtype=float)
        n = len(freq)
        sv = np.ones((2, 2, max(n, 1))) * 2.0
        sv[0, 0, :] = 2.0 + np.arange(max(n, 1)) % 3
        return types.SimpleNamespace(fs=100.0, result=types.SimpleNamespace(freq=freq, S_val=sv[:, :, :n] if n else sv[:, :, :0]),
                                     run_params=types.SimpleNamespace())
    Fn = as_table(tab, shape)
    return types.SimpleNamespace(fs=100.0, result=types.SimpleNamespace(Fn_poles=Fn, Lab=np.where(np.isnan(Fn), 0, 1)),
                                 run_params=types.SimpleNamespace(ordmin=0 if ordlim is None else int(ordlim[0]),
                                                                  ordmax=max(Fn.shape[1] - 1, 0) if ordlim is None else int(ordlim[1]), step=1))


# =====================================================================================================================
# the property text as a plain-Python oracle: multisets of (frequency, order) pairs, exact rationals
# =====================================================================================================================
class BadState(Exception):
    pass


def to_state(snap):
    sh, fr, idx = snap
    if len(fr) != len(idx):
        raise BadState("the frequency list (%d entries) and the order/line list (%d entries) have different lengths" % (len(fr), len(idx)))
    sel = []
    for f, k in zip(fr, idx):
        f = float(f)
        if not np.isfinite(f):
            raise BadState("non-finite frequency in the selection")
        if int(k) != k:
            raise BadState("non-integer order in the selection")
        sel.append((Fraction(f), int(k)))
    return (bool(sh), tuple(sel))


class Tab:
    """A pole table (rows x orders, NaN = no retained pole) or an FDD frequency grid, with exact entries."""

    def __init__(self, variant, tab, shape=None):
        self.variant = variant
        if variant == "FDD":
            self.raw = [float(f) for f in tab]
            self.shape = [len(self.raw)]
            self.freq = [Fraction(float(f)) for f in tab]
        else:
            A = as_table(tab, shape)
            self.raw = A.tolist()
            self.shape = list(A.shape)
            self.A = A
            self.cols = [[None if np.isnan(v) else Fraction(float(v)) for v in A[:, o]] for o in range(A.shape[1])]
        self._des = {}

    def designated(self, x, y):
        """The pairs a picking click at (x, y) may designate according to the property text (several only on exact ties;
        None = the click designates nothing: no order, or no retained pole at the nearest order)."""
        key = (x, y)
        if key in self._des:
            return self._des[key]
        X, Y = Fraction(float(x)), Fraction(float(y))
        out = set()
        if self.variant == "FDD":
            if not self.freq:
                out.add(None)
            else:
                d = [abs(f - X) for f in self.freq]
                m = min(d)
                out = {(self.freq[k], k) for k in range(len(d)) if d[k] == m}
        else:
            n = len(self.cols)
            if n == 0:
                out.add(None)
            else:
                dy = [abs(k - Y) for k in range(n)]
                my = min(dy)
                for o in range(n):
                    if dy[o] != my:
                        continue
                    cells = [f for f in self.cols[o] if f is not None]
                    if not cells:
                        out.add(None)
                        continue
                    mx = min(abs(f - X) for f in cells)
                    out |= {(f, o) for f in cells if abs(f - X) == mx}
        self._des[key] = out
        return out

    def coq_pick(self):
        def cq(f):
            return "(mkq (%d) %d)" % (f.numerator, f.denominator)

        if self.variant == "FDD":
            return "(pick_fdd [%s])" % "; ".join(cq(f) for f in self.freq)
        return "(pick_ssi [%s])" % "; ".join("[%s]" % "; ".join("None" if f is None else "Some %s" % cq(f) for f in col) for col in self.cols)

    def coq_table(self):
        def cq(f):
            return "(mkq (%d) %d)" % (f.numerator, f.denominator)

        return "[%s]" % "; ".join("[%s]" % "; ".join("None" if f is None else "Some %s" % cq(f) for f in col) for col in self.cols)


def oracle_step(T, st, a, st2):
    """None if st -a-> st2 is what the property text permits, else (key suffix, message)."""
    sh, sel = st
    sh2, sel2 = st2
    c1, c2 = Counter(sel), Counter(sel2)
    k = a[0]
    want = True if k == "kd" else False if k == "ku" else sh
    if sh2 != want:
        return ("modifier", "modifier state after %s is %s, the keys say %s" % (a, sh2, want))
    if k == "co" and sh and a[1] == 3 and c1 != c2:
        # deselect-one does not refer to the click position: outside the axes it may still remove exactly one pair
        if sum((c1 - c2).values()) != 1 or (c2 - c1) or len(sel2) != len(sel) - 1:
            return ("deselect-one", "a deselecting click did not remove exactly one selected pair: %s -> %s" % (fmt_sel(sel), fmt_sel(sel2)))
        return None
    if k == "close" and c1 != c2:
        return ("close", "closing the dialog changed the selection that is handed on: %s selected when the window was closed, %s handed on"
                % (fmt_sel(sel), fmt_sel(sel2)))
    if not (k == "c" and sh and a[1] in (1, 2, 3)):
        if c1 != c2:
            return ("noop-changed", "an action that selects/deselects nothing (key, click without the modifier, other button, click "
                    "outside the axes) changed the selection")
        return None
    b, x = a[1], Fraction(float(a[2]))
    if b == 1:
        des = T.designated(a[2], a[3])
        for d in des:
            if (c1 if d is None else c1 + Counter([d])) == c2:
                return None
        for d in des:
            if d is not None and len(sel2) == len(sel) + 1:
                if sorted(f for f, _ in sel2) == sorted([f for f, _ in sel] + [d[0]]) and sorted(o for _, o in sel2) == sorted([o for _, o in sel] + [d[1]]):
                    return ("pairing", "after a pick the frequencies and the orders are the right lists but are no longer paired as picked: "
                            "expected %s, got %s" % (fmt_sel(sorted((c1 + Counter([d])).elements())), fmt_sel(sel2)))
        return ("pick", "after a pick the selection is not the previous selection plus the designated pair %s: got %s from %s"
                % ([None if d is None else fmt_sel([d]) for d in des], fmt_sel(sel2), fmt_sel(sel)))
    if not sel:
        if sel2:
            return ("deselect-empty", "deselecting on an empty selection produced entries")
        return None
    removed = c1 - c2
    if sum(removed.values()) != 1 or (c2 - c1) or len(sel2) != len(sel) - 1:
        return ("deselect-one", "a deselecting click did not remove exactly one selected pair: %s -> %s" % (fmt_sel(sel), fmt_sel(sel2)))
    if b == 2:
        e = next(iter(removed.elements()))
        if abs(e[0] - x) != min(abs(f - x) for f, _ in sel):
            return ("deselect-nearest", "deselect-nearest at x=%s removed %s which is not closest in frequency among %s" % (float(x), fmt_sel([e]), fmt_sel(sel)))
    return None


def fmt_sel(sel):
    return "[" + ", ".join("%g@%d" % (float(f), o) for f, o in sel) + "]"


# =====================================================================================================================
# recording, Coq evaluation of the checker
# =====================================================================================================================
def coq_q(x):
    f = Fraction(float(x)) if not isinstance(x, Fraction) else x
    return "(mkq (%d) %d)" % (f.numerator, f.denominator)


def coq_state(st):
    return "(mkst %s [%s])" % ("true" if st[0] else "false", "; ".join("en (%d) %d %d" % (f.numerator, f.denominator, o) for f, o in st[1]))


def coq_action(a):
    k = a[0]
    if k == "kd":
        return "KeyDown"
    if k == "ku":
        return "KeyUp"
    if k in ("ko", "m", "close"):  # other key, menu entry, closing the window: no selecting action
        return "KeyOther"
    if k == "c":
        return "(Click %s %s %s)" % (BTN.get(a[1], "BOther"), coq_q(a[2]), coq_q(a[3]))
    return "(ClickOut %s)" % BTN.get(a[1], "BOther")


class Store:
    """Distinct transitions recorded on one table (the checker is a function of the transition, so each is evaluated once)."""

    def __init__(self, ctx, variant, tab, tag, shape=None, freqlim=None, ordlim=None):
        """freqlim / ordlim: DISPLAY options of the dialog (plotted frequency band; run_params.ordmin/ordmax = plotted order
        range).  The property does not mention them: the pick is the pole / line nearest to the click whatever is displayed."""
        self.ctx, self.variant, self.tag = ctx, variant, tag
        self.freqlim = None if freqlim is None else [float(freqlim[0]), float(freqlim[1])]
        self.ordlim = None if ordlim is None else [int(ordlim[0]), int(ordlim[1])]
        self.T = Tab(variant, tab, shape)
        self.trans = {}  # (st, a, st2) -> script that first produced it
        self.bad = set()

    def case(self, script, **kw):
        d = dict(variant=self.variant, table=jsonable(self.T.raw), shape=self.T.shape, actions=[list(a) for a in script], gen=self.tag, **kw)
        if self.freqlim is not None:
            d["freqlim"] = self.freqlim
        if self.ordlim is not None:
            d["ordlim"] = self.ordlim
        return d

    def add_trace(self, script, rec, result):
        """Oracle on every step + registration for the Coq checker.  Returns the final state, or None if malformed."""
        ctx = self.ctx
        script = tuple(tuple(a) for a in script)
        closed = len(rec) == len(script) + 2
        if closed:  # the session was ended through the dialog's close handler (last snapshot = what is handed on)
            script = script + (CLOSE,)
        try:
            states = [to_state(s) for s in rec]
        except BadState as e:
            k = next(i for i, s in enumerate(rec) if _is_bad(s))
            ctx.fail("oracle", "SelFromPlot (%s): %s after %s" % (self.variant, e, script[:k]), self.case(script[:k]), key="C16:%s:lists" % self.variant)
            return None
        for i, a in enumerate(script):
            a = tuple(a)
            key = (states[i], a, states[i + 1])
            if key in self.trans:
                continue
            self.trans[key] = script[: i + 1]
            bad = oracle_step(self.T, states[i], a, states[i + 1])
            if bad:
                self.bad.add(key)
                ctx.fail("oracle", "SelFromPlot (%s): %s" % (self.variant, bad[1]), self.case(script[: i + 1]), key="C16:%s:%s" % (self.variant, bad[0]))
        fin = states[-2] if closed else states[-1]  # the selection the user left when closing the window
        # the dialog's result attribute (read after the close handler has run) = the two lists (FDD: the frequencies)
        ok = isinstance(result, tuple) and len(result) == 2
        if ok:
            try:
                fr = [Fraction(float(f)) for f in result[0]]
                ok = fr == [f for f, _ in fin[1]]
                if ok and self.variant != "FDD":
                    ok = [int(o) for o in result[1]] == [o for _, o in fin[1]]
            except Exception:
                ok = False
        if not ok:
            ctx.fail("oracle", "SelFromPlot (%s).result (read after the window was closed) is not the selection left by the last event" % self.variant, self.case(script), key="C16:%s:result" % self.variant)
        return fin

    def exprs(self, chunk=200):
        keys = list(self.trans)
        out = []
        pick = self.T.coq_pick()
        for i in range(0, len(keys), chunk):
            part = keys[i : i + chunk]
            body = "; ".join("(%s, %s, %s)" % (coq_state(s), coq_action(a), coq_state(s2)) for (s, a, s2) in part)
            out.append(("check_trace %s [%s]" % (pick, body), (self, part)))
        return out


def _is_bad(s):
    try:
        to_state(s)
        return False
    except BadState:
        return True


def _shard(n):
    """about 14 coqc processes in all (start-up dominates the evaluation itself)"""
    return max(8, -(-n // 14))


def evaluate(ctx, stores):
    """Run the Coq checker over every distinct recorded transition."""
    exprs, meta = [], []
    for st in stores:
        for e, m in st.exprs():
            exprs.append(e)
            meta.append(m)
    res = ctx.coq_eval(HEADER, exprs, shard=_shard(len(exprs)))
    nsame = ntot = 0
    for (store, part), s in zip(meta, res):
        toks = s.split(" ") if s else []
        if len(toks) != len(part):
            ctx.fail("correspondence", "checker output has %d verdicts for %d transitions" % (len(toks), len(part)), store.case([]), key="C16:coq-output")
            continue
        for key, t in zip(part, toks):
            ntot += 1
            nsame += t[1] == "T"
            if t[0] != "T":
                st, a, st2 = key
                ctx.fail("correspondence", "SelFromPlot (%s): transition %s -%s-> %s is not an allowed step of the specification M_pick.allowed"
                         % (store.variant, fmt_sel(st[1]), list(a), fmt_sel(st2[1])), store.case(store.trans[key]), key="C16:%s:not-allowed" % store.variant)
    ctx.extra["distinct_transitions_checked_in_coq"] = ctx.extra.get("distinct_transitions_checked_in_coq", 0) + ntot
    ctx.extra["transitions_equal_to_impl_step"] = ctx.extra.get("transitions_equal_to_impl_step", 0) + nsame
    if nsame != ntot:
        ctx.note("%d of %d transitions resolve the freedom of the specification differently from M_pick.impl_step (allowed; not a failure)" % (ntot - nsame, ntot))


# =====================================================================================================================
# generators
# =====================================================================================================================
ENUM_SSI = [[3.0, 10.0, NAN], [NAN, 4.0, 5.0], [12.0, NAN, 11.0], [7.0, 1.5, 8.25]]  # 4 poles x 3 orders, distinct, with NaNs
ENUM_TIES = [[4.0, 10.0, 4.0], [NAN, 5.0, 9.5], [9.5, NAN, NAN], [7.0, 1.5, 12.0]]  # 4.0 and 9.5 Hz at orders 0 AND 2
ENUM_FDD = [0.0, 0.75, 1.5, 2.25, 3.0, 3.75, 4.5]


def alphabet(variant, small):
    if variant == "FDD":
        xs, ys = ((0.875, 2.5, 4.0), (0.25, 1.25, 1.75)) if not small else ((0.875, 4.0), (0.25, 1.75))
    else:
        xs, ys = ((4.5, 9.75, 11.5), (0.25, 1.25, 1.75)) if not small else ((4.5, 9.75), (0.25, 1.75))
    return [("kd",), ("ku",)] + [("c", b, x, y) for b in (1, 3, 2) for x in xs for y in ys]


def _picks(*cells):
    return (("kd",),) + tuple(("c", 1, float(f), float(o)) for f, o in cells)


# pre-populated selections (modifier held): orders repeat NON-adjacently in frequency order ([0,1,0], [2,0,2], [1,0,1,0]), clicked
# out of frequency order, so that removing "the entry with that order" instead of "entry i" is observable
POPULATED = {
    "SSI": [_picks((7.0, 0), (3.0, 0), (4.0, 1)), _picks((8.25, 2), (7.0, 0), (5.0, 2)), _picks((4.0, 1), (7.0, 0), (1.5, 1), (3.0, 0))],
    # FDD: (frequency, y); the same line picked twice, lines picked in descending frequency
    "FDD": [_picks((3.0, 0), (0.75, 0), (3.0, 0)), _picks((4.5, 0), (2.25, 0), (0.75, 0), (2.25, 0))],
}
POPULATED["pLSCF"] = POPULATED["SSI"]


def quick_repeats(script):
    """A press identical to the press just before it (same button, same place) delivered as the second of two QUICK presses:
    Matplotlib reports it with dblclick=True.  The property makes no difference: every press with the modifier held acts."""
    out = []
    for a in script:
        a = tuple(a)
        if a[0] in ("c", "co") and out and out[-1][0] == a[0] and a[-1] != "dbl" and tuple(x for x in out[-1] if x != "dbl") == a:
            a = a + ("dbl",)
        out.append(a)
    return tuple(out)


def add_quick_press(rng, script, p=0.5):
    """With probability p: one click of the history is followed by a quick second press at the same place (dblclick=True)."""
    script = tuple(tuple(a) for a in script)
    idx = [i for i, a in enumerate(script) if a[0] == "c" and a[-1] != "dbl"]
    if not idx or rng.random() >= p:
        return script
    deselects = [i for i in idx if script[i][1] in (2, 3)]
    i = rng.choice(deselects) if deselects and rng.random() < 0.6 else rng.choice(idx)
    return script[: i + 1] + (script[i] + ("dbl",),) + script[i + 1 :]


def enumerate_sequences(ctx, variant, tab, letters, maxlen, tag, maxlen_populated=None, freqlim=None, ordlim=None):
    """ALL sequences over `letters` of length <= maxlen, from the fresh dialog and with the modifier already held; and all
    sequences of length <= maxlen_populated from each pre-populated selection of POPULATED."""
    store = Store(ctx, variant, tab, tag, freqlim=freqlim, ordlim=ordlim)
    algo = fake_algo("FDD" if variant == "FDD" else "SSI", tab, ordlim=ordlim)
    n = 0
    mp = maxlen - 1 if maxlen_populated is None else maxlen_populated
    for prefix, ml in [((), maxlen), ((("kd",),), maxlen)] + [(pf, mp) for pf in POPULATED[variant]]:
        for L in range(ml + 1):
            for seq in itertools.product(letters, repeat=L):
                script = prefix + seq
                if n % 3 != 0:  # in two thirds of the sequences an immediately repeated press is a quick one (dblclick=True)
                    script = quick_repeats(script)
                rec, exc, result = drive(algo, variant, script, enum=(n % 2 == 1), freqlim=freqlim)
                fin = store.add_trace(script, rec, result)
                n += 1
                ctx.count((variant, tag, script), nontrivial=any(len(s[1]) > 0 for s in rec))
                if fin is None and len(ctx.failures) > 40:
                    return store
    ctx.hist("enumerated sequences", "%s %s%s len<=%d x %d letters x {fresh, modifier held} + len<=%d x %d pre-populated selections: %d"
             % (variant, tag, "" if freqlim is None and ordlim is None else " freqlim=%s ordlim=%s" % (freqlim, ordlim), maxlen, len(letters), mp,
                len(POPULATED[variant]), n))
    return store


def structured_base(rng, variant):
    """A table (or FDD grid) and k = 3..6 picks whose orders REPEAT NON-ADJACENTLY in frequency order (e.g. orders [2,4,2]);
    in about a third of the bases the same frequency value also occurs at two different orders.  Returns (table, picks)
    with picks = [(frequency, order)] sorted by frequency."""
    k = rng.randint(3, 6)
    if variant == "FDD":
        n = rng.randint(5, 12)
        grid = sorted(rng.sample(range(1, 160), n))
        if rng.random() < 0.2:
            rng.shuffle(grid)  # malformed: grid not ascending, line index not monotone in frequency
        grid = [g / 8.0 for g in grid]
        lines = sorted(rng.choice(range(n)) for _ in range(k))  # with repetitions: the same line picked twice
        return grid, sorted((grid[i], i) for i in lines)
    ncol = rng.randint(2, 5)
    while True:
        pat = [rng.randrange(ncol) for _ in range(k)]
        if all(pat[i] != pat[i + 1] for i in range(k - 1)) and len(set(pat)) < k:
            break
    vals = sorted(rng.sample(range(8, 320), k))
    if rng.random() < 0.35:
        j = rng.randrange(k - 1)
        vals[j + 1] = vals[j]  # the same frequency at two different orders (adjacent orders of the pattern differ)
    freqs = [v / 8.0 for v in vals]
    per_col = [[f for f, o in zip(freqs, pat) if o == c] for c in range(ncol)]
    nrow = max(len(c) for c in per_col) + rng.randint(1, 2)
    if nrow == ncol:
        nrow += 1
    fill = iter(rng.sample([v for v in range(330, 600)], nrow * ncol))
    A = np.full((nrow, ncol), NAN)
    for c in range(ncol):
        rows = rng.sample(range(nrow), len(per_col[c]))
        for r, f in zip(rows, per_col[c]):
            A[r, c] = f
        for r in range(nrow):
            if np.isnan(A[r, c]) and rng.random() < 0.6:
                A[r, c] = next(fill) / 8.0
    return A, list(zip(freqs, pat))


def structured_histories(rng, variant, picks, table):
    """modifier held, the picks in a random click order, then EVERY single deselect-nearest (one per selected entry, x at
    or near it) and deselect-one, each followed by more picks / deselections."""
    yoff = lambda: rng.choice([0.0, 0.25, -0.25, 0.375])
    def pick(f, o):
        return ("c", 1, float(f), float(o) + yoff() if variant != "FDD" else float(rng.randint(-30, 3)))
    order = list(picks)
    rng.shuffle(order)
    base = (("kd",),) + tuple(pick(f, o) for f, o in order)
    out = []
    for j, (f, o) in enumerate(picks):
        eps = rng.choice([0.0, 0.0, 1.0 / 32, -1.0 / 32])
        h = base + (("c", 2, float(f) + eps, float(rng.randint(-2, 6))),)
        r = rng.random()
        if r < 0.35:  # pick it again, then deselect-nearest another entry
            g = rng.choice(picks)
            h += (pick(f, o), ("c", 2, float(g[0]), 0.0))
        elif r < 0.6:
            g = rng.choice(picks)
            h += (("c", 2, float(g[0]) + rng.choice([0.0, 0.0625]), 1.0), ("c", 3, 0.0, 0.0))
        elif r < 0.75:
            h += (("ku",), ("c", 2, float(picks[0][0]), 0.0), ("kd",), ("c", 2, float(picks[-1][0]), 0.0))
        out.append(h)
    out.append(base + (("c", 3, float(picks[0][0]), 0.0), ("c", 2, float(picks[len(picks) // 2][0]), 0.0), pick(*picks[0])))
    out.append(base + (("co", 3), ("c", 2, float(picks[-1][0]) + 100.0, 0.0), ("c", 2, -50.0, 0.0)))
    return out


def _between(rng, a, b):
    """a dyadic point strictly between a < b (1/4, 1/2 or 3/4 of the gap)"""
    return a + (b - a) * rng.choice([0.25, 0.5, 0.75])


def edge_base(rng, variant):
    """A table / grid and DISPLAY limits whose edges fall strictly BETWEEN grid lines (pole frequencies / orders), with the
    click abscissae just inside, exactly at and just outside each edge, and far outside.  Returns (table, freqlim, ordlim, xs, ys)."""
    if variant == "FDD":
        n = rng.randint(6, 12)
        grid = [g / 4.0 for g in sorted(rng.sample(range(0, 120), n))]
        vals, table, ordlim, ys = grid, grid, None, [0.0, -12.5, 3.0]
    else:
        nrow, ncol = rng.randint(3, 5), rng.randint(3, 6)
        if nrow == ncol:
            nrow += 1
        A = np.array(rng.sample(range(2, 240), nrow * ncol), dtype=float).reshape(nrow, ncol) / 4.0
        for r in range(nrow):
            for c in range(ncol):
                if rng.random() < 0.2:
                    A[r, c] = NAN
        for c in range(ncol):
            if np.all(np.isnan(A[:, c])):
                A[0, c] = 61.0 + c
        vals, table = sorted(set(float(v) for v in A.flatten() if not np.isnan(v))), A
        omin = rng.randint(1, max(1, ncol - 2))
        omax = rng.randint(omin, ncol - 2) if ncol - 2 >= omin else omin
        ordlim = (omin, omax)  # orders 0..omin-1 and omax+1..ncol-1 lie outside the plotted order range
        ys = sorted(set([omin - 1.0, omin - 0.75, omin - 0.25, float(omin), omax + 0.25, omax + 0.75, omax + 1.0, float(ncol - 1), 0.0, -1.5, ncol + 1.5]))
    i = rng.randrange(0, len(vals) // 2)
    j = rng.randrange(len(vals) // 2, len(vals) - 1)
    lo, hi = _between(rng, vals[i], vals[i + 1]), _between(rng, vals[j], vals[j + 1])
    xs = []
    for e, (a, b) in ((lo, (vals[i], vals[i + 1])), (hi, (vals[j], vals[j + 1]))):
        d = (b - a) / 16.0
        xs += [e - d, e, e + d, a + d, b - d, a, b]  # around the edge; next to / on the grid lines on either side of it
    xs += [vals[0] - 3.0, vals[-1] + 3.0, vals[0], vals[-1]]
    return table, (lo, hi), ordlim, xs, ys


def edge_histories(rng, variant, xs, ys):
    """modifier held; picks at every edge abscissa (several orders), deselect-nearest at edge abscissae, deselect-one."""
    out = []
    allx = list(xs)
    rng.shuffle(allx)
    for k in range(0, len(allx), 4):
        part = allx[k : k + 4]
        h = [("kd",)] + [("c", 1, float(x), float(rng.choice(ys))) for x in part]
        h.append(("c", 2, float(rng.choice(xs)), float(rng.choice(ys))))
        if rng.random() < 0.5:
            h.append(("c", 1, float(rng.choice(xs)), float(rng.choice(ys))))
            h.append(("c", 3, 0.0, 0.0) if rng.random() < 0.5 else ("c", 2, float(rng.choice(part)), 0.0))
        out.append(tuple(h))
    if variant != "FDD":  # one history sweeping the order axis at a fixed abscissa
        x = rng.choice(xs)
        out.append((("kd",),) + tuple(("c", 1, float(x), float(y)) for y in rng.sample(ys, min(5, len(ys)))))
    return out


def stable_base(rng):
    """A stabilisation table of perfectly stable poles: row r holds the SAME frequency value at every order where it is retained
    (exact ties across orders); sometimes two rows share a frequency (exact tie within one order, e.g. different damping).
    Returns (table, histories): each history selects at least two poles of equal frequency at different orders."""
    nrow, ncol = rng.randint(3, 5), rng.randint(3, 6)
    if nrow == ncol:
        ncol += 1
    fr = [v / 8.0 for v in sorted(rng.sample(range(8, 200), nrow))]
    if rng.random() < 0.3:
        fr[1] = fr[0]  # two rows with the same frequency
    A = np.array([[fr[r] if rng.random() < 0.75 else NAN for _ in range(ncol)] for r in range(nrow)])
    r0 = rng.randrange(nrow)
    c0, c1 = rng.sample(range(ncol), 2)
    A[r0, c0] = A[r0, c1] = fr[r0]
    cells = [(r, c) for r in range(nrow) for c in range(ncol) if not np.isnan(A[r, c])]
    hs = []
    for _ in range(3):
        extra = rng.sample(cells, min(len(cells), rng.randint(1, 4)))
        picks = [(r0, c0), (r0, c1)] + extra
        rng.shuffle(picks)
        h = [("kd",)] + [("c", 1, float(A[r, c]) + rng.choice([0.0, 0.0, 0.0625, -0.0625]), c + rng.choice([0.0, 0.25, -0.25])) for r, c in picks]
        q = rng.random()
        if q < 0.3:
            h.append(("c", 2, float(rng.choice(fr)), 0.0))
        elif q < 0.45:
            h += [("c", 3, 0.0, 0.0), ("c", 1, float(fr[r0]), float(c0))]
        elif q < 0.55:
            h.append(("ku",))
        hs.append(tuple(h))
    return A, hs


def dy(rng, lo, hi, den=8):
    return rng.randint(int(lo * den), int(hi * den)) / float(den)


def random_table(rng, malformed):
    nrow, ncol = rng.randint(2, 6), rng.randint(1, 6)
    if nrow == ncol:
        nrow += 1
    vals = rng.sample(range(2, 400), nrow * ncol)
    A = np.array(vals, dtype=float).reshape(nrow, ncol) / 8.0
    mask = np.array([[rng.random() < 0.3 for _ in range(ncol)] for _ in range(nrow)])
    A[mask] = NAN
    kind = "valid"
    if malformed:
        kind = rng.choice(["nan-column", "no-orders", "no-rows", "repeat-across-orders", "repeat-in-order", "all-nan"])
        if kind == "nan-column":
            A[:, rng.randrange(ncol)] = NAN
        elif kind == "no-orders":
            A = np.zeros((nrow, 0))
        elif kind == "no-rows":
            A = np.zeros((0, ncol))
        elif kind == "repeat-across-orders":  # a stable pole: the same frequency at several orders
            r = rng.randrange(nrow)
            A[r, :] = A[r, 0] if not np.isnan(A[r, 0]) else 6.5
        elif kind == "repeat-in-order":
            o = rng.randrange(ncol)
            A[0, o] = 9.25
            A[nrow - 1, o] = 9.25
        elif kind == "all-nan":
            A[:, :] = NAN
    return A, kind


def random_action(rng, variant, A, sel_hint):
    r = rng.random()
    if r < 0.10:
        return ("kd",)
    if r < 0.17:
        return ("ku",)
    if r < 0.21:
        return ("ko", rng.choice(["control", "a", "alt", "shift+a", "escape"]), rng.choice(["press", "release"]))
    if r < 0.25:
        return ("co", rng.choice([1, 2, 3, 8]))
    if r < 0.28 and variant != "FDD":  # a menu entry of the stabilisation-chart dialog
        return ("m", rng.choice(["Show unstable poles", "Hide unstable poles", "Help"]))
    b = rng.choice([1] * 11 + [3] * 3 + [2] * 5 + [8, 9])
    if variant == "FDD":
        pool = [float(v) for v in A]
        ncol = 3
    else:
        pool = [float(v) for v in A.flatten() if not np.isnan(v)]
        ncol = A.shape[1]
    if b == 2 and sel_hint and rng.random() < 0.7:
        pool = sel_hint
    if pool and rng.random() < 0.7:
        x = rng.choice(pool) + rng.choice([0, 0, 0.125, -0.125, 0.5, -0.5, 3.0, -3.0, 0.0625])
    else:
        x = dy(rng, -2, 55)
    if rng.random() < 0.75:
        y = rng.randrange(max(ncol, 1)) + rng.choice([0, 0, 0.25, -0.25, 0.375, -0.375, 0.4375, 0.5, -0.5] if rng.random() < 0.3 else [0, 0.25, -0.25, 0.375, -0.375])
    else:
        y = dy(rng, -3, ncol + 3)
    return ("c", b, float(x), float(y))


def random_script(rng, variant, A):
    L = rng.randint(1, 6)
    script = []
    if rng.random() < 0.8:
        script.append(("kd",))
    while len(script) < L:
        if script and script[-1][0] == "c" and rng.random() < 0.2:
            script.append(tuple(x for x in script[-1] if x != "dbl") + ("dbl",))  # a quick second press at the same place
        else:
            script.append(random_action(rng, variant, A, None))
    return tuple(script)


# =====================================================================================================================
# hand-over through the real algorithm classes
# =====================================================================================================================
def simulate(nrng, N=1500, fs=20.0, fns=(1.5, 4.2, 6.8), xi=0.02, nch=3):
    from scipy import signal

    out = np.zeros((N, nch))
    shapes = nrng.standard_normal((len(fns), nch))
    for k, fn in enumerate(fns):
        wn = 2 * np.pi * fn
        b, a = signal.bilinear([1.0], [1.0, 2 * xi * wn, wn * wn], fs)
        q = signal.lfilter(b, a, nrng.standard_normal(N))
        out += np.outer(q / q.std(), shapes[k])
    return out + 0.05 * nrng.standard_normal((N, nch))


def inject(alg, A):
    """Replace the pole tables of a run algorithm object by synthetic ones (damping and shapes encode (row, order))."""
    nrow, ncol = A.shape
    R, C = np.meshgrid(np.arange(nrow), np.arange(ncol), indexing="ij")
    alg.result.Fn_poles = A.copy()
    alg.result.Xi_poles = np.where(np.isnan(A), NAN, (R * 64 + C + 0.5) / 4096.0)
    alg.result.Phi_poles = np.stack([R + 1.0, C + 1.0, R * 16.0 + C], axis=2) * np.where(np.isnan(A), NAN, 1.0)[:, :, None]
    alg.result.Lab = np.where(np.isnan(A), 0, 1)
    for nm in ("Fn_poles_cov", "Xi_poles_cov", "Phi_poles_cov"):
        if hasattr(alg.result, nm):
            setattr(alg.result, nm, None)
    alg.run_params.ordmax = max(ncol - 1, 0)
    alg.run_params.ordmin = 0


def handover(ctx, store, setup, name, variant, script, rtol, hmeta, enum=False):
    """setup.mpe_from_plot(name) with the scripted dialog; checks algorithm.result against the selection (oracle) and
    registers the model evaluation of the extraction (correspondence)."""
    alg = setup[name]
    _SESSION.update(script=script, rec=None, exc=None, obj=None, enum=enum)
    kw = {} if rtol is None else dict(rtol=rtol)
    if store.freqlim is not None:
        kw["freqlim"] = tuple(store.freqlim)
    if store.ordlim is not None:
        alg.run_params.ordmin, alg.run_params.ordmax = store.ordlim
    try:
        setup.mpe_from_plot(name, **kw)
    except Exception as e:
        rec = _SESSION["rec"]
        nf = len(ctx.failures)
        fin = store.add_trace(script, rec, getattr(_SESSION["obj"], "result", "missing")) if rec else None
        if fin is not None and len(ctx.failures) == nf:
            ctx.fail("oracle", "%s.mpe_from_plot raised %s on a valid selection %s" % (type(alg).__name__, type(e).__name__, fmt_sel(fin[1])),
                     store.case(script, rtol=rtol), key="C16:%s:handover-raises" % variant)
        return
    rec, obj = _SESSION["rec"], _SESSION["obj"]
    fin = store.add_trace(script, rec, getattr(obj, "result", "missing"))
    if fin is None:
        return
    sel = fin[1]
    res = alg.result
    A = np.asarray(res.Fn_poles)
    case = store.case(script, rtol=rtol, cls=type(alg).__name__)
    try:
        Fn = [Fraction(float(f)) for f in np.asarray(res.Fn).reshape(-1)]
        oo = [int(o) for o in np.asarray(res.order_out).reshape(-1)]
    except Exception:
        ctx.fail("oracle", "%s: result.Fn / result.order_out are not a frequency list and an order list after mpe_from_plot" % type(alg).__name__, case,
                 key="C16:%s:handover" % variant)
        return
    if len(Fn) != len(oo) or Counter(zip(Fn, oo)) != Counter(sel):
        ctx.fail("oracle", "%s: after mpe_from_plot (Fn, order_out) = %s is not the selection %s left in the dialog"
                 % (type(alg).__name__, list(zip([float(f) for f in Fn], oo)), fmt_sel(sel)), case, key="C16:%s:handover" % variant)
        return
    # the extracted modes are those poles: damping and shape come from a cell of that order holding that frequency
    Xi = np.asarray(res.Xi).reshape(-1)
    Phi = np.asarray(res.Phi)
    for k, (f, o) in enumerate(zip(Fn, oo)):
        rows = [r for r in range(A.shape[0]) if not np.isnan(A[r, o]) and Fraction(float(A[r, o])) == f]
        good = any(_same(Xi[k], res.Xi_poles[r, o]) and _same(Phi[:, k], res.Phi_poles[r, o, :]) for r in rows)
        if not good:
            ctx.fail("oracle", "%s: damping / mode shape extracted for %g@%d do not belong to a pole with that frequency at that order" % (type(alg).__name__, float(f), o),
                     case, key="C16:%s:handover-mode" % variant)
            break
    # correspondence of the extraction with M_pick.mpe_of_result on what the dialog returned
    r0 = obj.result
    hmeta.append((store, script, rtol if rtol is not None else (1e-2 if variant == "SSI" else 5e-2),
                  [Fraction(float(f)) for f in r0[0]], [int(o) for o in r0[1]], [float(f) for f in np.asarray(res.Fn).reshape(-1)], oo))


def _same(a, b):
    a, b = np.asarray(a), np.asarray(b)
    return a.shape == b.shape and bool(np.all((a == b) | (np.isnan(a) & np.isnan(b))))


def evaluate_handover(ctx, hmeta):
    """One Coq expression per table: the model of the extraction on every (rtol, dialog result) recorded on it."""
    groups = {}
    for h in hmeta:
        groups.setdefault(id(h[0]), []).append(h)
    exprs, metas = [], []
    for hs in groups.values():
        store = hs[0][0]
        items = "; ".join("(%s, ([%s], [%s]))" % (coq_q(rtol), "; ".join(coq_q(f) for f in fr), "; ".join("%d%%nat" % o for o in od))
                          for _, _, rtol, fr, od, _, _ in hs)
        exprs.append("join \";\" (map (fun t => showM (mpe_of_result %s (fst t) (snd t))) [%s])" % (store.T.coq_table(), items))
        metas.append(hs)
    res = ctx.coq_eval(HEADER, exprs, shard=_shard(len(exprs)))
    for hs, line in zip(metas, res):
        outs = line.split(";")
        if len(outs) != len(hs):
            ctx.fail("correspondence", "model extraction printed %d results for %d hand-overs" % (len(outs), len(hs)), hs[0][0].case([]), key="C16:coq-output")
            continue
        for (store, script, rtol, fr, od, Fn, oo), s in zip(hs, outs):
            case = store.case(script, rtol=rtol)
            if s == "raises":
                ctx.fail("correspondence", "model extraction raises where the implementation returned", case, key="C16:%s:handover-corr" % store.variant)
                continue
            a, b = s.split("|")
            mF = [float(Fraction(*map(int, t.split(",")[1].split("/")))) for t in a.split(" ")] if a else []
            mO = [int(t) for t in b.split(" ")] if b else []
            if mF != Fn or mO != oo:
                ctx.fail("correspondence", "extraction differs from M_pick.mpe_of_result: model (%s, %s), implementation (%s, %s)" % (mF, mO, Fn, oo), case,
                         key="C16:%s:handover-corr" % store.variant)
    ctx.extra["handovers_checked_in_coq"] = len(hmeta)


def near_tie(T, script, rel=1e-9):
    """A picking / deselect-nearest click of the script whose nearest and second-nearest candidates are within relative
    1e-9 (float evaluation of |f - x| could order them differently from exact arithmetic): not judged."""
    allc = [f for col in T.cols for f in col if f is not None]
    for a in script:
        if a[0] != "c" or a[1] not in (1, 2):
            continue
        x = float(a[2])
        for cells in (T.cols if a[1] == 1 else [allc]):
            d = sorted(set(abs(float(f) - x) for f in cells if f is not None))
            if len(d) > 1 and d[1] - d[0] <= rel * max(d[1], 1e-300):
                return True
    return False


# =====================================================================================================================
def run(ctx):
    try:
        _run(ctx)
    finally:
        restore()


def load_corpus(ctx):
    files = sorted(glob.glob(os.path.join(VERIF, "corpus", "C16", "*.json")))
    cases = []
    for fn in files:
        cases.append((os.path.basename(fn), json.load(open(fn))))
    if ctx.replay:
        rp = json.load(open(ctx.replay))
        c = rp.get("case") or (rp.get("no_longer_checks") or [{}])[0].get("case")
        if c:
            cases.insert(0, ("replay", c))
    return cases


def _tab_from_json(c):
    def cv(v):
        return NAN if v in ("nan", None) else float(v)

    t = c["table"]
    if c["variant"] == "FDD":
        return [cv(v) for v in t]
    return [[cv(v) for v in row] for row in t]


def _run(ctx):
    from pyoma2.algorithms import EFDD, FDD, SSIcov, SSIdat, pLSCF
    from pyoma2.functions import fdd as fdd_funcs
    from pyoma2.setup import SingleSetup

    rng, nrng = ctx.rng, ctx.np_rng
    ctx.extra["rule"] = ("a case = (dialog variant, pole table or frequency grid, event sequence); exhaustive enumeration of all sequences up to a length over a "
                         "fixed alphabet (fresh dialog and modifier already held) + random sequences of length <= 6 on random tables + scripted mpe_from_plot runs; "
                         "non-trivial when the selection is non-empty at some point of the sequence; distinct by hash of (variant, table, sequence)")
    ctx.assumptions += [
        "GUI construction is replaced from the harness process: SelFromPlot._initialize_gui -> stub whose root.mainloop() plays scripted events on the REAL handlers "
        "(on_key_press/on_key_release/on_click_SSI/on_click_FDD); redrawing (plot_stab/plot_svPSD) is stubbed except in the runs marked draw=True (Agg canvas)",
        "events are stand-ins for Matplotlib KeyEvent/MouseEvent carrying key, button (int or MouseButton), np.float64 xdata/ydata (None outside the axes)",
        "the checker M_pick.allowed is evaluated in Coq on every distinct recorded transition; C16_checker_decides_spec ties it to the declarative relation",
        "hand-over: extraction functions SSI_mpe / pLSCF_mpe themselves are the subject of C11; here their call through mpe_from_plot is observed on algorithm.result",
    ]
    set_mode(False)
    stores, hmeta = [], []

    # ---- real algorithm objects (one short run each; their pole tables are then replaced by synthetic ones for most cases)
    data = simulate(nrng)
    ss = SingleSetup(data, fs=20.0)
    algs = dict(SSI=SSIcov(name="SSI", br=10, ordmax=14), pLSCF=pLSCF(name="pLSCF", ordmax=10, nxseg=256), SSId=SSIdat(name="SSId", br=10, ordmax=14),
                FDD=FDD(name="FDD", nxseg=256), EFDD=EFDD(name="EFDD", nxseg=256))
    ss.add_algorithms(*algs.values())
    for nm in algs:
        ss.run_by_name(nm)
    real_tables = {nm: np.array(algs[nm].result.Fn_poles, dtype=float) for nm in ("SSI", "pLSCF", "SSId")}
    real_aux = {nm: (algs[nm].result.Xi_poles, algs[nm].result.Phi_poles, algs[nm].result.Lab, algs[nm].run_params.ordmax) for nm in real_tables}

    # ---- 1. corpus / replay first
    for fname, c in load_corpus(ctx):
        variant = c["variant"]
        tab = _tab_from_json(c)
        script = tuple(tuple(a) for a in c["actions"] if a[0] != "close")  # every session is closed by the harness anyway
        st = Store(ctx, variant, tab, "corpus:" + fname, shape=c.get("shape"), freqlim=c.get("freqlim"), ordlim=c.get("ordlim"))
        stores.append(st)
        ctx.count(dict(corpus=fname, s=script))
        rec, exc, result = drive(fake_algo(variant, tab, c.get("shape"), c.get("ordlim")), variant, script, freqlim=c.get("freqlim"))
        st.add_trace(script, rec, result)
        if variant in ("SSI", "pLSCF"):
            inject(algs[variant], as_table(tab, c.get("shape")))
            handover(ctx, st, ss, variant, variant, script, c.get("rtol"), hmeta)

    # ---- 2. exhaustive enumerations
    if ctx.quick():
        plan = [("SSI", ENUM_SSI, alphabet("SSI", False), 3, "full"), ("pLSCF", ENUM_SSI, alphabet("pLSCF", True), 3, "small"),
                ("FDD", ENUM_FDD, alphabet("FDD", True), 3, "small")]
    else:
        plan = [("SSI", ENUM_SSI, alphabet("SSI", False), 3, "full"), ("SSI", ENUM_SSI, alphabet("SSI", True), 4, "small"),
                ("pLSCF", ENUM_SSI, alphabet("pLSCF", False), 3, "full"), ("pLSCF", ENUM_SSI, alphabet("pLSCF", True), 4, "small"),
                ("FDD", ENUM_FDD, alphabet("FDD", False), 3, "full"), ("FDD", ENUM_FDD, alphabet("FDD", True), 4, "small")]
    for variant, tab, letters, maxlen, tag in plan:
        mp = maxlen - 1 if (ctx.quick() or tag == "small") else maxlen
        stores.append(enumerate_sequences(ctx, variant, tab, letters, maxlen, tag, maxlen_populated=mp))
        ctx.sample(dict(variant=variant, table=jsonable(tab), alphabet=[list(a) for a in letters], maxlen=maxlen))
    # the same enumerations in dialogs constructed with explicit display limits whose edges fall between grid lines / poles
    # (0.75|1.5 and 3.0|3.75 for the FDD grid; 4|5 and 8.25|10 Hz, plotted orders 1..1 for the pole table): the alphabet's clicks
    # at 0.875, 4.0 (FDD) and 4.5, 9.75, 11.5 Hz, orders 0 and 2 (SSI/pLSCF) then designate lines / poles OUTSIDE the plotted band
    oplan = [("FDD", ENUM_FDD, alphabet("FDD", True), ctx.n(3, 4), "small", (1.0, 3.3125), None),
             ("SSI", ENUM_SSI, alphabet("SSI", True), ctx.n(2, 3), "small", (4.25, 9.0), (1, 1)),
             ("pLSCF", ENUM_SSI, alphabet("pLSCF", True), ctx.n(2, 3), "small", (4.25, 9.0), (1, 1))]
    # a table whose orders 0 and 2 hold the same frequency values (4.0 and 9.5): the alphabet's picks select both
    for variant in ("SSI", "pLSCF"):
        stores.append(enumerate_sequences(ctx, variant, ENUM_TIES, alphabet(variant, True), ctx.n(3, 4), "ties-across-orders", maxlen_populated=0))
    for variant, tab, letters, maxlen, tag, fl, ol in oplan:
        stores.append(enumerate_sequences(ctx, variant, tab, letters, maxlen, tag, maxlen_populated=maxlen - 1, freqlim=fl, ordlim=ol))

    # ---- 2a. display-limit stream: random tables / grids, dialogs constructed with explicit freqlim (and plotted order range) whose
    #          edges fall between grid lines; clicks just inside, exactly at and just outside each edge, and far outside
    nedge = 0
    for variant in ("FDD", "SSI", "pLSCF"):
        for t in range(ctx.n(20, 120)):
            table, fl, ol, xs, ys = edge_base(rng, variant)
            if variant == "FDD":
                st = Store(ctx, "FDD", table, "display-limits", freqlim=fl)
                algo = fake_algo("FDD", table)
            else:
                st = Store(ctx, variant, table, "display-limits", shape=table.shape, freqlim=fl, ordlim=ol)
                inject(algs[variant], table)
            stores.append(st)
            for i, script in enumerate(add_quick_press(rng, h, 0.4) for h in edge_histories(rng, variant, xs, ys)):
                if variant == "FDD":
                    rec, exc, result = drive(algo, "FDD", script, enum=bool(i % 2), freqlim=fl)
                    st.add_trace(script, rec, result)
                else:
                    handover(ctx, st, ss, variant, variant, script, rng.choice([None, 0.0]), hmeta, enum=bool(i % 2))
                    rec = _SESSION["rec"] or []
                ctx.count(dict(v=variant, limits=[fl, ol], table=jsonable(st.T.raw), s=script), nontrivial=any(len(x[1]) > 0 for x in rec))
                nedge += 1
    ctx.extra["display_limit_histories"] = nedge

    # ---- 2t. exact frequency ties: perfectly stable poles (the same frequency value at several orders), both selected, session
    #          closed through the dialog's own close handler, hand-over through the real classes
    for variant in ("SSI", "pLSCF"):
        for t in range(ctx.n(30, 150)):
            A, hs = stable_base(rng)
            st = Store(ctx, variant, A, "stable-poles", shape=A.shape)
            stores.append(st)
            inject(algs[variant], A)
            for i, script in enumerate(add_quick_press(rng, h, 0.5) for h in hs):
                handover(ctx, st, ss, variant, variant, script, rng.choice([None, 0.0, 1.0 / 64]), hmeta, enum=bool(i % 2))
                rec = _SESSION["rec"] or []
                ctx.count(dict(v=variant, stable=True, table=jsonable(st.T.raw), s=script), nontrivial=any(len(x[1]) > 0 for x in rec))
                ctx.hist("session closed via", _SESSION.get("closed_via"))
                ctx.hist("dialog built by", _SESSION.get("gui"))

    # ---- 2b. structured stream: selections of 3..6 entries whose orders repeat non-adjacently in frequency order (and equal
    #          frequencies at different orders), then every single deselect-nearest / deselect-one, then more picks
    nstruct = 0
    for variant in ("SSI", "pLSCF", "FDD"):
        for t in range(ctx.n(30, 150) if variant != "FDD" else ctx.n(20, 100)):
            table, picks = structured_base(rng, variant)
            if variant == "FDD":
                st = Store(ctx, "FDD", table, "structured")
                algo = fake_algo("FDD", table)
            else:
                st = Store(ctx, variant, table, "structured", shape=table.shape)
                inject(algs[variant], table)
            stores.append(st)
            ctx.hist("structured: orders in frequency order", " ".join(str(o) for _, o in picks) if variant != "FDD" else "FDD k=%d" % len(picks))
            for i, script in enumerate(add_quick_press(rng, h, 0.6) for h in structured_histories(rng, variant, picks, table)):
                if variant == "FDD":
                    rec, exc, result = drive(algo, "FDD", script, enum=bool(i % 2))
                    st.add_trace(script, rec, result)
                else:
                    handover(ctx, st, ss, variant, variant, script, rng.choice([None, 1.0 / 64, 0.0]), hmeta, enum=bool(i % 2))
                    rec = _SESSION["rec"] or []
                ctx.count(dict(v=variant, structured=True, table=jsonable(st.T.raw), s=script), nontrivial=any(len(x[1]) > 0 for x in rec))
                nstruct += 1
    ctx.extra["structured_histories"] = nstruct

    # ---- 3. random sequences on random tables, hand-over through the real classes (SSI, pLSCF); FDD on random grids
    ntab = ctx.n(60, 400)
    for variant in ("SSI", "pLSCF"):
        for t in range(ntab):
            malformed = rng.random() < 0.18
            A, kind = random_table(rng, malformed)
            fl = None
            if rng.random() < 0.35:  # an arbitrary plotted band (dyadic edges, anywhere relative to the poles)
                lo = dy(rng, -1, 40)
                fl = (lo, lo + dy(rng, 1, 30))
            st = Store(ctx, variant, A, "random:%s" % kind, shape=A.shape, freqlim=fl)
            stores.append(st)
            inject(algs[variant], A)
            ctx.hist("table shape (rows x orders)", "%dx%d" % A.shape)
            ctx.hist("table kind", kind)
            for s in range(ctx.n(6, 8)):
                script = random_script(rng, variant, A)
                rtol = rng.choice([None, None, 1.0 / 64, 0.0, 0.25])
                n0 = len(ctx.failures)
                handover(ctx, st, ss, variant, variant, script, rtol, hmeta, enum=bool(s % 2))
                rec = _SESSION["rec"] or []
                ctx.count(dict(v=variant, table=A.tolist(), s=script), nontrivial=any(len(x[1]) > 0 for x in rec))
                ctx.hist("sequence length", len(script))
                for a in script:
                    ctx.hist("action", a[0] if a[0] != "c" else "click-button-%s" % a[1])
                for e in _SESSION["exc"] or []:
                    if e:
                        ctx.hist("handler exception kinds (not compared)", e)
                if len(ctx.failures) > n0:
                    ctx.sample(dict(variant=variant, table=A.tolist(), script=[list(a) for a in script]))
                elif s == 0 and t < 2:
                    ctx.sample(dict(variant=variant, table=A.tolist(), script=[list(a) for a in script], final=fmt_sel(to_state(rec[-1])[1]) if rec else None))
    for t in range(ntab):
        n = rng.randint(0 if rng.random() < 0.1 else 1, 12)
        grid = sorted(rng.sample(range(0, 200), n))
        if grid and rng.random() < 0.15:
            grid.insert(rng.randrange(len(grid)), rng.choice(grid))  # a repeated / out-of-order line (malformed grid)
        grid = [g / 8.0 for g in grid]
        fl = None
        if rng.random() < 0.35:
            lo = dy(rng, -1, 15)
            fl = (lo, lo + dy(rng, 1, 15))
        st = Store(ctx, "FDD", grid, "random", freqlim=fl)
        stores.append(st)
        ctx.hist("FDD grid length", n)
        ctx.hist("explicit freqlim", fl is not None)
        algo = fake_algo("FDD", grid)
        for s in range(ctx.n(6, 8)):
            script = random_script(rng, "FDD", np.array(grid))
            rec, exc, result = drive(algo, "FDD", script, enum=bool(s % 2), freqlim=fl)
            st.add_trace(script, rec, result)
            ctx.count(dict(v="FDD", table=grid, s=script), nontrivial=any(len(x[1]) > 0 for x in rec))

    # ---- 4. real tables: SingleSetup + SSIcov / SSIdat / pLSCF run, scripted clicks at real poles, mpe_from_plot; a few with real drawing
    for nm in ("SSI", "pLSCF", "SSId"):
        variant = "pLSCF" if nm == "pLSCF" else "SSI"
        A = real_tables[nm]
        alg = algs[nm]
        alg.result.Fn_poles = A
        alg.result.Xi_poles, alg.result.Phi_poles, alg.result.Lab, alg.run_params.ordmax = real_aux[nm]
        alg.run_params.ordmin = 0
        realv = sorted(set(float(v) for v in A.flatten() if not np.isnan(v)))
        st0 = Store(ctx, variant, A.tolist(), "real-run:%s" % nm)
        stores.append(st0)
        st1 = st0
        if len(realv) > 3:  # a second dialog with an explicit band cutting between real poles
            st1 = Store(ctx, variant, A.tolist(), "real-run:%s" % nm, freqlim=(0.5 * (realv[0] + realv[1]), 0.5 * (realv[-2] + realv[-1])))
            stores.append(st1)
        cells = [(r, o) for r in range(A.shape[0]) for o in range(A.shape[1]) if not np.isnan(A[r, o])]
        if not cells:
            ctx.note("real %s run produced no retained pole; real-table hand-over skipped" % nm)
            continue
        nscripts = ctx.n(4, 24)
        for s in range(nscripts):
            picks = [cells[i] for i in nrng.choice(len(cells), size=min(len(cells), int(nrng.integers(2, 5))), replace=False)]
            picks.sort(key=lambda ro: -A[ro])  # descending frequency: the order of the clicks is not the sorted order
            if s % 3 == 1:
                rng.shuffle(picks)
            script = [("kd",)]
            for (r, o) in picks:
                script.append(("c", 1, float(A[r, o]) + rng.choice([0.0, 0.001, -0.001]), o + rng.choice([0.0, 0.25, -0.25, 0.375])))
            if s % 2 == 1:
                script.append(("c", 2, float(A[picks[0]]) + 0.002, 0.0))
            if s % 4 == 3:
                script.append(("c", 3, 1.0, 1.0))
                script.append(("ku",))
                script.append(("c", 1, float(A[picks[-1]]), float(picks[-1][1])))
            script = add_quick_press(rng, tuple(script), 0.5)
            st = st1 if s % 2 == 0 else st0
            if near_tie(st.T, script):
                ctx.not_judged += 1
                continue
            draw = s == 0
            if draw:
                set_mode(True)
            try:
                handover(ctx, st, ss, nm, variant, script, None if s % 2 else 0.02, hmeta)
            finally:
                if draw:
                    set_mode(False)
            rec = _SESSION["rec"] or []
            ctx.count(dict(v=nm, real=True, s=script, draw=draw), nontrivial=any(len(x[1]) > 0 for x in rec))
            ctx.hist("real-run hand-over", "%s%s" % (nm, " draw" if draw else ""))
    # FDD / EFDD: the frequencies handed to the extraction function are the selection
    seen = {}
    orig = {n: getattr(fdd_funcs, n) for n in ("FDD_mpe", "EFDD_mpe")}

    def wrap(n):
        sig = inspect.signature(orig[n])

        def w(*a, **k):
            seen[n] = list(sig.bind(*a, **k).arguments["sel_freq"])
            return orig[n](*a, **k)

        return w

    try:
        for n in orig:
            setattr(fdd_funcs, n, wrap(n))
        for nm in ("FDD", "EFDD"):
            alg = algs[nm]
            freq = np.asarray(alg.result.freq, dtype=float)
            df = float(freq[1] - freq[0])
            for s in range(ctx.n(4, 12)):
                targets = [1.5, 6.8, 4.2] if s % 2 == 0 else [6.8, 1.5]
                fl = None
                if s % 2 == 1 or s == 0:
                    # explicit band with both edges between two real grid lines (3/4 of the way to the next line); the clicks
                    # just inside the edges designate the line just OUTSIDE the band (e.g. freqlim=(1, 7.56), click 7.557 -> 7.578)
                    k1, k2 = int(round(1.0 / df)) + (s // 2), int(round(7.5 / df)) - (s // 2)
                    fl = (float(freq[k1]) + 0.25 * df, float(freq[k2]) + 0.75 * df)
                    targets = targets + [fl[1] - 0.03 * df, fl[0] + 0.03 * df]
                st = Store(ctx, "FDD", freq.tolist(), "real-run:%s" % nm, freqlim=fl)
                stores.append(st)
                script = [("kd",)] + [("c", 1, f + rng.choice([0.0, 0.01, -0.02]), float(rng.randint(-40, 5))) for f in targets]
                if s % 3 == 1:
                    script.append(("c", 2, targets[0] + 0.05, 0.0))
                if s % 3 == 2:
                    script.append(("c", 3, 0.0, 0.0))
                script = add_quick_press(rng, tuple(script), 0.5)
                draw = s == 0
                if draw:
                    set_mode(True)
                _SESSION.update(script=script, rec=None, exc=None, obj=None, enum=bool(s % 2))
                seen.clear()
                err = None
                try:
                    ss.mpe_from_plot(nm, **({} if fl is None else dict(freqlim=fl)))
                except Exception as e:  # the extraction itself (peak fitting) is not the subject here
                    err = type(e).__name__
                finally:
                    if draw:
                        set_mode(False)
                rec, obj = _SESSION["rec"], _SESSION["obj"]
                if not rec:
                    ctx.fail("oracle", "%s.mpe_from_plot never opened the dialog (%s)" % (nm, err), st.case(script), key="C16:FDD:handover")
                    continue
                fin = st.add_trace(script, rec, getattr(obj, "result", "missing"))
                ctx.count(dict(v=nm, real=True, s=script, draw=draw), nontrivial=True)
                ctx.hist("real-run hand-over", "%s%s" % (nm, " draw" if draw else ""))
                if fin is None:
                    continue
                got = seen.get(nm + "_mpe")
                if got is None or Counter(Fraction(float(f)) for f in got) != Counter(f for f, _ in fin[1]):
                    ctx.fail("oracle", "%s.mpe_from_plot handed %s to the extraction, the dialog selection is %s" % (nm, got, fmt_sel(fin[1])), st.case(script),
                             key="C16:FDD:handover")
                elif err is None and len(np.asarray(alg.result.Fn).reshape(-1)) != len(fin[1]):
                    ctx.fail("oracle", "%s.mpe_from_plot: number of extracted modes differs from the number of selected lines" % nm, st.case(script), key="C16:FDD:handover")
    finally:
        for n in orig:
            setattr(fdd_funcs, n, orig[n])

    # ---- 5. the Coq side: checker on every distinct transition, model of the extraction on every hand-over
    evaluate(ctx, stores)
    evaluate_handover(ctx, hmeta)
