"""C16 - interactive pole picking hands over exactly the picked (frequency, order) pairs.

Model / specification: coq/Model/M_pick.v (`allowed`: relation on multisets of (frequency, column) pairs, evaluated as a
checker on the transitions recorded from the real handlers); theorems: coq/Properties/C16.v.

The real `SelFromPlot` is constructed head-less: `_initialize_gui` is replaced (from this process only) by a stub whose
`root.mainloop()` applies a scripted sequence of events to the REAL handlers (`on_key_press`, `on_key_release`,
`on_click_SSI`, `on_click_FDD`) and records (shift_is_held, sel_freq, pole_ind / freq_ind) after every event.  The
same stub serves `mpe_from_plot` of the real algorithm classes, so the hand-over is observed on `algorithm.result`.
"""
import glob
import inspect
import itertools
import json
import os
import types
from collections import Counter
from fractions import Fraction

import numpy as np

from common import VERIF, jsonable

HEADER = "From PyOMA.Model Require Import M_pick."
HEADER_MPE = "From PyOMA.Model Require Import M_pick M_mpe M_pick_mpe."  # dialog -> C11's extraction (whole pole)
BTN = {1: "BLeft", 2: "BMiddle", 3: "BRight"}
NAN = float("nan")


# =====================================================================================================================
# head-less driving of the real dialog
# =====================================================================================================================
class _Ev:
    def __init__(self, **kw):
        self.__dict__.update(kw)


_SESSION = {"script": [], "rec": None, "exc": None, "obj": None, "enum": False, "owner": None, "conn": {}, "menu": {}, "root": None,
            "closed_via": None, "gui": None}


def _snap(o):
    idx = o.freq_ind if o.plot == "FDD" else o.pole_ind
    return (o.shift_is_held, list(o.sel_freq), list(idx))


def _button(code):
    if _SESSION["enum"]:
        from matplotlib.backend_bases import MouseButton

        try:
            return MouseButton(code)
        except ValueError:
            return code
    return code


def _dispatch(o, name, ev, direct):
    """Deliver an event the way the canvas does: to the callbacks the REAL _initialize_gui registered with mpl_connect
    (falls back to the handler method when the dialog was built by the minimal stub)."""
    cbs = _SESSION["conn"].get(name)
    if cbs:
        for cb in list(cbs):
            cb(ev)
    else:
        direct(ev)


def _apply(o, a, phys):
    """Apply one scripted action to the real handlers; returns the exception kind if the handler raised."""
    k = a[0]
    try:
        if k == "kd":
            _dispatch(o, "key_press_event", _Ev(key="shift", name="key_press_event", inaxes=o.ax2, xdata=None, ydata=None, x=100, y=100, guiEvent=None, canvas=None), o.on_key_press)
        elif k == "ku":
            _dispatch(o, "key_release_event", _Ev(key="shift", name="key_release_event", inaxes=o.ax2, xdata=None, ydata=None, x=100, y=100, guiEvent=None, canvas=None), o.on_key_release)
        elif k == "ko":
            ev = _Ev(key=a[1], name="key_%s_event" % a[2], inaxes=o.ax2, xdata=None, ydata=None, x=100, y=100, guiEvent=None, canvas=None)
            _dispatch(o, "key_%s_event" % a[2], ev, o.on_key_press if a[2] == "press" else o.on_key_release)
        elif k in ("mv", "sc", "br"):
            # pointer motion / scrolling / button release over the axes: delivered, as the canvas does, ONLY to callbacks the dialog
            # registered for that event name (the dialog's own _initialize_gui registers none; with the minimal stub nothing is connected)
            name = {"mv": "motion_notify_event", "sc": "scroll_event", "br": "button_release_event"}[k]
            mods = frozenset(["shift"]) if phys else frozenset()
            canvas = getattr(getattr(o, "fig", None), "canvas", None)
            button = None if k == "mv" else (a[1] if k == "sc" else _button(a[1]))
            ev = _Ev(name=name, canvas=canvas, guiEvent=None, button=button, xdata=np.float64(a[2]), ydata=np.float64(a[3]), inaxes=o.ax2,
                     key="shift" if phys else None, modifiers=mods, dblclick=False, x=100, y=100, step=(1 if a[1] == "up" else -1) if k == "sc" else 0)
            for cb in list(_SESSION["conn"].get(name) or []):
                cb(ev)
        elif k == "m":  # a menu entry of the dialog (show / hide unstable poles, help): selects nothing
            cmd = _SESSION["menu"].get(a[1])
            if cmd is None:
                return "NoSuchMenuEntry"
            cmd()
        elif k == "close":  # the user closes the window: the callback registered for WM_DELETE_WINDOW
            cb = getattr(_SESSION["root"], "protocols", {}).get("WM_DELETE_WINDOW")
            if cb is not None:
                _SESSION["closed_via"] = "WM_DELETE_WINDOW"
                cb()
            elif hasattr(o, "on_closing"):
                _SESSION["closed_via"] = "on_closing"
                o.on_closing()
            else:
                _SESSION["closed_via"] = "none"
        else:
            mods = frozenset(["shift"]) if phys else frozenset()
            dbl = a[-1] == "dbl"  # the second of two quick presses: Matplotlib delivers it with MouseEvent.dblclick = True
            canvas = getattr(getattr(o, "fig", None), "canvas", None)
            if k == "c":  # every attribute a real matplotlib.backend_bases.MouseEvent carries
                ev = _Ev(name="button_press_event", canvas=canvas, guiEvent=None, button=_button(a[1]), xdata=np.float64(a[2]), ydata=np.float64(a[3]),
                         inaxes=o.ax2, key="shift" if phys else None, modifiers=mods, dblclick=dbl, x=100, y=100, step=0)
            else:  # click outside the axes
                ev = _Ev(name="button_press_event", canvas=canvas, guiEvent=None, button=_button(a[1]), xdata=None, ydata=None, inaxes=None,
                         key="shift" if phys else None, modifiers=mods, dblclick=dbl, x=1, y=1, step=0)
            _dispatch(o, "button_press_event", ev, o.on_click_FDD if o.plot == "FDD" else (lambda e: o.on_click_SSI(e, o.plot)))
        return None
    except Exception as e:  # Matplotlib's callback registry swallows handler exceptions too
        return type(e).__name__


CLOSE = ("close",)


class _FakeWidget:
    """Stands for any Tk widget / Matplotlib GUI object: accepts every call, chains."""

    def __init__(self, *a, **k):
        pass

    def __getattr__(self, name):
        if name.startswith("__"):
            raise AttributeError(name)
        return lambda *a, **k: _FakeWidget()


class _FakeRoot(_FakeWidget):
    """Stands for tkinter.Tk(): records protocol() registrations; mainloop() plays the script on the real handlers and then
    CLOSES the window the way a user does - through the callback the dialog registered for WM_DELETE_WINDOW."""

    def __init__(self, *a, **k):
        self.protocols = {}
        self.calls = []
        _SESSION["root"] = self

    def protocol(self, name=None, func=None):
        if func is not None:
            self.protocols[name] = func

    def quit(self):
        self.calls.append("quit")

    def destroy(self):
        self.calls.append("destroy")

    def mainloop(self, n=0):
        o = _SESSION["owner"]
        rec, exc = [_snap(o)], []
        phys = False
        for a in tuple(_SESSION["script"]) + (CLOSE,):
            if a[0] == "kd":
                phys = True
            elif a[0] == "ku":
                phys = False
            exc.append(_apply(o, a, phys))
            rec.append(_snap(o))
        _SESSION.update(rec=rec, exc=exc, obj=o)


class _FakeMenu(_FakeWidget):
    def add_command(self, label=None, command=None, **k):
        if label is not None and command is not None:
            _SESSION["menu"][label] = command


class _FakeCanvas(_FakeWidget):
    def mpl_connect(self, name, cb):
        _SESSION["conn"].setdefault(name, []).append(cb)
        return len(_SESSION["conn"][name])


class _FakeFigure(_FakeWidget):
    """draw=False: stands for matplotlib.figure.Figure (nothing is drawn, plot_stab / plot_svPSD are stubbed)."""

    def __init__(self, *a, **k):
        self.canvas = _FakeCanvas()


class _FakeCanvasTkAgg(_FakeCanvas):
    """Stands for FigureCanvasTkAgg(fig, root).  With a real Figure (draw=True) it installs an Agg canvas and records the
    mpl_connect registrations made on it."""

    def __init__(self, fig=None, master=None, **k):
        if not isinstance(fig, _FakeFigure) and fig is not None:
            from matplotlib.backends.backend_agg import FigureCanvasAgg

            FigureCanvasAgg(fig)
            real = fig.canvas.mpl_connect

            def connect(name, cb):
                _SESSION["conn"].setdefault(name, []).append(cb)
                return real(name, cb)

            fig.canvas.mpl_connect = connect


class _FakeTk:
    """Stands for the tkinter module inside pyoma2.support.sel_from_plot."""

    Tk = _FakeRoot
    Menu = _FakeMenu
    messagebox = _FakeWidget()

    def __getattr__(self, name):
        return _FakeWidget


_ORIG = {}


def _gui_real(self):
    """The REAL SelFromPlot._initialize_gui, run against stand-ins for tkinter / FigureCanvasTkAgg / NavigationToolbar2Tk (and
    for Figure when nothing is drawn): menus, mpl_connect registrations and the WM_DELETE_WINDOW protocol are the dialog's own."""
    _SESSION.update(owner=self, conn={}, menu={}, root=None, closed_via=None, gui="real")
    try:
        _ORIG["gui"](self)
        if not isinstance(getattr(self, "root", None), _FakeRoot):
            raise RuntimeError("dialog did not create its root through tkinter.Tk()")
    except Exception:
        # a differently organised GUI construction: minimal stub, events go straight to the handler methods
        _SESSION.update(conn={}, menu={}, gui="stub")
        self.root = _FakeRoot()
        if _SESSION.get("draw"):
            from matplotlib.backends.backend_agg import FigureCanvasAgg

            self.fig = _ORIG["Figure"](figsize=(5, 3))
            FigureCanvasAgg(self.fig)
            self.ax2 = self.fig.add_subplot(111)
        else:
            self.fig, self.ax2 = _FakeFigure(), _FakeWidget()


def set_mode(draw):
    """draw=False: nothing is drawn (Figure stand-in, plot_stab / plot_svPSD stubbed); draw=True: a real Figure on an Agg canvas
    and the real plot_stab / plot_svPSD.  In both modes the dialog is built by its own _initialize_gui."""
    import pyoma2.support.sel_from_plot as M

    SelFromPlot = M.SelFromPlot
    if not _ORIG:
        _ORIG.update(gui=SelFromPlot._initialize_gui, ps=SelFromPlot.plot_stab, pv=SelFromPlot.plot_svPSD, tk=M.tk, Figure=M.Figure,
                     canvas=M.FigureCanvasTkAgg, toolbar=M.NavigationToolbar2Tk)
    _SESSION["draw"] = bool(draw)
    SelFromPlot._initialize_gui = _gui_real
    M.tk = _FakeTk()
    M.FigureCanvasTkAgg = _FakeCanvasTkAgg
    M.NavigationToolbar2Tk = _FakeWidget
    if draw:
        M.Figure = _ORIG["Figure"]
        SelFromPlot.plot_stab = _ORIG["ps"]
        SelFromPlot.plot_svPSD = _ORIG["pv"]
    else:
        M.Figure = _FakeFigure
        SelFromPlot.plot_stab = lambda self, *a, **k: None
        SelFromPlot.plot_svPSD = lambda self, *a, **k: None


def restore():
    import pyoma2.support.sel_from_plot as M

    if _ORIG:
        M.SelFromPlot._initialize_gui = _ORIG["gui"]
        M.SelFromPlot.plot_stab = _ORIG["ps"]
        M.SelFromPlot.plot_svPSD = _ORIG["pv"]
        M.tk, M.Figure, M.FigureCanvasTkAgg, M.NavigationToolbar2Tk = _ORIG["tk"], _ORIG["Figure"], _ORIG["canvas"], _ORIG["toolbar"]


_FORM_SFP = {"n": 0}


def drive(algo, plot, script, enum=False, freqlim=None):
    """Construct the real SelFromPlot on `algo` (with the display option freqlim), play `script`; returns (recorded
    snapshots, exception kinds, .result)."""
    from pyoma2.support.sel_from_plot import SelFromPlot

    _SESSION.update(script=script, rec=None, exc=None, obj=None, enum=enum)
    _FORM_SFP["n"] += 1
    if _FORM_SFP["n"] % 4 == 0:  # every fourth dialog is constructed positionally, in the published order (algo, freqlim, plot)
        obj = SelFromPlot(algo, None if freqlim is None else tuple(freqlim), plot)
    else:
        obj = SelFromPlot(algo, freqlim=None if freqlim is None else tuple(freqlim), plot=plot)
    return _SESSION["rec"], _SESSION["exc"], getattr(obj, "result", "missing")


def as_table(tab, shape=None):
    """rows x orders float array from a nested list / array (shape given explicitly for tables without rows or orders)."""
    A = np.array(tab, dtype=float)
    if A.ndim != 2:
        A = A.reshape(tuple(shape) if shape is not None else (len(tab), 0))
    return A


def fake_algo(variant, tab, shape=None, ordlim=None):
    if variant == "FDD":
        freq = np.array(tab, dtype=float)
        n = len(freq)
        sv = np.ones((2, 2, max(n, 1))) * 2.0
        sv[0, 0, :] = 2.0 + np.arange(max(n, 1)) % 3
        return types.SimpleNamespace(fs=100.0, result=types.SimpleNamespace(freq=freq, S_val=sv[:, :, :n] if n else sv[:, :, :0]),
                                     run_params=types.SimpleNamespace())
    Fn = as_table(tab, shape)
    return types.SimpleNamespace(fs=100.0, result=types.SimpleNamespace(Fn_poles=Fn, Lab=np.where(np.isnan(Fn), 0, 1)),
                                 run_params=types.SimpleNamespace(ordmin=0 if ordlim is None else int(ordlim[0]),
                                                                  ordmax=max(Fn.shape[1] - 1, 0) if ordlim is None else int(ordlim[1]), step=1))


# =====================================================================================================================
# the property text as a plain-Python oracle: multisets of (frequency, order) pairs, exact rationals
# =====================================================================================================================
class BadState(Exception):
    pass


def to_state(snap):
    sh, fr, idx = snap
    if len(fr) != len(idx):
        raise BadState("the frequency list (%d entries) and the order/line list (%d entries) have different lengths" % (len(fr), len(idx)))
    sel = []
    for f, k in zip(fr, idx):
        f = float(f)
        if not np.isfinite(f):
            raise BadState("non-finite frequency in the selection")
        if int(k) != k:
            raise BadState("non-integer order in the selection")
        sel.append((Fraction(f), int(k)))
    return (bool(sh), tuple(sel))


class Tab:
    """A pole table (rows x orders, NaN = no retained pole) or an FDD frequency grid, with exact entries."""

    def __init__(self, variant, tab, shape=None):
        self.variant = variant
        if variant == "FDD":
            self.raw = [float(f) for f in tab]
            self.shape = [len(self.raw)]
            self.freq = [Fraction(float(f)) for f in tab]
        else:
            A = as_table(tab, shape)
            self.raw = A.tolist()
            self.shape = list(A.shape)
            self.A = A
            self.cols = [[None if np.isnan(v) else Fraction(float(v)) for v in A[:, o]] for o in range(A.shape[1])]
        self._des = {}

    def designated(self, x, y):
        """The pairs a picking click at (x, y) may designate according to the property text (several only on exact ties;
        None = the click designates nothing: no order, or no retained pole at the nearest order)."""
        key = (x, y)
        if key in self._des:
            return self._des[key]
        X, Y = Fraction(float(x)), Fraction(float(y))
        out = set()
        if self.variant == "FDD":
            if not self.freq:
                out.add(None)
            else:
                d = [abs(f - X) for f in self.freq]
                m = min(d)
                out = {(self.freq[k], k) for k in range(len(d)) if d[k] == m}
        else:
            n = len(self.cols)
            if n == 0:
                out.add(None)
            else:
                dy = [abs(k - Y) for k in range(n)]
                my = min(dy)
                for o in range(n):
                    if dy[o] != my:
                        continue
                    cells = [f for f in self.cols[o] if f is not None]
                    if not cells:
                        out.add(None)
                        continue
                    mx = min(abs(f - X) for f in cells)
                    out |= {(f, o) for f in cells if abs(f - X) == mx}
        self._des[key] = out
        return out

    def coq_pick(self):
        def cq(f):
            return "(mkq (%d) %d)" % (f.numerator, f.denominator)

        if self.variant == "FDD":
            return "(pick_fdd [%s])" % "; ".join(cq(f) for f in self.freq)
        return "(pick_ssi [%s])" % "; ".join("[%s]" % "; ".join("None" if f is None else "Some %s" % cq(f) for f in col) for col in self.cols)

    def coq_table(self):
        def cq(f):
            return "(mkq (%d) %d)" % (f.numerator, f.denominator)

        return "[%s]" % "; ".join("[%s]" % "; ".join("None" if f is None else "Some %s" % cq(f) for f in col) for col in self.cols)


def coq_rows(T):
    """the pole table ROW-major, as Model/M_mpe.v (C11) reads it"""
    def cq(f):
        return "(mkq (%d) %d)" % (f.numerator, f.denominator)

    n, m = T.shape
    return "[%s]" % "; ".join("[%s]" % "; ".join("None" if T.cols[c][r] is None else "Some %s" % cq(T.cols[c][r]) for c in range(m)) for r in range(n))


def oracle_step(T, st, a, st2):
    """None if st -a-> st2 is what the property text permits, else (key suffix, message)."""
    sh, sel = st
    sh2, sel2 = st2
    c1, c2 = Counter(sel), Counter(sel2)
    k = a[0]
    want = True if k == "kd" else False if k == "ku" else sh
    if sh2 != want:
        return ("modifier", "modifier state after %s is %s, the keys say %s" % (a, sh2, want))
    if k == "co" and sh and a[1] == 3 and c1 != c2:
        # deselect-one does not refer to the click position: outside the axes it may still remove exactly one pair
        if sum((c1 - c2).values()) != 1 or (c2 - c1) or len(sel2) != len(sel) - 1:
            return ("deselect-one", "a deselecting click did not remove exactly one selected pair: %s -> %s" % (fmt_sel(sel), fmt_sel(sel2)))
        return None
    if k == "close" and c1 != c2:
        return ("close", "closing the dialog changed the selection that is handed on: %s selected when the window was closed, %s handed on"
                % (fmt_sel(sel), fmt_sel(sel2)))
    if not (k == "c" and sh and a[1] in (1, 2, 3)):
        if c1 != c2:
            return ("noop-changed", "an action that selects/deselects nothing (key, click without the modifier, other button, click "
                    "outside the axes) changed the selection")
        return None
    b, x = a[1], Fraction(float(a[2]))
    if b == 1:
        des = T.designated(a[2], a[3])
        for d in des:
            if (c1 if d is None else c1 + Counter([d])) == c2:
                return None
        for d in des:
            if d is not None and len(sel2) == len(sel) + 1:
                if sorted(f for f, _ in sel2) == sorted([f for f, _ in sel] + [d[0]]) and sorted(o for _, o in sel2) == sorted([o for _, o in sel] + [d[1]]):
                    return ("pairing", "after a pick the frequencies and the orders are the right lists but are no longer paired as picked: "
                            "expected %s, got %s" % (fmt_sel(sorted((c1 + Counter([d])).elements())), fmt_sel(sel2)))
        return ("pick", "after a pick the selection is not the previous selection plus the designated pair %s: got %s from %s"
                % ([None if d is None else fmt_sel([d]) for d in des], fmt_sel(sel2), fmt_sel(sel)))
    if not sel:
        if sel2:
            return ("deselect-empty", "deselecting on an empty selection produced entries")
        return None
    removed = c1 - c2
    if sum(removed.values()) != 1 or (c2 - c1) or len(sel2) != len(sel) - 1:
        return ("deselect-one", "a deselecting click did not remove exactly one selected pair: %s -> %s" % (fmt_sel(sel), fmt_sel(sel2)))
    if b == 2:
        e = next(iter(removed.elements()))
        if abs(e[0] - x) != min(abs(f - x) for f, _ in sel):
            return ("deselect-nearest", "deselect-nearest at x=%s removed %s which is not closest in frequency among %s" % (float(x), fmt_sel([e]), fmt_sel(sel)))
    return None


def fmt_sel(sel):
    return "[" + ", ".join("%g@%d" % (float(f), o) for f, o in sel) + "]"


# =====================================================================================================================
# recording, Coq evaluation of the checker
# =====================================================================================================================
def coq_q(x):
    f = Fraction(float(x)) if not isinstance(x, Fraction) else x
    return "(mkq (%d) %d)" % (f.numerator, f.denominator)


def coq_state(st):
    return "(mkst %s [%s])" % ("true" if st[0] else "false", "; ".join("en (%d) %d %d" % (f.numerator, f.denominator, o) for f, o in st[1]))


def coq_action(a):
    k = a[0]
    if k == "kd":
        return "KeyDown"
    if k == "ku":
        return "KeyUp"
    if k in ("ko", "m", "close", "mv", "sc", "br"):  # other key, menu entry, closing the window, motion, scroll, button release: no selecting action
        return "KeyOther"
    if k == "c":
        return "(Click %s %s %s)" % (BTN.get(a[1], "BOther"), coq_q(a[2]), coq_q(a[3]))
    return "(ClickOut %s)" % BTN.get(a[1], "BOther")


class Store:
    """Distinct transitions recorded on one table (the checker is a function of the transition, so each is evaluated once)."""

    def __init__(self, ctx, variant, tab, tag, shape=None, freqlim=None, ordlim=None):
        """freqlim / ordlim: DISPLAY options of the dialog (plotted frequency band; run_params.ordmin/ordmax = plotted order
        range).  The property does not mention them: the pick is the pole / line nearest to the click whatever is displayed."""
        self.ctx, self.variant, self.tag = ctx, variant, tag
        self.freqlim = None if freqlim is None else [float(freqlim[0]), float(freqlim[1])]
        self.ordlim = None if ordlim is None else [int(ordlim[0]), int(ordlim[1])]
        self.T = Tab(variant, tab, shape)
        self.trans = {}  # (st, a, st2) -> script that first produced it
        self.bad = set()

    def case(self, script, **kw):
        d = dict(variant=self.variant, table=jsonable(self.T.raw), shape=self.T.shape, actions=[list(a) for a in script], gen=self.tag, **kw)
        if self.freqlim is not None:
            d["freqlim"] = self.freqlim
        if self.ordlim is not None:
            d["ordlim"] = self.ordlim
        return d

    def add_trace(self, script, rec, result):
        """Oracle on every step + registration for the Coq checker.  Returns the final state, or None if malformed."""
        ctx = self.ctx
        script = tuple(tuple(a) for a in script)
        closed = len(rec) == len(script) + 2
        if closed:  # the session was ended through the dialog's close handler (last snapshot = what is handed on)
            script = script + (CLOSE,)
        try:
            states = [to_state(s) for s in rec]
        except BadState as e:
            k = next(i for i, s in enumerate(rec) if _is_bad(s))
            ctx.fail("oracle", "SelFromPlot (%s): %s after %s" % (self.variant, e, script[:k]), self.case(script[:k]), key="C16:%s:lists" % self.variant)
            return None
        for i, a in enumerate(script):
            a = tuple(a)
            key = (states[i], a, states[i + 1])
            if key in self.trans:
                continue
            self.trans[key] = script[: i + 1]
            bad = oracle_step(self.T, states[i], a, states[i + 1])
            if bad:
                self.bad.add(key)
                ctx.fail("oracle", "SelFromPlot (%s): %s" % (self.variant, bad[1]), self.case(script[: i + 1]), key="C16:%s:%s" % (self.variant, bad[0]))
        fin = states[-2] if closed else states[-1]  # the selection the user left when closing the window
        # the dialog's result attribute (read after the close handler has run) = the two lists (FDD: the frequencies)
        ok = isinstance(result, tuple) and len(result) == 2
        if ok:
            try:
                fr = [Fraction(float(f)) for f in result[0]]
                ok = fr == [f for f, _ in fin[1]]
                if ok and self.variant != "FDD":
                    ok = [int(o) for o in result[1]] == [o for _, o in fin[1]]
            except Exception:
                ok = False
        if not ok:
            ctx.fail("oracle", "SelFromPlot (%s).result (read after the window was closed) is not the selection left by the last event" % self.variant, self.case(script), key="C16:%s:result" % self.variant)
        return fin

    def exprs(self, chunk=200):
        keys = list(self.trans)
        out = []
        pick = self.T.coq_pick()
        for i in range(0, len(keys), chunk):
            part = keys[i : i + chunk]
            body = "; ".join("(%s, %s, %s)" % (coq_state(s), coq_action(a), coq_state(s2)) for (s, a, s2) in part)
            out.append(("check_trace %s [%s]" % (pick, body), (self, part)))
        return out


def _is_bad(s):
    try:
        to_state(s)
        return False
    except BadState:
        return True


def _shard(n):
    """about 14 coqc processes in all (start-up dominates the evaluation itself)"""
    return max(8, -(-n // 14))


class Batch:
    """All Coq expressions of one run, evaluated in ONE sharded coqc pass (start-up dominates), then judged."""

    def __init__(self):
        self.parts = []

    def add(self, exprs, judge):
        self.parts.append((list(exprs), judge))

    def run(self, ctx):
        exprs = [e for es, _ in self.parts for e in es]
        res = ctx.coq_eval(HEADER_MPE, exprs, shard=_shard(len(exprs)))
        k = 0
        for es, judge in self.parts:
            judge(res[k : k + len(es)])
            k += len(es)


def evaluate(ctx, stores, batch):
    """Run the Coq checker over every distinct recorded transition."""
    exprs, meta = [], []
    for st in stores:
        for e, m in st.exprs():
            exprs.append(e)
            meta.append(m)
    batch.add(exprs, lambda res: _judge_checker(ctx, meta, res))


def _judge_checker(ctx, meta, res):
    nsame = ntot = 0
    for (store, part), s in zip(meta, res):
        toks = s.split(" ") if s else []
        if len(toks) != len(part):
            ctx.fail("correspondence", "checker output has %d verdicts for %d transitions" % (len(toks), len(part)), store.case([]), key="C16:coq-output")
            continue
        for key, t in zip(part, toks):
            ntot += 1
            nsame += t[1] == "T"
            if t[0] != "T":
                st, a, st2 = key
                ctx.fail("correspondence", "SelFromPlot (%s): transition %s -%s-> %s is not an allowed step of the specification M_pick.allowed"
                         % (store.variant, fmt_sel(st[1]), list(a), fmt_sel(st2[1])), store.case(store.trans[key]), key="C16:%s:not-allowed" % store.variant)
    ctx.extra["distinct_transitions_checked_in_coq"] = ctx.extra.get("distinct_transitions_checked_in_coq", 0) + ntot
    ctx.extra["transitions_equal_to_impl_step"] = ctx.extra.get("transitions_equal_to_impl_step", 0) + nsame
    if nsame != ntot:
        ctx.note("%d of %d transitions resolve the freedom of the specification differently from M_pick.impl_step (allowed; not a failure)" % (ntot - nsame, ntot))


# =====================================================================================================================
# generators
# =====================================================================================================================
ENUM_SSI = [[3.0, 10.0, NAN], [NAN, 4.0, 5.0], [12.0, NAN, 11.0], [7.0, 1.5, 8.25]]  # 4 poles x 3 orders, distinct, with NaNs
ENUM_TIES = [[4.0, 10.0, 4.0], [NAN, 5.0, 9.5], [9.5, NAN, NAN], [7.0, 1.5, 12.0]]  # 4.0 and 9.5 Hz at orders 0 AND 2
ENUM_FDD = [0.0, 0.75, 1.5, 2.25, 3.0, 3.75, 4.5]


def alphabet(variant, small):
    if variant == "FDD":
        xs, ys = ((0.875, 2.5, 4.0), (0.25, 1.25, 1.75)) if not small else ((0.875, 4.0), (0.25, 1.75))
    else:
        xs, ys = ((4.5, 9.75, 11.5), (0.25, 1.25, 1.75)) if not small else ((4.5, 9.75), (0.25, 1.75))
    return [("kd",), ("ku",)] + [("c", b, x, y) for b in (1, 3, 2) for x in xs for y in ys]


def _picks(*cells):
    return (("kd",),) + tuple(("c", 1, float(f), float(o)) for f, o in cells)


# pre-populated selections (modifier held): orders repeat NON-adjacently in frequency order ([0,1,0], [2,0,2], [1,0,1,0]), clicked
# out of frequency order, so that removing "the entry with that order" instead of "entry i" is observable
POPULATED = {
    "SSI": [_picks((7.0, 0), (3.0, 0), (4.0, 1)), _picks((8.25, 2), (7.0, 0), (5.0, 2)), _picks((4.0, 1), (7.0, 0), (1.5, 1), (3.0, 0))],
    # FDD: (frequency, y); the same line picked twice, lines picked in descending frequency
    "FDD": [_picks((3.0, 0), (0.75, 0), (3.0, 0)), _picks((4.5, 0), (2.25, 0), (0.75, 0), (2.25, 0))],
}
POPULATED["pLSCF"] = POPULATED["SSI"]


def quick_repeats(script):
    """A press identical to the press just before it (same button, same place) delivered as the second of two QUICK presses:
    Matplotlib reports it with dblclick=True.  The property makes no difference: every press with the modifier held acts."""
    out = []
    for a in script:
        a = tuple(a)
        if a[0] in ("c", "co") and out and out[-1][0] == a[0] and a[-1] != "dbl" and tuple(x for x in out[-1] if x != "dbl") == a:
            a = a + ("dbl",)
        out.append(a)
    return tuple(out)


def add_quick_press(rng, script, p=0.5):
    """With probability p: one click of the history is followed by a quick second press at the same place (dblclick=True)."""
    script = tuple(tuple(a) for a in script)
    idx = [i for i, a in enumerate(script) if a[0] == "c" and a[-1] != "dbl"]
    if not idx or rng.random() >= p:
        return script
    deselects = [i for i in idx if script[i][1] in (2, 3)]
    i = rng.choice(deselects) if deselects and rng.random() < 0.6 else rng.choice(idx)
    return script[: i + 1] + (script[i] + ("dbl",),) + script[i + 1 :]


def enumerate_sequences(ctx, variant, tab, letters, maxlen, tag, maxlen_populated=None, freqlim=None, ordlim=None):
    """ALL sequences over `letters` of length <= maxlen, from the fresh dialog and with the modifier already held; and all
    sequences of length <= maxlen_populated from each pre-populated selection of POPULATED."""
    store = Store(ctx, variant, tab, tag, freqlim=freqlim, ordlim=ordlim)
    algo = fake_algo("FDD" if variant == "FDD" else "SSI", tab, ordlim=ordlim)
    n = 0
    mp = maxlen - 1 if maxlen_populated is None else maxlen_populated
    for prefix, ml in [((), maxlen), ((("kd",),), maxlen)] + [(pf, mp) for pf in POPULATED[variant]]:
        for L in range(ml + 1):
            for seq in itertools.product(letters, repeat=L):
                script = prefix + seq
                if n % 3 != 0:  # in two thirds of the sequences an immediately repeated press is a quick one (dblclick=True)
                    script = quick_repeats(script)
                rec, exc, result = drive(algo, variant, script, enum=(n % 2 == 1), freqlim=freqlim)
                fin = store.add_trace(script, rec, result)
                n += 1
                ctx.count((variant, tag, script), nontrivial=any(len(s[1]) > 0 for s in rec))
                if fin is None and len(ctx.failures) > 40:
                    return store
    ctx.hist("enumerated sequences", "%s %s%s len<=%d x %d letters x {fresh, modifier held} + len<=%d x %d pre-populated selections: %d"
             % (variant, tag, "" if freqlim is None and ordlim is None else " freqlim=%s ordlim=%s" % (freqlim, ordlim), maxlen, len(letters), mp,
                len(POPULATED[variant]), n))
    return store


def structured_base(rng, variant):
    """A table (or FDD grid) and k = 3..6 picks whose orders REPEAT NON-ADJACENTLY in frequency order (e.g. orders [2,4,2]);
    in about a third of the bases the same frequency value also occurs at two different orders.  Returns (table, picks)
    with picks = [(frequency, order)] sorted by frequency."""
    k = rng.randint(3, 6)
    if variant == "FDD":
        n = rng.randint(5, 12)
        grid = sorted(rng.sample(range(1, 160), n))
        if rng.random() < 0.2:
            rng.shuffle(grid)  # malformed: grid not ascending, line index not monotone in frequency
        grid = [g / 8.0 for g in grid]
        lines = sorted(rng.choice(range(n)) for _ in range(k))  # with repetitions: the same line picked twice
        return grid, sorted((grid[i], i) for i in lines)
    ncol = rng.randint(2, 5)
    while True:
        pat = [rng.randrange(ncol) for _ in range(k)]
        if all(pat[i] != pat[i + 1] for i in range(k - 1)) and len(set(pat)) < k:
            break
    vals = sorted(rng.sample(range(8, 320), k))
    if rng.random() < 0.35:
        j = rng.randrange(k - 1)
        vals[j + 1] = vals[j]  # the same frequency at two different orders (adjacent orders of the pattern differ)
    freqs = [v / 8.0 for v in vals]
    per_col = [[f for f, o in zip(freqs, pat) if o == c] for c in range(ncol)]
    nrow = max(len(c) for c in per_col) + rng.randint(1, 2)
    if nrow == ncol:
        nrow += 1
    fill = iter(rng.sample([v for v in range(330, 600)], nrow * ncol))
    A = np.full((nrow, ncol), NAN)
    for c in range(ncol):
        rows = rng.sample(range(nrow), len(per_col[c]))
        for r, f in zip(rows, per_col[c]):
            A[r, c] = f
        for r in range(nrow):
            if np.isnan(A[r, c]) and rng.random() < 0.6:
                A[r, c] = next(fill) / 8.0
    return A, list(zip(freqs, pat))


def structured_histories(rng, variant, picks, table):
    """modifier held, the picks in a random click order, then EVERY single deselect-nearest (one per selected entry, x at
    or near it) and deselect-one, each followed by more picks / deselections."""
    yoff = lambda: rng.choice([0.0, 0.25, -0.25, 0.375])
    def pick(f, o):
        return ("c", 1, float(f), float(o) + yoff() if variant != "FDD" else float(rng.randint(-30, 3)))
    order = list(picks)
    rng.shuffle(order)
    base = (("kd",),) + tuple(pick(f, o) for f, o in order)
    out = []
    for j, (f, o) in enumerate(picks):
        eps = rng.choice([0.0, 0.0, 1.0 / 32, -1.0 / 32])
        h = base + (("c", 2, float(f) + eps, float(rng.randint(-2, 6))),)
        r = rng.random()
        if r < 0.35:  # pick it again, then deselect-nearest another entry
            g = rng.choice(picks)
            h += (pick(f, o), ("c", 2, float(g[0]), 0.0))
        elif r < 0.6:
            g = rng.choice(picks)
            h += (("c", 2, float(g[0]) + rng.choice([0.0, 0.0625]), 1.0), ("c", 3, 0.0, 0.0))
        elif r < 0.75:
            h += (("ku",), ("c", 2, float(picks[0][0]), 0.0), ("kd",), ("c", 2, float(picks[-1][0]), 0.0))
        out.append(h)
    out.append(base + (("c", 3, float(picks[0][0]), 0.0), ("c", 2, float(picks[len(picks) // 2][0]), 0.0), pick(*picks[0])))
    out.append(base + (("co", 3), ("c", 2, float(picks[-1][0]) + 100.0, 0.0), ("c", 2, -50.0, 0.0)))
    return out


def _between(rng, a, b):
    """a dyadic point strictly between a < b (1/4, 1/2 or 3/4 of the gap)"""
    return a + (b - a) * rng.choice([0.25, 0.5, 0.75])


def edge_base(rng, variant):
    """A table / grid and DISPLAY limits whose edges fall strictly BETWEEN grid lines (pole frequencies / orders), with the
    click abscissae just inside, exactly at and just outside each edge, and far outside.  Returns (table, freqlim, ordlim, xs, ys)."""
    if variant == "FDD":
        n = rng.randint(6, 12)
        grid = [g / 4.0 for g in sorted(rng.sample(range(0, 120), n))]
        vals, table, ordlim, ys = grid, grid, None, [0.0, -12.5, 3.0]
    else:
        nrow, ncol = rng.randint(3, 5), rng.randint(3, 6)
        if nrow == ncol:
            nrow += 1
        A = np.array(rng.sample(range(2, 240), nrow * ncol), dtype=float).reshape(nrow, ncol) / 4.0
        for r in range(nrow):
            for c in range(ncol):
                if rng.random() < 0.2:
                    A[r, c] = NAN
        for c in range(ncol):
            if np.all(np.isnan(A[:, c])):
                A[0, c] = 61.0 + c
        vals, table = sorted(set(float(v) for v in A.flatten() if not np.isnan(v))), A
        omin = rng.randint(1, max(1, ncol - 2))
        omax = rng.randint(omin, ncol - 2) if ncol - 2 >= omin else omin
        ordlim = (omin, omax)  # orders 0..omin-1 and omax+1..ncol-1 lie outside the plotted order range
        ys = sorted(set([omin - 1.0, omin - 0.75, omin - 0.25, float(omin), omax + 0.25, omax + 0.75, omax + 1.0, float(ncol - 1), 0.0, -1.5, ncol + 1.5]))
    i = rng.randrange(0, len(vals) // 2)
    j = rng.randrange(len(vals) // 2, len(vals) - 1)
    lo, hi = _between(rng, vals[i], vals[i + 1]), _between(rng, vals[j], vals[j + 1])
    xs = []
    for e, (a, b) in ((lo, (vals[i], vals[i + 1])), (hi, (vals[j], vals[j + 1]))):
        d = (b - a) / 16.0
        xs += [e - d, e, e + d, a + d, b - d, a, b]  # around the edge; next to / on the grid lines on either side of it
    xs += [vals[0] - 3.0, vals[-1] + 3.0, vals[0], vals[-1]]
    return table, (lo, hi), ordlim, xs, ys


def edge_histories(rng, variant, xs, ys):
    """modifier held; picks at every edge abscissa (several orders), deselect-nearest at edge abscissae, deselect-one."""
    out = []
    allx = list(xs)
    rng.shuffle(allx)
    for k in range(0, len(allx), 4):
        part = allx[k : k + 4]
        h = [("kd",)] + [("c", 1, float(x), float(rng.choice(ys))) for x in part]
        h.append(("c", 2, float(rng.choice(xs)), float(rng.choice(ys))))
        if rng.random() < 0.5:
            h.append(("c", 1, float(rng.choice(xs)), float(rng.choice(ys))))
            h.append(("c", 3, 0.0, 0.0) if rng.random() < 0.5 else ("c", 2, float(rng.choice(part)), 0.0))
        out.append(tuple(h))
    if variant != "FDD":  # one history sweeping the order axis at a fixed abscissa
        x = rng.choice(xs)
        out.append((("kd",),) + tuple(("c", 1, float(x), float(y)) for y in rng.sample(ys, min(5, len(ys)))))
    return out


def stable_base(rng):
    """A stabilisation table of perfectly stable poles: row r holds the SAME frequency value at every order where it is retained
    (exact ties across orders); sometimes two rows share a frequency (exact tie within one order, e.g. different damping).
    Returns (table, histories): each history selects at least two poles of equal frequency at different orders."""
    nrow, ncol = rng.randint(3, 5), rng.randint(3, 6)
    if nrow == ncol:
        ncol += 1
    fr = [v / 8.0 for v in sorted(rng.sample(range(8, 200), nrow))]
    if rng.random() < 0.3:
        fr[1] = fr[0]  # two rows with the same frequency
    A = np.array([[fr[r] if rng.random() < 0.75 else NAN for _ in range(ncol)] for r in range(nrow)])
    r0 = rng.randrange(nrow)
    c0, c1 = rng.sample(range(ncol), 2)
    A[r0, c0] = A[r0, c1] = fr[r0]
    cells = [(r, c) for r in range(nrow) for c in range(ncol) if not np.isnan(A[r, c])]
    hs = []
    for _ in range(3):
        extra = rng.sample(cells, min(len(cells), rng.randint(1, 4)))
        picks = [(r0, c0), (r0, c1)] + extra
        rng.shuffle(picks)
        h = [("kd",)] + [("c", 1, float(A[r, c]) + rng.choice([0.0, 0.0, 0.0625, -0.0625]), c + rng.choice([0.0, 0.25, -0.25])) for r, c in picks]
        q = rng.random()
        if q < 0.3:
            h.append(("c", 2, float(rng.choice(fr)), 0.0))
        elif q < 0.45:
            h += [("c", 3, 0.0, 0.0), ("c", 1, float(fr[r0]), float(c0))]
        elif q < 0.55:
            h.append(("ku",))
        hs.append(tuple(h))
    return A, hs


def dy(rng, lo, hi, den=8):
    return rng.randint(int(lo * den), int(hi * den)) / float(den)


def random_table(rng, malformed):
    nrow, ncol = rng.randint(2, 6), rng.randint(1, 6)
    if nrow == ncol:
        nrow += 1
    vals = rng.sample(range(2, 400), nrow * ncol)
    A = np.array(vals, dtype=float).reshape(nrow, ncol) / 8.0
    mask = np.array([[rng.random() < 0.3 for _ in range(ncol)] for _ in range(nrow)])
    A[mask] = NAN
    kind = "valid"
    if malformed:
        kind = rng.choice(["nan-column", "no-orders", "no-rows", "repeat-across-orders", "repeat-in-order", "all-nan"])
        if kind == "nan-column":
            A[:, rng.randrange(ncol)] = NAN
        elif kind == "no-orders":
            A = np.zeros((nrow, 0))
        elif kind == "no-rows":
            A = np.zeros((0, ncol))
        elif kind == "repeat-across-orders":  # a stable pole: the same frequency at several orders
            r = rng.randrange(nrow)
            A[r, :] = A[r, 0] if not np.isnan(A[r, 0]) else 6.5
        elif kind == "repeat-in-order":
            o = rng.randrange(ncol)
            A[0, o] = 9.25
            A[nrow - 1, o] = 9.25
        elif kind == "all-nan":
            A[:, :] = NAN
    return A, kind


def random_action(rng, variant, A, sel_hint):
    r = rng.random()
    if r < 0.10:
        return ("kd",)
    if r < 0.17:
        return ("ku",)
    if r < 0.21:
        return ("ko", rng.choice(["control", "a", "alt", "shift+a", "escape"]), rng.choice(["press", "release"]))
    if r < 0.25:
        return ("co", rng.choice([1, 2, 3, 8]))
    if r < 0.28 and variant != "FDD":  # a menu entry of the stabilisation-chart dialog
        return ("m", rng.choice(["Show unstable poles", "Hide unstable poles", "Help"]))
    if r < 0.33:  # pointer motion, scrolling, a button release: events the dialog has no selecting reaction to
        return inert_event(rng, [float(v) for v in (A if variant == "FDD" else A.flatten()) if not np.isnan(v)])
    b = rng.choice([1] * 11 + [3] * 3 + [2] * 5 + [8, 9])
    if variant == "FDD":
        pool = [float(v) for v in A]
        ncol = 3
    else:
        pool = [float(v) for v in A.flatten() if not np.isnan(v)]
        ncol = A.shape[1]
    if b == 2 and sel_hint and rng.random() < 0.7:
        pool = sel_hint
    if pool and rng.random() < 0.7:
        x = rng.choice(pool) + rng.choice([0, 0, 0.125, -0.125, 0.5, -0.5, 3.0, -3.0, 0.0625])
    else:
        x = dy(rng, -2, 55)
    if rng.random() < 0.75:
        y = rng.randrange(max(ncol, 1)) + rng.choice([0, 0, 0.25, -0.25, 0.375, -0.375, 0.4375, 0.5, -0.5] if rng.random() < 0.3 else [0, 0.25, -0.25, 0.375, -0.375])
    else:
        y = dy(rng, -3, ncol + 3)
    return ("c", b, float(x), float(y))


def inert_event(rng, pool):
    """An event that neither picks nor deselects nor changes the modifier: pointer motion, scrolling, a button release, another
    key, a click with another button, a click outside the axes with a button other than the deselect-one button."""
    x = (rng.choice(pool) if pool else 3.0) + rng.choice([0.0, 0.125, -0.5])
    y = float(rng.randint(-1, 4))
    k = rng.randrange(7)
    if k == 0:
        return ("mv", None, float(x), y)
    if k == 1:
        return ("sc", rng.choice(["up", "down"]), float(x), y)
    if k == 2:
        return ("br", rng.choice([1, 2, 3]), float(x), y)
    if k == 3:
        return ("ko", rng.choice(["control", "a", "alt", "escape", "shift+a"]), rng.choice(["press", "release"]))
    if k == 4:
        return ("c", rng.choice([8, 9]), float(x), y)
    if k == 5:
        return ("co", rng.choice([1, 2, 8]))
    return ("mv", None, float(x) + 1.0, y + 0.5)


def interleave_inert(rng, script, pool):
    """The same acting events with 2..6 inert events inserted at random positions."""
    out = list(script)
    for _ in range(rng.randint(2, 6)):
        out.insert(rng.randint(0, len(out)), inert_event(rng, pool))
    return tuple(out)


def random_script(rng, variant, A):
    L = rng.randint(1, 6)
    script = []
    if rng.random() < 0.8:
        script.append(("kd",))
    while len(script) < L:
        if script and script[-1][0] == "c" and rng.random() < 0.2:
            script.append(tuple(x for x in script[-1] if x != "dbl") + ("dbl",))  # a quick second press at the same place
        else:
            script.append(random_action(rng, variant, A, None))
    return tuple(script)


# =====================================================================================================================
# hand-over through the real algorithm classes
# =====================================================================================================================
def simulate(nrng, N=1500, fs=20.0, fns=(1.5, 4.2, 6.8), xi=0.02, nch=3):
    from scipy import signal

    out = np.zeros((N, nch))
    shapes = nrng.standard_normal((len(fns), nch))
    for k, fn in enumerate(fns):
        wn = 2 * np.pi * fn
        b, a = signal.bilinear([1.0], [1.0, 2 * xi * wn, wn * wn], fs)
        q = signal.lfilter(b, a, nrng.standard_normal(N))
        out += np.outer(q / q.std(), shapes[k])
    return out + 0.05 * nrng.standard_normal((N, nch))


def inject(alg, A):
    """Replace the pole tables of a run algorithm object by synthetic ones (damping and shapes encode (row, order))."""
    nrow, ncol = A.shape
    R, C = np.meshgrid(np.arange(nrow), np.arange(ncol), indexing="ij")
    alg.result.Fn_poles = A.copy()
    alg.result.Xi_poles = np.where(np.isnan(A), NAN, (R * 64 + C + 0.5) / 4096.0)
    alg.result.Phi_poles = np.stack([R + 1.0, C + 1.0, R * 16.0 + C], axis=2) * np.where(np.isnan(A), NAN, 1.0)[:, :, None]
    alg.result.Lab = np.where(np.isnan(A), 0, 1)
    for nm in ("Fn_poles_cov", "Xi_poles_cov", "Phi_poles_cov"):
        if hasattr(alg.result, nm):
            setattr(alg.result, nm, None)
    alg.run_params.ordmax = max(ncol - 1, 0)
    alg.run_params.ordmin = 0


# call forms of mpe_from_plot: keywords / fully positional, through the setup / on the algorithm object.  The positional order is the one of
# the signatures as published - SSIdat|SSIcov|pLSCF(.._MS).mpe_from_plot(freqlim, rtol); FDD(.._MS).mpe_from_plot(freqlim, DF);
# EFDD|FSDD|EFDD_MS.mpe_from_plot(DF1, DF2, cm, MAClim, sppk, npmax, freqlim); setup.mpe_from_plot(name, *the same) - written out here, never
# read from the tree under test.
CALL_FORMS = ["kw", "pos-setup", "kw", "pos-alg", "kw-alg", "kw", "pos-setup", "kw"]
_FORM = {"n": 0}


def handover(ctx, store, setup, name, variant, script, rtol, hmeta, enum=False, form=None):
    """setup.mpe_from_plot(name) with the scripted dialog; checks algorithm.result against the selection (oracle) and
    registers the model evaluation of the extraction (correspondence)."""
    alg = setup[name]
    _SESSION.update(script=script, rec=None, exc=None, obj=None, enum=enum)
    if form is None:
        form = CALL_FORMS[_FORM["n"] % len(CALL_FORMS)]
        _FORM["n"] += 1
    fl = None if store.freqlim is None else tuple(store.freqlim)
    if form.startswith("pos") and rtol is None:
        rtol = 1.0 / 64  # a positional call spells every argument out; not the default of either class
    kw = {} if rtol is None else dict(rtol=rtol)
    if fl is not None:
        kw["freqlim"] = fl
    if store.ordlim is not None:
        alg.run_params.ordmin, alg.run_params.ordmax = store.ordlim
    ctx.hist("mpe_from_plot call form", form)
    try:
        if form == "kw":
            setup.mpe_from_plot(name, **kw)
        elif form == "kw-alg":
            alg.mpe_from_plot(**kw)
        elif form == "pos-setup":
            setup.mpe_from_plot(name, fl, rtol)
        else:
            alg.mpe_from_plot(fl, rtol)
        o_ = _SESSION["obj"]
        want_fl = fl if fl is not None else (0.0, float(alg.fs) / 2)
        got_fl = getattr(o_, "freqlim", None)
        ok_fl = got_fl is not None and len(got_fl) == 2 and float(got_fl[0]) == float(want_fl[0]) and float(got_fl[1]) == float(want_fl[1])
        ok_rt = rtol is None or float(getattr(alg.run_params, "rtol", float("nan"))) == float(rtol)
        if not (ok_fl and ok_rt and getattr(o_, "plot", None) == variant):
            ctx.fail("oracle", "%s.mpe_from_plot called %s with freqlim=%s, rtol=%s: the dialog was opened as plot=%r with freqlim=%r and run_params.rtol is %r"
                     % (type(alg).__name__, {"kw": "with keywords", "kw-alg": "with keywords on the algorithm", "pos-setup": "positionally (name, freqlim, rtol)",
                                             "pos-alg": "positionally (freqlim, rtol) on the algorithm"}[form], fl, rtol, getattr(o_, "plot", None), got_fl,
                        getattr(alg.run_params, "rtol", None)), store.case(script, rtol=rtol, form=form), key="C16:%s:call-form" % variant)
    except Exception as e:
        rec = _SESSION["rec"]
        nf = len(ctx.failures)
        fin = store.add_trace(script, rec, getattr(_SESSION["obj"], "result", "missing")) if rec else None
        if fin is not None and len(ctx.failures) == nf:
            ctx.fail("oracle", "%s.mpe_from_plot raised %s on a valid selection %s" % (type(alg).__name__, type(e).__name__, fmt_sel(fin[1])),
                     store.case(script, rtol=rtol), key="C16:%s:handover-raises" % variant)
        return
    rec, obj = _SESSION["rec"], _SESSION["obj"]
    fin = store.add_trace(script, rec, getattr(obj, "result", "missing"))
    if fin is None:
        return
    sel = fin[1]
    res = alg.result
    A = np.asarray(res.Fn_poles)
    case = store.case(script, rtol=rtol, cls=type(alg).__name__)
    try:
        Fn = [Fraction(float(f)) for f in np.asarray(res.Fn).reshape(-1)]
        oo = [int(o) for o in np.asarray(res.order_out).reshape(-1)]
    except Exception:
        ctx.fail("oracle", "%s: result.Fn / result.order_out are not a frequency list and an order list after mpe_from_plot" % type(alg).__name__, case,
                 key="C16:%s:handover" % variant)
        return
    if len(Fn) != len(oo) or Counter(zip(Fn, oo)) != Counter(sel):
        ctx.fail("oracle", "%s: after mpe_from_plot (Fn, order_out) = %s is not the selection %s left in the dialog"
                 % (type(alg).__name__, list(zip([float(f) for f in Fn], oo)), fmt_sel(sel)), case, key="C16:%s:handover" % variant)
        return
    # the extracted modes are those poles: damping and shape come from a cell of that order holding that frequency
    Xi = np.asarray(res.Xi).reshape(-1)
    Phi = np.asarray(res.Phi)
    for k, (f, o) in enumerate(zip(Fn, oo)):
        rows = [r for r in range(A.shape[0]) if not np.isnan(A[r, o]) and Fraction(float(A[r, o])) == f]
        good = any(_same(Xi[k], res.Xi_poles[r, o]) and _same(Phi[:, k], res.Phi_poles[r, o, :]) for r in rows)
        if not good:
            ctx.fail("oracle", "%s: damping / mode shape extracted for %g@%d do not belong to a pole with that frequency at that order" % (type(alg).__name__, float(f), o),
                     case, key="C16:%s:handover-mode" % variant)
            break
    # correspondence of the extraction with M_pick.mpe_of_result on what the dialog returned
    r0 = obj.result
    hmeta.append((store, script, rtol if rtol is not None else (1e-2 if variant == "SSI" else 5e-2),
                  [Fraction(float(f)) for f in r0[0]], [int(o) for o in r0[1]], [float(f) for f in np.asarray(res.Fn).reshape(-1)], oo,
                  dict(cls=type(alg).__name__, Xi=np.array(Xi, dtype=float), Phi=np.array(Phi), Fn_poles=A, Xi_poles=np.asarray(res.Xi_poles),
                       Phi_poles=np.asarray(res.Phi_poles))))
    ctx.hist("mpe_from_plot driven through", type(alg).__name__)


def _same(a, b):
    a, b = np.asarray(a), np.asarray(b)
    return a.shape == b.shape and bool(np.all((a == b) | (np.isnan(a) & np.isnan(b))))


def evaluate_handover(ctx, hmeta, batch):
    """One Coq expression per table: the model of the extraction on every (rtol, dialog result) recorded on it."""
    groups = {}
    for h in hmeta:
        groups.setdefault(id(h[0]), []).append(h)
    exprs, metas = [], []
    for hs in groups.values():
        store = hs[0][0]
        items = "; ".join("(%s, ([%s], [%s]))" % (coq_q(rtol), "; ".join(coq_q(f) for f in fr), "; ".join("%d%%nat" % o for o in od))
                          for _, _, rtol, fr, od, _, _, _ in hs)
        exprs.append("join \";\" (map (fun t => showM (mpe_of_result %s (fst t) (snd t))) [%s])" % (store.T.coq_table(), items))
        metas.append(hs)
    batch.add(exprs, lambda res: _judge_handover(ctx, hmeta, metas, res))
    evaluate_whole_pole(ctx, list(groups.values()), batch)


def _judge_handover(ctx, hmeta, metas, res):
    for hs, line in zip(metas, res):
        outs = line.split(";")
        if len(outs) != len(hs):
            ctx.fail("correspondence", "model extraction printed %d results for %d hand-overs" % (len(outs), len(hs)), hs[0][0].case([]), key="C16:coq-output")
            continue
        for (store, script, rtol, fr, od, Fn, oo, _), s in zip(hs, outs):
            case = store.case(script, rtol=rtol)
            if s == "raises":
                ctx.fail("correspondence", "model extraction raises where the implementation returned", case, key="C16:%s:handover-corr" % store.variant)
                continue
            a, b = s.split("|")
            mF = [float(Fraction(*map(int, t.split(",")[1].split("/")))) for t in a.split(" ")] if a else []
            mO = [int(t) for t in b.split(" ")] if b else []
            if mF != Fn or mO != oo:
                ctx.fail("correspondence", "extraction differs from M_pick.mpe_of_result: model (%s, %s), implementation (%s, %s)" % (mF, mO, Fn, oo), case,
                         key="C16:%s:handover-corr" % store.variant)
    ctx.extra["handovers_checked_in_coq"] = len(hmeta)


def _parse_hand(s):
    """showRes of M_mpe: 'E kind' | 'O f@id f@id ...|L o o ...'  ->  None | ([(f, id)], [o])"""
    if not s.startswith("O "):
        return None
    a, b = s[2:].split("|")
    vals = [(Fraction(*map(int, t.split("@")[0].split("/"))), int(t.split("@")[1])) for t in a.split(" ")] if a else []
    oo = [int(t) for t in b[1:].split(" ") if t] if b.startswith("L") else None
    return vals, oo


def _deselect_free(script):
    return not any((a[0] == "c" and a[1] in (2, 3)) or (a[0] == "co" and a[1] == 3) for a in script)


def evaluate_whole_pole(ctx, groups, batch):
    """Per table, two Coq expressions over Model/M_pick_mpe.v (the dialog handed to C11's extraction M_mpe.mpe_explicit, payload = cell
    identifiers row*m + order):
      showHandover  on every (rtol, dialog result) recorded: the implementation's mode k must be the WHOLE pole of the model's cell k -
                    result.Fn[k], result.Xi[k], result.Phi[:, k] bit-equal to Fn_poles / Xi_poles / Phi_poles at that (row, order);
      showFromPlot  on every (rtol, event history): the whole of mpe_from_plot with the present code's resolution of the dialog; compared
                    as a multiset of (frequency, order, cell) for histories without deselections (where C16_pick_order_irrelevant leaves no
                    freedom); histories with deselections are not evaluated here."""
    exprs, metas = [], []
    for hs in groups:
        T = hs[0][0].T
        n, m = T.shape
        rows = coq_rows(T)
        items = "; ".join("(%s, ([%s], [%s]))" % (coq_q(rtol), "; ".join(coq_q(f) for f in fr), "; ".join("%d%%nat" % o for o in od))
                          for _, _, rtol, fr, od, _, _, _ in hs)
        exprs.append("join \";\" (map (fun t => showHandover %d %d %s (fst t) (snd t)) [%s])" % (n, m, rows, items))
        metas.append(("hand", hs))
        hp = [h for h in hs if _deselect_free(h[1])]  # with deselections the specification leaves a choice: not evaluated
        if hp:
            acts = "; ".join("(%s, [%s])" % (coq_q(rtol), "; ".join(coq_action(a) for a in script)) for _, script, rtol, _, _, _, _, _ in hp)
            exprs.append("join \";\" (map (fun t => showFromPlot %d %d %s (fst t) (snd t)) [%s])" % (n, m, rows, acts))
            metas.append(("plot", hp))
    batch.add(exprs, lambda res: _judge_whole_pole(ctx, metas, res))


def _judge_whole_pole(ctx, metas, res):
    npole = nplot = nsame = 0
    for (kind, hs), line in zip(metas, res):
        outs = line.split(";")
        if len(outs) != len(hs):
            ctx.fail("correspondence", "model hand-over printed %d results for %d hand-overs" % (len(outs), len(hs)), hs[0][0].case([]), key="C16:coq-output")
            continue
        for (store, script, rtol, fr, od, Fn, oo, X), s in zip(hs, outs):
            case = store.case(script, rtol=rtol, cls=X["cls"])
            m = store.T.shape[1]
            got = _parse_hand(s)
            if got is None or got[1] is None:
                ctx.fail("correspondence", "%s: the model of mpe_from_plot (%s) gives %r where the implementation returned modes" % (X["cls"], kind, s), case,
                         key="C16:%s:handover-pole" % store.variant)
                continue
            vals, mo = got
            if kind == "hand":
                npole += 1
                bad = None
                if mo != oo or len(vals) != len(Fn):
                    bad = "order_out / number of modes: model %s, implementation %s" % (mo, oo)
                else:
                    for k, (f, cid) in enumerate(vals):
                        r, c = divmod(cid, m)
                        if float(f) != Fn[k] or c != oo[k]:
                            bad = "mode %d: model %g@%d, implementation %g@%d" % (k, float(f), c, Fn[k], oo[k])
                        elif not (_same(X["Fn_poles"][r, c], Fn[k]) and _same(X["Xi"][k], X["Xi_poles"][r, c]) and _same(X["Phi"][:, k], X["Phi_poles"][r, c, :])):
                            bad = "mode %d (%g@%d): damping / shape are not those of the cell (row %d, order %d) the model extracts" % (k, Fn[k], c, r, c)
                        if bad:
                            break
                if bad:
                    ctx.fail("correspondence", "%s.mpe_from_plot differs from M_pick_mpe.handover (dialog result -> C11 extraction): %s" % (X["cls"], bad), case,
                             key="C16:%s:handover-pole" % store.variant)
            else:
                nplot += 1
                mine = Counter((float(f), cid % m, cid) for f, cid in vals)
                impl = []
                for k in range(len(Fn)):
                    rows = [r for r in range(X["Fn_poles"].shape[0]) if _same(X["Fn_poles"][r, oo[k]], Fn[k]) and _same(X["Xi"][k], X["Xi_poles"][r, oo[k]])
                            and _same(X["Phi"][:, k], X["Phi_poles"][r, oo[k], :])]
                    impl.append((Fn[k], oo[k], rows[0] * m + oo[k] if rows else -1))
                if mine == Counter(impl):
                    nsame += 1
                else:
                    ctx.fail("correspondence", "%s.mpe_from_plot differs from M_pick_mpe.mpe_from_plot_impl on a history without deselections: model %s, implementation %s"
                             % (X["cls"], sorted(mine.elements()), sorted(impl)), case, key="C16:%s:from-plot" % store.variant)
    ctx.extra["whole_pole_handovers_checked_in_coq"] = npole
    ctx.extra["mpe_from_plot_pipelines_checked_in_coq"] = nplot
    ctx.extra["pipelines_equal_to_present_resolution"] = nsame


# the parameter orders of the published signatures (hard-coded: a changed tree must not redefine them)
FDD_FROM_PLOT_ORDER = ("freqlim", "DF")                                            # FDD / FDD_MS .mpe_from_plot
EFDD_FROM_PLOT_ORDER = ("DF1", "DF2", "cm", "MAClim", "sppk", "npmax", "freqlim")  # EFDD / FSDD / EFDD_MS .mpe_from_plot
FDD_MPE_ORDER = ("sel_freq", "DF")                                                 # FDD / FDD_MS .mpe
EFDD_MPE_ORDER = ("sel_freq", "DF1", "DF2", "cm", "MAClim", "sppk", "npmax")       # EFDD / FSDD / EFDD_MS .mpe


def _res_modes(res):
    return {k: (None if getattr(res, k, None) is None else np.array(getattr(res, k))) for k in ("Fn", "Xi", "Phi")}


def _same_modes(a, b):
    return all((a[k] is None and b[k] is None) or (a[k] is not None and b[k] is not None and _same(a[k], b[k])) for k in ("Fn", "Xi", "Phi"))


def fdd_handover(ctx, rng, algs, setup_of, stores, fdd_funcs):
    """mpe_from_plot of every class with the singular-value dialog, session scripted through the real handlers.  Judged:
    (a) the frequencies handed to FDD_mpe / EFDD_mpe are the selection (argument of the real call, observed by a pass-through wrapper);
    (b) result.Fn / Xi / Phi afterwards are bit-equal to what the SAME object's non-interactive mpe(sel_freq = the selected lines, same
        parameters) stores: the interactive path extracts the modes of exactly the lines picked, paired position by position;
    (c) FDD / FDD_MS, lines picked at strict peaks of the first-to-second singular value ratio within +-DF: result.Fn is those lines,
        exactly, and result.Phi[:, k] is the first singular vector at line k scaled to unit largest component (property text);
    (d) positional and keyword call forms (published parameter order) give the same result."""
    seen = {}
    orig = {n: getattr(fdd_funcs, n) for n in ("FDD_mpe", "EFDD_mpe")}

    def wrap(n):
        sig = inspect.signature(orig[n])

        def w(*a, **k):
            seen[n] = list(sig.bind(*a, **k).arguments["sel_freq"])
            return orig[n](*a, **k)

        return w

    try:
        for n in orig:
            setattr(fdd_funcs, n, wrap(n))
        for nm in ("FDD", "EFDD", "FSDD", "FDD_MS", "EFDD_MS"):
            alg, setup = algs[nm], setup_of[nm]
            efdd = nm.startswith(("EFDD", "FSDD"))
            freq = np.asarray(alg.result.freq, dtype=float)
            df = float(freq[1] - freq[0])
            S = np.asarray(alg.result.S_val)
            ratio = S[0, 0, :] / S[1, 1, :]
            for s in range(ctx.n(4, 12)):
                DF = [0.1, 0.25, 0.15, 0.2][s % 4]
                w = int(round(DF / df)) + 2
                peaks = [k for k in range(w, len(freq) - w) if all(ratio[k] > ratio[j] for j in range(k - w, k + w + 1) if j != k)]
                targets = [1.5, 6.8, 4.2] if s % 2 == 0 else [6.8, 1.5]
                if not efdd and peaks:  # lines that are strict peaks of the band they are the centre of
                    ks = rng.sample(peaks, min(len(peaks), rng.randint(2, 4)))
                    targets = [float(freq[k]) for k in ks]
                fl = None
                if s % 2 == 1 or s == 0:
                    # explicit band with both edges between two real grid lines (3/4 of the way to the next line); the clicks
                    # just inside the edges designate the line just OUTSIDE the band (e.g. freqlim=(1, 7.56), click 7.557 -> 7.578)
                    k1, k2 = int(round(1.0 / df)) + (s // 2), int(round(7.5 / df)) - (s // 2)
                    fl = (float(freq[k1]) + 0.25 * df, float(freq[k2]) + 0.75 * df)
                    if efdd:
                        targets = targets + [fl[1] - 0.03 * df, fl[0] + 0.03 * df]
                st = Store(ctx, "FDD", freq.tolist(), "real-run:%s" % nm, freqlim=fl)
                stores.append(st)
                jit = [0.0, 0.01, -0.02] if efdd else [0.0, 0.25 * df, -0.25 * df]
                script = [("kd",)] + [("c", 1, f + rng.choice(jit), float(rng.randint(-40, 5))) for f in targets]
                if s % 3 == 1:
                    script.append(("c", 2, targets[0] + 0.3 * df, 0.0))
                if s % 3 == 2:
                    script.append(("c", 3, 0.0, 0.0))
                    script.append(("mv", None, targets[0], 0.0))
                script = add_quick_press(rng, tuple(script), 0.5)
                if efdd:
                    par = dict(DF1=[0.1, 0.15][s % 2], DF2=[1.0, 1.25][s % 2], cm=1, MAClim=[0.85, 0.9][s % 2], sppk=1, npmax=[6, 5][s % 2])
                    pos = tuple(par[k] for k in EFDD_FROM_PLOT_ORDER[:-1]) + (fl,)
                else:
                    par = dict(DF=DF)
                    pos = (fl, DF)
                kw = dict(par, **({} if fl is None else dict(freqlim=fl)))
                form = ["kw", "pos-setup", "pos-alg", "kw-alg"][s % 4]
                draw = s == 0
                if draw:
                    set_mode(True)
                _SESSION.update(script=script, rec=None, exc=None, obj=None, enum=bool(s % 2))
                seen.clear()
                err = None
                ctx.hist("mpe_from_plot call form", form)
                try:
                    if form == "kw":
                        setup.mpe_from_plot(nm, **kw)
                    elif form == "kw-alg":
                        alg.mpe_from_plot(**kw)
                    elif form == "pos-setup":
                        setup.mpe_from_plot(nm, *pos)
                    else:
                        alg.mpe_from_plot(*pos)
                except Exception as e:  # the extraction itself (peak fitting) is not the subject here
                    err = type(e).__name__
                finally:
                    if draw:
                        set_mode(False)
                rec, obj = _SESSION["rec"], _SESSION["obj"]
                case = st.case(script, cls=type(alg).__name__, form=form, params=jsonable(par))
                if not rec:
                    ctx.fail("oracle", "%s.mpe_from_plot never opened the dialog (%s)" % (nm, err), case, key="C16:FDD:handover")
                    continue
                fin = st.add_trace(script, rec, getattr(obj, "result", "missing"))
                ctx.count(dict(v=nm, real=True, s=script, draw=draw), nontrivial=True)
                ctx.hist("real-run hand-over", "%s%s" % (nm, " draw" if draw else ""))
                ctx.hist("mpe_from_plot driven through", type(alg).__name__)
                if fin is None:
                    continue
                got = seen.get(("EFDD" if efdd else "FDD") + "_mpe")
                if got is None or Counter(Fraction(float(f)) for f in got) != Counter(f for f, _ in fin[1]):
                    ctx.fail("oracle", "%s.mpe_from_plot handed %s to the extraction, the dialog selection is %s" % (nm, got, fmt_sel(fin[1])), case,
                             key="C16:FDD:handover")
                    continue
                want_fl = fl if fl is not None else (0.0, float(alg.fs) / 2)
                got_fl = getattr(obj, "freqlim", None)
                if not (got_fl is not None and len(got_fl) == 2 and float(got_fl[0]) == want_fl[0] and float(got_fl[1]) == want_fl[1] and getattr(obj, "plot", None) == "FDD"
                        and all(getattr(alg.run_params, k, None) == v for k, v in par.items())):
                    ctx.fail("oracle", "%s.mpe_from_plot called as %s with %s, freqlim=%s: the dialog shows %r and run_params hold %s" % (
                        nm, form, par, fl, got_fl, {k: getattr(alg.run_params, k, None) for k in par}), case, key="C16:FDD:call-form")
                    continue
                if err is not None:
                    ctx.hist("extraction after the dialog raised (not judged)", "%s %s" % (nm, err))
                    continue
                mine = _res_modes(alg.result)
                lines = [float(f) for f, _ in fin[1]]
                if len(np.asarray(mine["Fn"]).reshape(-1)) != len(lines):
                    ctx.fail("oracle", "%s.mpe_from_plot: number of extracted modes differs from the number of selected lines" % nm, case, key="C16:FDD:handover")
                    continue
                # (b) the same object's non-interactive extraction at the selected lines, keywords and positionally
                refs = []
                for rform in ("kw", "pos"):
                    try:
                        if rform == "kw":
                            alg.mpe(sel_freq=list(lines), **par)
                        else:
                            alg.mpe(list(lines), *[par[k] for k in (EFDD_MPE_ORDER if efdd else FDD_MPE_ORDER)[1:]])
                        refs.append(_res_modes(alg.result))
                    except Exception as e:
                        refs.append(type(e).__name__)
                if isinstance(refs[0], str) or isinstance(refs[1], str) or not _same_modes(refs[0], refs[1]):
                    ctx.fail("oracle", "%s.mpe(sel_freq, ...) called positionally (published order %s) and with keywords gives different modes (%s)" % (
                        nm, (EFDD_MPE_ORDER if efdd else FDD_MPE_ORDER), [r if isinstance(r, str) else "ok" for r in refs]), case, key="C16:FDD:call-form")
                elif not _same_modes(mine, refs[0]):
                    ctx.fail("oracle", "%s: the modes stored by mpe_from_plot are not the modes of the selected lines %s: Fn %s, mpe(sel_freq = those lines) gives %s"
                             % (nm, lines, np.asarray(mine["Fn"]).reshape(-1).tolist(), np.asarray(refs[0]["Fn"]).reshape(-1).tolist()), case, key="C16:FDD:handover-mode")
                # (c) FDD: lines picked at strict band peaks are returned themselves, with their own singular vector
                if not efdd:
                    Svec = np.asarray(alg.result.S_vec)
                    Fn = np.asarray(mine["Fn"]).reshape(-1)
                    for k, f in enumerate(lines):
                        idx = int(np.argmin(np.abs(freq - f)))
                        if idx not in peaks or freq[idx] != f:
                            ctx.not_judged += 1
                            continue
                        phi = Svec[0, :, idx]
                        phi = phi / phi[np.argmax(np.abs(phi))]
                        if Fn[k] != f or not _same(np.asarray(mine["Phi"])[:, k], phi):
                            ctx.fail("oracle", "%s: line %g was picked (a strict peak of the singular value ratio within +-%g Hz); the mode stored at its position has "
                                     "frequency %g / another line's shape" % (nm, f, DF, Fn[k]), case, key="C16:FDD:handover-mode")
                            break
    finally:
        for n in orig:
            setattr(fdd_funcs, n, orig[n])


def near_tie(T, script, rel=1e-9):
    """A picking / deselect-nearest click of the script whose nearest and second-nearest candidates are within relative
    1e-9 (float evaluation of |f - x| could order them differently from exact arithmetic): not judged."""
    allc = [f for col in T.cols for f in col if f is not None]
    for a in script:
        if a[0] != "c" or a[1] not in (1, 2):
            continue
        x = float(a[2])
        for cells in (T.cols if a[1] == 1 else [allc]):
            d = sorted(set(abs(float(f) - x) for f in cells if f is not None))
            if len(d) > 1 and d[1] - d[0] <= rel * max(d[1], 1e-300):
                return True
    return False


# =====================================================================================================================
def run(ctx):
    try:
        _run(ctx)
    finally:
        restore()


def load_corpus(ctx):
    files = sorted(glob.glob(os.path.join(VERIF, "corpus", "C16", "*.json")))
    cases = []
    for fn in files:
        cases.append((os.path.basename(fn), json.load(open(fn))))
    if ctx.replay:
        rp = json.load(open(ctx.replay))
        c = rp.get("case") or (rp.get("no_longer_checks") or [{}])[0].get("case")
        if c:
            cases.insert(0, ("replay", c))
    return cases


def _tab_from_json(c):
    def cv(v):
        return NAN if v in ("nan", None) else float(v)

    t = c["table"]
    if c["variant"] == "FDD":
        return [cv(v) for v in t]
    return [[cv(v) for v in row] for row in t]


def _run(ctx):
    from pyoma2.algorithms import EFDD, EFDD_MS, FDD, FDD_MS, FSDD, SSIcov, SSIcov_MS, SSIdat, SSIdat_MS, pLSCF, pLSCF_MS
    from pyoma2.functions import fdd as fdd_funcs
    from pyoma2.setup import MultiSetup_PreGER, SingleSetup

    rng, nrng = ctx.rng, ctx.np_rng
    ctx.extra["rule"] = ("a case = (dialog variant, pole table or frequency grid, event sequence); exhaustive enumeration of all sequences up to a length over a "
                         "fixed alphabet (fresh dialog and modifier already held) + random sequences of length <= 6 on random tables + scripted mpe_from_plot runs; "
                         "non-trivial when the selection is non-empty at some point of the sequence; distinct by hash of (variant, table, sequence)")
    ctx.assumptions += [
        "GUI construction is replaced from the harness process: SelFromPlot._initialize_gui -> stub whose root.mainloop() plays scripted events on the REAL handlers "
        "(on_key_press/on_key_release/on_click_SSI/on_click_FDD); redrawing (plot_stab/plot_svPSD) is stubbed except in the runs marked draw=True (Agg canvas)",
        "events are stand-ins for Matplotlib KeyEvent/MouseEvent carrying key, button (int or MouseButton), np.float64 xdata/ydata (None outside the axes)",
        "the checker M_pick.allowed is evaluated in Coq on every distinct recorded transition; C16_checker_decides_spec ties it to the declarative relation",
        "hand-over: extraction functions SSI_mpe / pLSCF_mpe themselves are the subject of C11; here their call through mpe_from_plot is observed on algorithm.result",
    ]
    set_mode(False)
    stores, hmeta = [], []

    # ---- real algorithm objects (one short run each; their pole tables are then replaced by synthetic ones for most cases)
    data = simulate(nrng)
    ss = SingleSetup(data, fs=20.0)
    algs = dict(SSI=SSIcov(name="SSI", br=10, ordmax=14), pLSCF=pLSCF(name="pLSCF", ordmax=10, nxseg=256), SSId=SSIdat(name="SSId", br=10, ordmax=14),
                FDD=FDD(name="FDD", nxseg=256), EFDD=EFDD(name="EFDD", nxseg=256), FSDD=FSDD(name="FSDD", nxseg=256))
    ss.add_algorithms(*algs.values())
    for nm in algs:
        ss.run_by_name(nm)
    # every multi-setup class that exposes mpe_from_plot, on a two-setup PreGER measurement (2 reference + 2 roving channels per setup)
    ms = MultiSetup_PreGER(fs=20.0, ref_ind=[[0, 1], [0, 1]], datasets=[simulate(nrng, N=1200, nch=4), simulate(nrng, N=1200, nch=4)])
    algs_ms = dict(SSI_MS=SSIcov_MS(name="SSI_MS", br=8, ordmax=10), SSId_MS=SSIdat_MS(name="SSId_MS", br=8, ordmax=10),
                   pLSCF_MS=pLSCF_MS(name="pLSCF_MS", ordmax=8, nxseg=256), FDD_MS=FDD_MS(name="FDD_MS", nxseg=256), EFDD_MS=EFDD_MS(name="EFDD_MS", nxseg=256))
    ms.add_algorithms(*algs_ms.values())
    for nm in algs_ms:
        ms.run_by_name(nm)
    algs.update(algs_ms)
    setup_of = {nm: (ms if nm in algs_ms else ss) for nm in algs}
    # the classes behind each stabilisation-chart dialog; the streams below go round them table by table
    hosts = {"SSI": ["SSI", "SSId", "SSI_MS", "SSId_MS"], "pLSCF": ["pLSCF", "pLSCF_MS"]}
    turn = {"SSI": 0, "pLSCF": 0}

    def host(variant):
        nm = hosts[variant][turn[variant] % len(hosts[variant])]
        turn[variant] += 1
        return setup_of[nm], nm

    real_names = ("SSI", "pLSCF", "SSId", "SSI_MS", "SSId_MS", "pLSCF_MS")
    real_tables = {nm: np.array(algs[nm].result.Fn_poles, dtype=float) for nm in real_names}
    real_aux = {nm: (algs[nm].result.Xi_poles, algs[nm].result.Phi_poles, algs[nm].result.Lab, algs[nm].run_params.ordmax) for nm in real_tables}

    # ---- 1. corpus / replay first
    for fname, c in load_corpus(ctx):
        variant = c["variant"]
        tab = _tab_from_json(c)
        script = tuple(tuple(a) for a in c["actions"] if a[0] != "close")  # every session is closed by the harness anyway
        st = Store(ctx, variant, tab, "corpus:" + fname, shape=c.get("shape"), freqlim=c.get("freqlim"), ordlim=c.get("ordlim"))
        stores.append(st)
        ctx.count(dict(corpus=fname, s=script))
        rec, exc, result = drive(fake_algo(variant, tab, c.get("shape"), c.get("ordlim")), variant, script, freqlim=c.get("freqlim"))
        st.add_trace(script, rec, result)
        if variant in ("SSI", "pLSCF"):
            for nm in hosts[variant]:
                inject(algs[nm], as_table(tab, c.get("shape")))
                handover(ctx, st, setup_of[nm], nm, variant, script, c.get("rtol"), hmeta)

    # ---- 2. exhaustive enumerations
    if ctx.quick():
        plan = [("SSI", ENUM_SSI, alphabet("SSI", False), 3, "full"), ("pLSCF", ENUM_SSI, alphabet("pLSCF", True), 3, "small"),
                ("FDD", ENUM_FDD, alphabet("FDD", True), 3, "small")]
    else:
        plan = [("SSI", ENUM_SSI, alphabet("SSI", False), 3, "full"), ("SSI", ENUM_SSI, alphabet("SSI", True), 4, "small"),
                ("pLSCF", ENUM_SSI, alphabet("pLSCF", False), 3, "full"), ("pLSCF", ENUM_SSI, alphabet("pLSCF", True), 4, "small"),
                ("FDD", ENUM_FDD, alphabet("FDD", False), 3, "full"), ("FDD", ENUM_FDD, alphabet("FDD", True), 4, "small")]
    for variant, tab, letters, maxlen, tag in plan:
        mp = maxlen - 1 if (ctx.quick() or tag == "small") else maxlen
        stores.append(enumerate_sequences(ctx, variant, tab, letters, maxlen, tag, maxlen_populated=mp))
        ctx.sample(dict(variant=variant, table=jsonable(tab), alphabet=[list(a) for a in letters], maxlen=maxlen))
    # the same enumerations in dialogs constructed with explicit display limits whose edges fall between grid lines / poles
    # (0.75|1.5 and 3.0|3.75 for the FDD grid; 4|5 and 8.25|10 Hz, plotted orders 1..1 for the pole table): the alphabet's clicks
    # at 0.875, 4.0 (FDD) and 4.5, 9.75, 11.5 Hz, orders 0 and 2 (SSI/pLSCF) then designate lines / poles OUTSIDE the plotted band
    oplan = [("FDD", ENUM_FDD, alphabet("FDD", True), ctx.n(3, 4), "small", (1.0, 3.3125), None),
             ("SSI", ENUM_SSI, alphabet("SSI", True), ctx.n(2, 3), "small", (4.25, 9.0), (1, 1)),
             ("pLSCF", ENUM_SSI, alphabet("pLSCF", True), ctx.n(2, 3), "small", (4.25, 9.0), (1, 1))]
    # a table whose orders 0 and 2 hold the same frequency values (4.0 and 9.5): the alphabet's picks select both
    for variant in ("SSI", "pLSCF"):
        stores.append(enumerate_sequences(ctx, variant, ENUM_TIES, alphabet(variant, True), ctx.n(3, 4), "ties-across-orders", maxlen_populated=0))
    for variant, tab, letters, maxlen, tag, fl, ol in oplan:
        stores.append(enumerate_sequences(ctx, variant, tab, letters, maxlen, tag, maxlen_populated=maxlen - 1, freqlim=fl, ordlim=ol))

    # ---- 2a. display-limit stream: random tables / grids, dialogs constructed with explicit freqlim (and plotted order range) whose
    #          edges fall between grid lines; clicks just inside, exactly at and just outside each edge, and far outside
    nedge = 0
    for variant in ("FDD", "SSI", "pLSCF"):
        for t in range(ctx.n(20, 120)):
            table, fl, ol, xs, ys = edge_base(rng, variant)
            if variant == "FDD":
                st = Store(ctx, "FDD", table, "display-limits", freqlim=fl)
                algo = fake_algo("FDD", table)
            else:
                st = Store(ctx, variant, table, "display-limits", shape=table.shape, freqlim=fl, ordlim=ol)
                hs_, hn_ = host(variant)
                inject(algs[hn_], table)
            stores.append(st)
            for i, script in enumerate(add_quick_press(rng, h, 0.4) for h in edge_histories(rng, variant, xs, ys)):
                if variant == "FDD":
                    rec, exc, result = drive(algo, "FDD", script, enum=bool(i % 2), freqlim=fl)
                    st.add_trace(script, rec, result)
                else:
                    handover(ctx, st, hs_, hn_, variant, script, rng.choice([None, 0.0]), hmeta, enum=bool(i % 2))
                    rec = _SESSION["rec"] or []
                ctx.count(dict(v=variant, limits=[fl, ol], table=jsonable(st.T.raw), s=script), nontrivial=any(len(x[1]) > 0 for x in rec))
                nedge += 1
    ctx.extra["display_limit_histories"] = nedge

    # ---- 2t. exact frequency ties: perfectly stable poles (the same frequency value at several orders), both selected, session
    #          closed through the dialog's own close handler, hand-over through the real classes
    for variant in ("SSI", "pLSCF"):
        for t in range(ctx.n(30, 150)):
            A, hs = stable_base(rng)
            st = Store(ctx, variant, A, "stable-poles", shape=A.shape)
            stores.append(st)
            hs_, hn_ = host(variant)
            inject(algs[hn_], A)
            for i, script in enumerate(add_quick_press(rng, h, 0.5) for h in hs):
                handover(ctx, st, hs_, hn_, variant, script, rng.choice([None, 0.0, 1.0 / 64]), hmeta, enum=bool(i % 2))
                rec = _SESSION["rec"] or []
                ctx.count(dict(v=variant, stable=True, table=jsonable(st.T.raw), s=script), nontrivial=any(len(x[1]) > 0 for x in rec))
                ctx.hist("session closed via", _SESSION.get("closed_via"))
                ctx.hist("dialog built by", _SESSION.get("gui"))

    # ---- 2b. structured stream: selections of 3..6 entries whose orders repeat non-adjacently in frequency order (and equal
    #          frequencies at different orders), then every single deselect-nearest / deselect-one, then more picks
    nstruct = 0
    for variant in ("SSI", "pLSCF", "FDD"):
        for t in range(ctx.n(30, 150) if variant != "FDD" else ctx.n(20, 100)):
            table, picks = structured_base(rng, variant)
            if variant == "FDD":
                st = Store(ctx, "FDD", table, "structured")
                algo = fake_algo("FDD", table)
            else:
                st = Store(ctx, variant, table, "structured", shape=table.shape)
                hs_, hn_ = host(variant)
                inject(algs[hn_], table)
            stores.append(st)
            ctx.hist("structured: orders in frequency order", " ".join(str(o) for _, o in picks) if variant != "FDD" else "FDD k=%d" % len(picks))
            for i, script in enumerate(add_quick_press(rng, h, 0.6) for h in structured_histories(rng, variant, picks, table)):
                if variant == "FDD":
                    rec, exc, result = drive(algo, "FDD", script, enum=bool(i % 2))
                    st.add_trace(script, rec, result)
                else:
                    handover(ctx, st, hs_, hn_, variant, script, rng.choice([None, 1.0 / 64, 0.0]), hmeta, enum=bool(i % 2))
                    rec = _SESSION["rec"] or []
                ctx.count(dict(v=variant, structured=True, table=jsonable(st.T.raw), s=script), nontrivial=any(len(x[1]) > 0 for x in rec))
                nstruct += 1
    ctx.extra["structured_histories"] = nstruct

    # ---- 3. random sequences on random tables, hand-over through the real classes (SSI, pLSCF); FDD on random grids
    ntab = ctx.n(60, 400)
    for variant in ("SSI", "pLSCF"):
        for t in range(ntab):
            malformed = rng.random() < 0.18
            A, kind = random_table(rng, malformed)
            fl = None
            if rng.random() < 0.35:  # an arbitrary plotted band (dyadic edges, anywhere relative to the poles)
                lo = dy(rng, -1, 40)
                fl = (lo, lo + dy(rng, 1, 30))
            st = Store(ctx, variant, A, "random:%s" % kind, shape=A.shape, freqlim=fl)
            stores.append(st)
            hs_, hn_ = host(variant)
            inject(algs[hn_], A)
            ctx.hist("table shape (rows x orders)", "%dx%d" % A.shape)
            ctx.hist("table kind", kind)
            for s in range(ctx.n(6, 8)):
                script = random_script(rng, variant, A)
                rtol = rng.choice([None, None, 1.0 / 64, 0.0, 0.25])
                n0 = len(ctx.failures)
                handover(ctx, st, hs_, hn_, variant, script, rtol, hmeta, enum=bool(s % 2))
                rec = _SESSION["rec"] or []
                ctx.count(dict(v=variant, table=A.tolist(), s=script), nontrivial=any(len(x[1]) > 0 for x in rec))
                if s == 0 and t % 2 == 0:
                    # the same acting events with inert events (motion, scroll, release, other keys / buttons, clicks outside the axes)
                    # interleaved: the selection handed on must be the same, entry by entry (C16_same_acting_same_selection)
                    fin0 = list(rec[-1][1:]) if rec else None
                    pool = [float(v) for v in A.flatten() if not np.isnan(v)]
                    script2 = interleave_inert(rng, script, pool)
                    handover(ctx, st, hs_, hn_, variant, script2, rtol, hmeta, enum=bool(t % 2))
                    rec2 = _SESSION["rec"] or []
                    ctx.count(dict(v=variant, table=A.tolist(), s=script2, inert=True), nontrivial=any(len(x[1]) > 0 for x in rec2))
                    if fin0 is not None and rec2 and not _is_bad(rec[-1]) and not _is_bad(rec2[-1]) and to_state(rec[-1])[1] != to_state(rec2[-1])[1]:
                        ctx.fail("oracle", "SelFromPlot (%s): events that neither pick nor deselect (pointer motion, scrolling, button release, other keys / buttons, "
                                 "clicks outside the axes) changed the selection handed on: %s without them, %s with them"
                                 % (variant, fmt_sel(to_state(rec[-1])[1]), fmt_sel(to_state(rec2[-1])[1])), st.case(script2, without=[list(a) for a in script]),
                                 key="C16:%s:inert-event" % variant)
                    ctx.hist("inert events interleaved", variant)
                ctx.hist("sequence length", len(script))
                for a in script:
                    ctx.hist("action", a[0] if a[0] != "c" else "click-button-%s" % a[1])
                for e in _SESSION["exc"] or []:
                    if e:
                        ctx.hist("handler exception kinds (not compared)", e)
                if len(ctx.failures) > n0:
                    ctx.sample(dict(variant=variant, table=A.tolist(), script=[list(a) for a in script]))
                elif s == 0 and t < 2:
                    ctx.sample(dict(variant=variant, table=A.tolist(), script=[list(a) for a in script], final=fmt_sel(to_state(rec[-1])[1]) if rec else None))
    for t in range(ntab):
        n = rng.randint(0 if rng.random() < 0.1 else 1, 12)
        grid = sorted(rng.sample(range(0, 200), n))
        if grid and rng.random() < 0.15:
            grid.insert(rng.randrange(len(grid)), rng.choice(grid))  # a repeated / out-of-order line (malformed grid)
        grid = [g / 8.0 for g in grid]
        fl = None
        if rng.random() < 0.35:
            lo = dy(rng, -1, 15)
            fl = (lo, lo + dy(rng, 1, 15))
        st = Store(ctx, "FDD", grid, "random", freqlim=fl)
        stores.append(st)
        ctx.hist("FDD grid length", n)
        ctx.hist("explicit freqlim", fl is not None)
        algo = fake_algo("FDD", grid)
        for s in range(ctx.n(6, 8)):
            script = random_script(rng, "FDD", np.array(grid))
            rec, exc, result = drive(algo, "FDD", script, enum=bool(s % 2), freqlim=fl)
            st.add_trace(script, rec, result)
            ctx.count(dict(v="FDD", table=grid, s=script), nontrivial=any(len(x[1]) > 0 for x in rec))

    # ---- 4. real tables: SingleSetup + SSIcov / SSIdat / pLSCF run, scripted clicks at real poles, mpe_from_plot; a few with real drawing
    for nm in real_names:
        variant = "pLSCF" if nm.startswith("pLSCF") else "SSI"
        A = real_tables[nm]
        alg = algs[nm]
        alg.result.Fn_poles = A
        alg.result.Xi_poles, alg.result.Phi_poles, alg.result.Lab, alg.run_params.ordmax = real_aux[nm]
        alg.run_params.ordmin = 0
        realv = sorted(set(float(v) for v in A.flatten() if not np.isnan(v)))
        st0 = Store(ctx, variant, A.tolist(), "real-run:%s" % nm)
        stores.append(st0)
        st1 = st0
        if len(realv) > 3:  # a second dialog with an explicit band cutting between real poles
            st1 = Store(ctx, variant, A.tolist(), "real-run:%s" % nm, freqlim=(0.5 * (realv[0] + realv[1]), 0.5 * (realv[-2] + realv[-1])))
            stores.append(st1)
        cells = [(r, o) for r in range(A.shape[0]) for o in range(A.shape[1]) if not np.isnan(A[r, o])]
        if not cells:
            ctx.note("real %s run produced no retained pole; real-table hand-over skipped" % nm)
            continue
        nscripts = ctx.n(4, 24)
        for s in range(nscripts):
            picks = [cells[i] for i in nrng.choice(len(cells), size=min(len(cells), int(nrng.integers(2, 5))), replace=False)]
            picks.sort(key=lambda ro: -A[ro])  # descending frequency: the order of the clicks is not the sorted order
            if s % 3 == 1:
                rng.shuffle(picks)
            script = [("kd",)]
            for (r, o) in picks:
                script.append(("c", 1, float(A[r, o]) + rng.choice([0.0, 0.001, -0.001]), o + rng.choice([0.0, 0.25, -0.25, 0.375])))
            if s % 2 == 1:
                script.append(("c", 2, float(A[picks[0]]) + 0.002, 0.0))
            if s % 4 == 3:
                script.append(("c", 3, 1.0, 1.0))
                script.append(("ku",))
                script.append(("c", 1, float(A[picks[-1]]), float(picks[-1][1])))
            script = add_quick_press(rng, tuple(script), 0.5)
            st = st1 if s % 2 == 0 else st0
            if near_tie(st.T, script):
                ctx.not_judged += 1
                continue
            draw = s == 0
            if draw:
                set_mode(True)
            try:
                handover(ctx, st, setup_of[nm], nm, variant, script, None if s % 2 else 0.02, hmeta)
            finally:
                if draw:
                    set_mode(False)
            rec = _SESSION["rec"] or []
            ctx.count(dict(v=nm, real=True, s=script, draw=draw), nontrivial=any(len(x[1]) > 0 for x in rec))
            ctx.hist("real-run hand-over", "%s%s" % (nm, " draw" if draw else ""))
    # FDD / EFDD / FSDD / FDD_MS / EFDD_MS: the frequencies handed to the extraction function are the selection, and the modes stored
    # afterwards are those lines' modes
    fdd_handover(ctx, rng, algs, setup_of, stores, fdd_funcs)

    # ---- 5. the Coq side: checker on every distinct transition, model of the extraction on every hand-over
    batch = Batch()
    evaluate(ctx, stores, batch)
    evaluate_handover(ctx, hmeta, batch)
    batch.run(ctx)
