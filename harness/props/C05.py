"""C05 - pLSCF recovers an exactly rational spectrum and reports its poles.
Model: coq/Model/M_plscf.v; theorems: coq/Properties/C05.v.

What is executed against the implementation (function input/output level only):
  * plscf.pLSCF on EXACTLY rational spectra Sy(x_k) = B(x_k) A(x_k)^-1 built here from random real polynomial
    matrices: (oracle) returned Ad/Bn at order n vs the true coefficients under the library's normalisation;
    (model) the division-free residual model plscf_resid_l evaluated exactly in Qc on the returned coefficients
    (theorem C05_resid_zero_exact: zero residual + constraint block = I  <=>  the true normalised coefficients);
  * plscf.rmfd2ac on short dyadic coefficient blocks vs the exact model rmfd2ac_l (exact Gauss-Jordan in Qc);
  * plscf.pLSCF_poles vs the model poles_l through the transcendental boundary (witness eigen-decomposition and
    logarithm computed here with NumPy on the matrices rmfd2ac returned), per column as multisets of joint cells;
    (oracle) the order-n column vs the roots of det A(z) solved independently (generalised eigenproblem of another
    linearisation) mapped to continuous time, exactly one pole per root with non-positive real part, rest NaN;
  * class level: pLSCF.run through SingleSetup on a stubbed spectrum estimate.
"""
import glob
import json
import os
from fractions import Fraction

import numpy as np
import scipy.linalg
from scipy.optimize import linear_sum_assignment

from common import VERIF, clist, parse_mat, parse_q
from pyoma2.functions import plscf

HEADER = "From PyOMA.Model Require Import M_plscf."
TOL_MODEL = 1e-9   # model vs implementation (DESIGN 3.5)
TOL_COEF = 1e-8    # recovered coefficients vs truth (property: exact recovery, conditioning guard below)
TOL_POLE = 1e-6    # reported poles vs independently computed roots


# ----------------------------------------------------------------------------- generation
def dyad(rng, shape, amp=16, den=8):
    return rng.integers(-amp, amp + 1, size=shape) / float(den)


def true_roots(A):
    """Roots of det(sum_i A_i z^i) with latent vectors: generalised eigenproblem of the bottom-row linearisation
    (no inverse of A_n, other block order than plscf.rmfd2ac)."""
    n = A.shape[0] - 1
    m = A.shape[1]
    L0 = np.zeros((n * m, n * m))
    L1 = np.eye(n * m)
    for i in range(n - 1):
        L0[i * m:(i + 1) * m, (i + 1) * m:(i + 2) * m] = np.eye(m)
    for i in range(n):
        L0[(n - 1) * m:, i * m:(i + 1) * m] = -A[i]
    L1[(n - 1) * m:, (n - 1) * m:] = A[n]
    w, V = scipy.linalg.eig(L0, L1)
    return w, V[:m, :]


def root_sensitivity(A):
    """max_j eps * kappa_j / (|z_j| |log z_j|): first-order bound (in units of rounding) on the relative error of the
    continuous-time pole log(z_j)/dt of a backward-stable eigen-solution of the linearised polynomial eigenproblem;
    kappa_j = |y_j| |x_j| (|L0| + |z_j| |L1|) / |y_j^H L1 x_j| from the left/right eigenvectors of the harness's own pencil."""
    n = A.shape[0] - 1
    m = A.shape[1]
    L0 = np.zeros((n * m, n * m))
    L1 = np.eye(n * m)
    for i in range(n - 1):
        L0[i * m:(i + 1) * m, (i + 1) * m:(i + 2) * m] = np.eye(m)
    for i in range(n):
        L0[(n - 1) * m:, i * m:(i + 1) * m] = -A[i]
    L1[(n - 1) * m:, (n - 1) * m:] = A[n]
    w, vl, vr = scipy.linalg.eig(L0, L1, left=True, right=True)
    n0, n1 = np.linalg.norm(L0, 2), np.linalg.norm(L1, 2)
    worst = 0.0
    for j in range(len(w)):
        den = abs(vl[:, j].conj() @ L1 @ vr[:, j])
        if den == 0 or not np.isfinite(w[j]) or w[j] == 0:
            return np.inf
        kappa = np.linalg.norm(vl[:, j]) * np.linalg.norm(vr[:, j]) * (n0 + abs(w[j]) * n1) / den
        worst = max(worst, kappa / (abs(w[j]) * max(abs(np.log(complex(w[j]))), 1e-300)))
    return float(np.finfo(float).eps * worst)


def gen_near_monic(rng, n, Nch, Nref, d, lo, tries=100000):
    """Polynomial matrices whose LEADING coefficient is I + D, |D| ~ d (d = 0: exactly I): lo=True with A_0 = I
    (a normalised "LO" model with nearly self-reciprocal denominator), lo=False with a generic A_0 (a perturbed "HI" model)."""
    for _ in range(tries):
        A = dyad(rng, (n + 1, Nch, Nch))
        # D = diagonal of size d plus off-diagonal entries of size min(d, 5e-9): a leading coefficient that an absolute/relative
        # closeness test (np.allclose defaults: 1e-8 + 1e-5 |b|) takes for the identity although it is not
        D = np.diag(d * rng.uniform(0.3, 1.0, size=Nch) * rng.choice([-1.0, 1.0], size=Nch))
        off = min(d, 5e-9) * rng.uniform(0.3, 1.0, size=(Nch, Nch)) * rng.choice([-1.0, 1.0], size=(Nch, Nch))
        A[n] = np.eye(Nch) + D + off * (1 - np.eye(Nch))
        if lo:
            A[0] = np.eye(Nch)
        elif np.linalg.cond(A[0]) > 12:
            continue
        z, _ = true_roots(A)
        if not np.all(np.isfinite(z)):
            continue
        r = np.abs(z)
        if r.min() < 0.2 or r.max() > 5 or np.abs(r - 1).min() < 0.06:
            continue
        dd = np.abs(z[:, None] - z[None, :]) + 10 * np.eye(len(z))
        if dd.min() < (0.08 if n * Nch <= 9 else 0.03):
            continue
        B = dyad(rng, (n + 1, Nref, Nch))
        if np.abs(B).max() == 0:
            continue
        return A, B
    raise RuntimeError("gen_near_monic: no acceptable draw")


def polyval_mat(C, z):
    return sum(C[i] * z ** i for i in range(C.shape[0]))


def gen_system(rng, n, Nch, Nref, tries=100000):
    """Well-conditioned real polynomial matrices A (Nch x Nch), B (Nref x Nch) of order n: A_0, A_n well conditioned,
    roots of det A(z) simple, away from 0, from each other and from the unit circle (where the spectrum is sampled)."""
    sep = 0.08 if n * Nch <= 9 else 0.03
    for _ in range(tries):
        A = dyad(rng, (n + 1, Nch, Nch))
        # keep the extreme coefficients dominant enough to be well conditioned
        if np.linalg.cond(A[0]) > 12 or np.linalg.cond(A[n]) > 12:
            continue
        z, _ = true_roots(A)
        if not np.all(np.isfinite(z)):
            continue
        r = np.abs(z)
        if r.min() < 0.2 or r.max() > 5 or np.abs(r - 1).min() < 0.06:
            continue
        d = np.abs(z[:, None] - z[None, :]) + 10 * np.eye(len(z))
        if d.min() < sep:
            continue
        B = dyad(rng, (n + 1, Nref, Nch))
        if np.abs(B).max() == 0:
            continue
        return A, B
    raise RuntimeError("gen_system: no acceptable draw for n=%d Nch=%d" % (n, Nch))


def basis(Nf, dt, sgn):
    """The basis-function values exactly as plscf.pLSCF forms them (witness input of the model)."""
    fs = 1 / dt
    freq = np.linspace(0.0, fs / 2, Nf)
    omega = 2 * np.pi * freq
    return np.exp(sgn * 1j * omega * dt)


def spectrum(A, B, Nf, sgn):
    """Sy[o, c, k] = (B(x_k) A(x_k)^-1)[o, c] at x_k = exp(sgn i pi k/(Nf-1)) (independent formula for the lines)."""
    Nref, Nch = B.shape[1], B.shape[2]
    Sy = np.zeros((Nref, Nch, Nf), complex)
    worst = 0.0
    for k in range(Nf):
        x = np.exp(sgn * 1j * np.pi * k / (Nf - 1))
        Az = polyval_mat(A, x)
        worst = max(worst, np.linalg.cond(Az))
        Sy[:, :, k] = np.linalg.solve(Az.T, polyval_mat(B, x).T).T
    return Sy, worst


def ls_condition(A, B, Sy, Nf, sgn, fix):
    """Condition number of the constrained linear least-squares problem the property is about (harness guard):
    unknowns = free blocks of alpha and all beta_o, equations = all lines, real and imaginary parts."""
    n = A.shape[0] - 1
    Nref, Nch = B.shape[1], B.shape[2]
    x = np.exp(sgn * 1j * np.pi * np.arange(Nf) / (Nf - 1))
    free = [i for i in range(n + 1) if i != fix]
    cols = len(free) * Nch + Nref * (n + 1)
    J = np.zeros((Nref * Nf, cols), complex)
    for o in range(Nref):
        for k in range(Nf):
            row = o * Nf + k
            for a, i in enumerate(free):
                J[row, a * Nch:(a + 1) * Nch] = -x[k] ** i * Sy[o, :, k]
            for i in range(n + 1):
                J[row, len(free) * Nch + o * (n + 1) + i] = x[k] ** i
    Jr = np.vstack([J.real, J.imag])
    s = np.linalg.svd(Jr, compute_uv=False)
    return s[0] / s[-1]


# ----------------------------------------------------------------------------- oracle pieces (property text in NumPy)
def lam_shift(method, nxseg, dt):
    """Witness of the additive exponential-window correction of ac2mp_poly (methodSy='cor' only; same float operations)."""
    if method == "cor":
        tau = -(nxseg - 1) / np.log(0.01)
        return 1 / (tau * dt)
    return 0.0


def expected_poles(A, B, dt, method, nxseg):
    """One entry per root of det A(z) with non-positive continuous-time real part: (fn, xi, shape)."""
    z, V = true_roots(A)
    out, margin = [], np.inf
    for j in range(len(z)):
        lam = np.log(complex(z[j])) / dt
        margin = min(margin, abs(lam.real) / abs(lam))
        if lam.real > 0:
            continue
        # latent vector by SVD of A(z) (independent of the eigen solver above)
        _, s, Vh = np.linalg.svd(polyval_mat(A, z[j]))
        v = Vh[-1].conj()
        sh = polyval_mat(B, z[j]) @ v
        i = int(np.argmax(np.abs(sh)))
        a = np.sort(np.abs(sh))[::-1]
        tie = len(a) > 1 and (a[0] - a[1]) <= 1e-7 * a[0]
        out.append(dict(fn=abs(lam) / (2 * np.pi), xi=-lam.real / abs(lam), phi=sh / sh[i], tie=tie, z=complex(z[j])))
    return out, margin


def match_cells(exp, got, tol, use_phi=True, use_val=True):
    """Minimum-cost one-to-one matching between expected and reported cells; returns the worst scaled distance."""
    if len(exp) != len(got):
        return np.inf
    if not exp:
        return 0.0
    fscale = max(1.0, max(e["fn"] for e in exp))
    cost = np.zeros((len(exp), len(got)))
    for i, e in enumerate(exp):
        for j, g in enumerate(got):
            c = max(abs(e["fn"] - g["fn"]) / fscale, abs(e["xi"] - g["xi"])) if use_val else 0.0
            if use_phi and not e.get("tie") and not g.get("tie"):
                c = max(c, float(np.abs(np.asarray(e["phi"]) - np.asarray(g["phi"])).max()))
            cost[i, j] = c
    r, c = linear_sum_assignment(np.minimum(cost, 1e3))
    return float(cost[r, c].max())


def column_cells(Fn, Xi, Phi, Lam, k):
    """Cells of column k of the reported tables: list of dicts (non-NaN) and the joint-NaN bookkeeping."""
    rows = Fn.shape[0]
    cells, nan_rows, inconsistent = [], 0, []
    for r in range(rows):
        f_nan = bool(np.isnan(Fn[r, k]))
        x_nan = bool(np.isnan(Xi[r, k]))
        p_nan = bool(np.all(np.isnan(Phi[r, k, :])))
        p_any = bool(np.any(np.isnan(Phi[r, k, :])))
        l_nan = bool(np.isnan(Lam[r, k])) if Lam is not None else f_nan
        if f_nan and x_nan and p_nan and l_nan:
            nan_rows += 1
        elif not (f_nan or x_nan or p_any or l_nan):
            a = np.sort(np.abs(Phi[r, k, :]))[::-1]
            cells.append(dict(fn=float(Fn[r, k]), xi=float(Xi[r, k]), phi=np.array(Phi[r, k, :]), row=r,
                              lam=complex(Lam[r, k]) if Lam is not None else None))
        else:
            inconsistent.append((r, f_nan, x_nan, p_nan, l_nan))
    return cells, nan_rows, inconsistent


# ----------------------------------------------------------------------------- model glue
def me(x):
    """float -> (m, e) with x = m * 2**e exactly."""
    n, d = float(x).as_integer_ratio()
    return n, -(d.bit_length() - 1)


def zflat(vals):
    """Flat Coq [list Z] literal: mantissa/exponent pairs of the given floats (decoded by M_plscf.dec)."""
    out = []
    for x in vals:
        m, e = me(x)
        out.append("%d; %d" % (m, e))
    if len(out) <= 300:
        return "[" + "; ".join(out) + "]%Z"
    # long literals overflow coqc's stack: concatenate pieces
    pieces = ["[" + "; ".join(out[i:i + 300]) + "]%Z" for i in range(0, len(out), 300)]
    expr = pieces[-1]
    for pc_ in reversed(pieces[:-1]):
        expr = "(List.app %s %s)" % (pc_, expr)
    return expr


def cflat(zs):
    for z in zs:
        z = complex(z)
        yield z.real
        yield z.imag


def witness_columns(Ad, Bn, dt):
    """Per order: (C matrix, cells) with the eigen-decomposition and logarithm computed here (NumPy), on the
    matrices plscf.rmfd2ac returns; the same elementary float operations as ac2mp_poly so that the blanking
    decisions are taken on identical numbers."""
    cols, resid = [], 0.0
    for ii in range(len(Ad)):
        A, C = plscf.rmfd2ac(Ad[ii], Bn[ii])
        lam_d, V = np.linalg.eig(A)
        # eig contract (checked here on every case): A V = V diag(lam_d)
        resid = max(resid, float(np.abs(A @ V - V * lam_d[None, :]).max()) / max(1.0, float(np.abs(A).max())))
        with np.errstate(all="ignore"):
            lambd = np.log(lam_d) * (1 / dt)
        cells = []
        for j in range(len(lam_d)):
            z = complex(lam_d[j])
            L = None if z == 0 else complex(lambd[j])
            if L is not None and not (np.isfinite(L.real) and np.isfinite(L.imag)):
                L = None
            cells.append((z, L, V[:, j]))
        cols.append((C, cells))
    return cols, resid


def poles_expr(cols, Nref, shift):
    items = []
    for C, cells in cols:
        N = len(cells)
        vals = [float(x) for x in np.asarray(C).reshape(-1)]
        for (z, L, q) in cells:
            vals += [z.real, z.imag, 0.0 if L is None else 1.0, 0.0 if L is None else L.real, 0.0 if L is None else L.imag]
            vals += list(cflat(q))
        items.append("(%d%%nat, %s)" % (N, zflat(vals)))
    sm, se = me(shift)
    e = "show_poles (poles_z %d (%d) (%d) %s)" % (Nref, sm, se, clist(items))
    # coqc's printer overflows its stack on result strings beyond ~30k characters: such cases keep the oracle only
    ncell = sum(len(cells) for _, cells in cols)
    rows = max(len(cells) for _, cells in cols)
    est = ncell * (190 + 75 * (Nref + 1)) + 16 * rows * len(cols)
    return e if len(e) <= 90000 and est <= 22000 else None


def parse_tab(s, f):
    rows = []
    for r in s.split(";"):
        rows.append([None if t == "nan" else f(t) for t in r.split(" ")] if r != "" else [])
    return rows


def parse_poles(s):
    fn_s, xi_s, phi_s, lam_s = s.split("|")
    def fq(t):
        if "p" in t:  # compact dyadic "<numerator>p<k>" = numerator / 2**k (M_plscf.showDq)
            m, k = t.split("p")
            return float(Fraction(int(m), 2 ** int(k)))
        return float(parse_q(t))

    pc = lambda t: complex(fq(t.split(",")[0]), fq(t.split(",")[1]))
    fn = parse_tab(fn_s, lambda t: np.sqrt(fq(t)) / (2 * np.pi))
    xi = parse_tab(xi_s, lambda t: fq(t.split(",")[0]) / np.sqrt(fq(t.split(",")[1])))
    phi = parse_tab(phi_s, lambda t: np.array([pc(u) for u in t.split("@")[0].split("_")]) / pc(t.split("@")[1]))
    lam = parse_tab(lam_s, pc)
    return fn, xi, phi, lam


def compare_tables_with_model(ctx, case, tables, model_s, cols, key):
    """Per column: multiset of joint (fn, xi, shape, lambda) cells and the NaN count, model vs implementation."""
    Fn, Xi, Phi, Lam = tables
    mfn, mxi, mphi, mlam = parse_poles(model_s)
    rows = len(mfn)
    ncol = len(mfn[0]) if rows else 0
    if Fn.shape != (rows, ncol) or Xi.shape != (rows, ncol) or Lam.shape != (rows, ncol) or Phi.shape[:2] != (rows, ncol):
        ctx.fail("correspondence", "pLSCF_poles: table shapes %s/%s/%s/%s differ from the model's %d x %d (rows = (ordmax+1) Nch, one column per order)"
                 % (Fn.shape, Xi.shape, Phi.shape, Lam.shape, rows, ncol), case, key="C05:%s:table-shape" % key)
        return False
    ok = True
    for k in range(ncol):
        got, got_nan, incons = column_cells(Fn, Xi, Phi, Lam, k)
        exp, exp_nan, tie = [], 0, False
        for r in range(rows):
            cellnone = [mfn[r][k] is None, mxi[r][k] is None, mphi[r][k] is None, mlam[r][k] is None]
            if all(cellnone):
                exp_nan += 1
            elif not any(cellnone):
                exp.append(dict(fn=mfn[r][k], xi=mxi[r][k], phi=mphi[r][k], lam=mlam[r][k]))
            else:
                # the model itself says the tables disagree on this cell (e.g. zero shape for a kept pole): compare pattern only
                exp.append(None)
        # a near tie in the normalising component is not judged (DESIGN 3.5)
        C, cells = cols[k]
        for (z, L, q) in cells:
            a = np.sort(np.abs(C @ q))[::-1]
            if len(a) > 1 and a[0] > 0 and (a[0] - a[1]) <= 1e-9 * a[0]:
                tie = True
            # an output vector that is pure cancellation (spurious pole of an over-fitted order: C q ~ 0) has no
            # meaningful float shape: the exact model and the float product differ by rounding/|C q| - not judged
            bound = float((np.abs(C) @ np.abs(q)).max())
            if 0 < a[0] < 1e-6 * bound:
                tie = True
        if any(e is None for e in exp) or incons:
            pat_m = sorted((mfn[r][k] is None, mxi[r][k] is None, mphi[r][k] is None, mlam[r][k] is None) for r in range(rows))
            pat_i = sorted((bool(np.isnan(Fn[r, k])), bool(np.isnan(Xi[r, k])), bool(np.all(np.isnan(Phi[r, k, :]))), bool(np.isnan(Lam[r, k]))) for r in range(rows))
            if pat_m != pat_i:
                ctx.fail("correspondence", "pLSCF_poles column %d: NaN pattern differs from the model" % k, case, key="C05:%s:nan-pattern" % key)
                ok = False
            continue
        if got_nan != exp_nan or len(got) != len(exp):
            ctx.fail("correspondence", "pLSCF_poles column %d: %d NaN cells / %d poles, model says %d / %d" % (k, got_nan, len(got), exp_nan, len(exp)),
                     case, key="C05:%s:nan-count" % key)
            ok = False
            continue
        if tie:
            ctx.not_judged += 1
        d = match_cells(exp, got, TOL_MODEL, use_phi=not tie)
        dl = 0.0
        if exp:
            lscale = max(1.0, max(abs(e["lam"]) for e in exp))
            cost = np.array([[abs(e["lam"] - g["lam"]) / lscale for g in got] for e in exp])
            r_, c_ = linear_sum_assignment(cost)
            dl = float(cost[r_, c_].max())
        if max(d, dl) > TOL_MODEL:
            ctx.fail("correspondence", "pLSCF_poles column %d: cells differ from the model by %.3g (fn/xi/shape) %.3g (lambda)" % (k, d, dl),
                     case, key="C05:%s:cells" % key)
            ok = False
    return ok


def match_cells_rel(exp, got):
    """One-to-one matching; returns (worst relative fn / absolute xi distance, worst shape distance) under it.
    Values decide the matching, shapes break the tie between the two members of a complex-conjugate pair."""
    if not exp:
        return 0.0, 0.0
    val = np.array([[max(abs(e["fn"] - g["fn"]) / max(e["fn"], 1e-300), abs(e["xi"] - g["xi"])) for g in got] for e in exp])
    phi = np.array([[0.0 if (e.get("tie") or g.get("tie")) else float(np.abs(np.asarray(e["phi"]) - np.asarray(g["phi"])).max()) for g in got] for e in exp])
    r, c = linear_sum_assignment(np.minimum(val, 1.0) * 1e6 + np.minimum(phi, 10.0))
    return float(val[r, c].max()), float(phi[r, c].max())


def direct_tols(A):
    """Tolerances of the coefficients-given-directly streams, as tight as the unchanged code's accuracy warrants: with
    q = root_sensitivity(A) the unchanged tree reaches (600 draws, all variants): pole values <= 1.7 q (max 8e-14), shapes
    <= 7 q (max 3.4e-14), realisation residual <= 3 q (max 1e-14).  30x margins, floor 1e-11."""
    q = root_sensitivity(A)
    return max(1e-11, 60 * q), max(1e-11, 250 * q), max(1e-11, 100 * q)


def oracle_order_column(ctx, case, tables, A, B, dt, method, nxseg, col, Nch, ordmax, key, tol=None, tight=None):
    """Property text: at order n one pole per root with non-positive real part (fn = |lam|/2pi, xi = -Re lam/|lam|),
    nothing else; every other cell NaN, jointly in the tables; (ordmax+1) Nch rows."""
    Fn, Xi, Phi = tables[0], tables[1], tables[2]
    Lam = tables[3] if len(tables) > 3 else None
    rows = (ordmax + 1) * Nch
    if Fn.shape[0] != rows or Fn.shape[1] != ordmax or Xi.shape != Fn.shape or Phi.shape[:2] != Fn.shape or Phi.shape[2] != B.shape[1]:
        ctx.fail("oracle", "pole tables have shapes %s %s %s, expected (%d, %d) and (%d, %d, %d): column k = order k+1, NaN-padded rows"
                 % (Fn.shape, Xi.shape, Phi.shape, rows, ordmax, rows, ordmax, B.shape[1]), case, key="C05:%s:table-shape" % key)
        return
    exp, margin = expected_poles(A, B, dt, method, nxseg)
    if 0 < margin < 1e-7:
        ctx.not_judged += 1  # a root within rounding of the unit circle: the blanking decision is not judged
        return
    got, nan_rows, incons = column_cells(Fn, Xi, Phi, Lam, col)
    if incons:
        ctx.fail("oracle", "order-n column: a cell is NaN in some tables and a number in others (row, fn, xi, phi, lambda NaN flags): %s" % (incons[:3],),
                 case, key="C05:%s:joint-nan" % key)
        return
    if len(got) != len(exp) or nan_rows != rows - len(exp):
        ctx.fail("oracle", "order-n column reports %d poles and %d NaN cells; det A(z) has %d roots with non-positive real part (of %d), so %d NaN cells are due"
                 % (len(got), nan_rows, len(exp), A.shape[1] * (A.shape[0] - 1), rows - len(exp)), case, key="C05:%s:count" % key)
        return
    # methodSy='cor' adds the library's exponential-window correction to the mapped roots (judged by C08, not here):
    # frequency/damping VALUES are judged with 'per'; count, joint NaN pattern and mode shapes with both
    use_val = method == "per"
    if tight is not None:
        tol_val, tol_phi = tight
        if not (np.isfinite(tol_val) and tol_val < TOL_POLE):
            tight = None
    if tight is not None:
        dval, dphi = match_cells_rel(exp, got)
        if use_val and dval > tol_val:
            ctx.fail("oracle", "order-n column: reported fn/xi differ from the roots of det A(z) mapped to continuous time by %.3g relative "
                     "(tolerance %.1g from the conditioning of the roots; the unchanged code reaches rounding level here)" % (dval, tol_val),
                     case, key="C05:%s:values" % key)
        elif dphi > tol_phi:
            ctx.fail("oracle", "order-n column: reported mode shapes (B(z) v, unity-normalised) differ by %.3g (tolerance %.1g)" % (dphi, tol_phi),
                     case, key="C05:%s:shapes" % key)
        return
    tol = TOL_POLE if tol is None else tol
    d = match_cells(exp, got, tol, use_val=use_val)
    if d > tol:
        dd = match_cells(exp, got, tol, use_phi=False, use_val=use_val)
        what = "fn/xi" if dd > tol else "mode shapes (B(z) v, unity-normalised)"
        ctx.fail("oracle", "order-n column: reported %s differ from the roots of det A(z) mapped to continuous time by %.3g" % (what, d),
                 case, key="C05:%s:%s" % (key, "values" if dd > tol else "shapes"))


def readonly(x):
    """A read-only presentation of an input array (memory-mapped files, broadcast views and frozen arrays are read-only):
    the library has no business writing into what it is given."""
    y = np.array(x, copy=True)
    y.setflags(write=False)
    return y


# Positional call forms.  The parameter order of every public entry point this check drives, as documented on the PRISTINE
# tree (hard-coded on purpose: a changed tree must not redefine the expected order).  In a share of the cases the same call is
# made (a) fully positionally in this order and (b) fully by keyword with these names; both must give the answer of the call
# the oracle judges, bit for bit (NaN = NaN).  A parameter inserted in the middle of a signature, or two swapped parameters,
# leave keyword callers untouched and silently re-bind the values of a positional caller.
POSITIONAL = {
    "pLSCF": ("Sy", "dt", "ordmax", "sgn_basf"),
    "pLSCF_poles": ("Ad", "Bn", "dt", "methodSy", "nxseg"),
    "rmfd2ac": ("A_den", "B_num"),
    "ac2mp_poly": ("A", "C", "dt", "methodSy", "nxseg"),
    "SingleSetup": ("data", "fs"),
    "pLSCF.__init__": ("run_params", "name"),
}


def same_bits(x, y):
    if isinstance(x, (list, tuple)) or isinstance(y, (list, tuple)):
        return isinstance(x, (list, tuple)) and isinstance(y, (list, tuple)) and len(x) == len(y) and all(same_bits(a, b) for a, b in zip(x, y))
    x, y = np.asarray(x), np.asarray(y)
    return x.shape == y.shape and bool(np.array_equal(x, y, equal_nan=True))


def both_forms(ctx, case, entry, fn, values, ref):
    """Call fn(*values) (documented order) and fn(**names) and require the answer `ref` of the call the oracle judges.
    Returns the positional answer (None when it raised)."""
    names = POSITIONAL[entry]
    shown = "%s(%s)" % (entry, ", ".join(names))
    try:
        with np.errstate(all="ignore"):
            pos = fn(*values)
    except Exception as e:  # noqa: BLE001
        ctx.fail("oracle", "%s called positionally in the documented order raised %s (%s) where the same call with named arguments returns"
                 % (shown, type(e).__name__, str(e)[:80]), dict(case, positional=list(names)), key="C05:%s:positional-call" % entry)
        return None
    if not same_bits(pos, ref):
        ctx.fail("oracle", "%s called positionally in the documented order does not return what the same call with named arguments returns: "
                 "the values are bound to other parameters" % shown, dict(case, positional=list(names)), key="C05:%s:positional-call" % entry)
        return pos
    try:
        with np.errstate(all="ignore"):
            kw = fn(**dict(zip(names, values)))
    except TypeError:
        return pos  # a renamed parameter is not what this clause is about
    if not same_bits(kw, ref):
        ctx.fail("oracle", "%s: the call with every argument named and the call in the documented positional order give different answers" % shown,
                 dict(case, positional=list(names)), key="C05:%s:positional-call" % entry)
    return pos


def coef_tol(cond):
    """Tolerance of exact recovery, scaled by the conditioning of the constrained least-squares problem: the code forms normal
    equations, so its error is ~ eps * cond(J)^2.  Calibrated on the unchanged tree (500 draws over all shapes, 700 in the corner
    Nref = 1, Nch 4-5, n 5-8): error <= 0.39 eps cond^2 (0.21 in the corner); 12 eps cond^2 leaves a 30x margin."""
    return max(TOL_COEF, 12 * np.finfo(float).eps * cond * cond)


def oracle_coefficients(ctx, case, Ad_n, Bn_n, A, B, sgn, cond, key, tol=None):
    n = A.shape[0] - 1
    fix = 0 if sgn == -1 else n
    Afi = np.linalg.inv(A[fix])
    At = np.array([A[i] @ Afi for i in range(n + 1)])
    Bt = np.array([B[i] @ Afi for i in range(n + 1)])
    if Ad_n.shape != At.shape or Bn_n.shape != Bt.shape:
        ctx.fail("oracle", "pLSCF order-n coefficients have shapes %s %s, expected %s %s" % (Ad_n.shape, Bn_n.shape, At.shape, Bt.shape),
                 case, key="C05:%s:coef-shape" % key)
        return False
    if not np.array_equal(Ad_n[fix], np.eye(A.shape[1])):
        ctx.fail("oracle", "normalisation constraint: A_den[%d] is not the identity for sgn_basf=%d" % (fix, sgn), case, key="C05:%s:constraint" % key)
        return False
    scale = max(1.0, np.abs(At).max(), np.abs(Bt).max())
    err = max(np.abs(Ad_n - At).max(), np.abs(Bn_n - Bt).max()) / scale
    tol = coef_tol(cond) if tol is None else tol
    if err > tol:
        ea = np.abs(Ad_n - At).max() / scale
        ctx.fail("oracle", "pLSCF does not reproduce the %s coefficients under the normalisation A_%s = I: error %.3g (tolerance %.1g, LS condition %.3g)"
                 % ("denominator" if ea > tol else "numerator", "0" if fix == 0 else "n", err, tol, cond), case, key="C05:%s:%s" % (key, "Ad" if ea > tol else "Bn"))
        return False
    return True


def resid_expr(Nf, Nch, Nref, n, sgn, Xo, Sy, Ad_n, Bn_n):
    cs = "LO" if sgn == -1 else "HI"
    xz = zflat(cflat(Xo.reshape(-1)))
    sz = zflat(cflat(Sy.reshape(-1)))                       # [o][c][k]
    az = zflat(Ad_n.reshape(-1))                            # rows i*Nch + a, columns c
    bz = zflat(np.moveaxis(Bn_n, 1, 0).reshape(-1))         # [o][i][c]
    return "show_resid (plscf_resid_z %d %d %d %d %s %s %s %s %s)" % (Nf, Nch, Nref, n, cs, xz, sz, az, bz)


def to_arr(s):
    return np.array([[float(x) for x in row] for row in parse_mat(s)])


# ----------------------------------------------------------------------------- the check
def load_corpus(kind):
    out = []
    for path in sorted(glob.glob(os.path.join(VERIF, "corpus", "C05", "*.json"))):
        d = json.load(open(path))
        if d.get("kind", "exact") != kind:
            continue
        for k in ("A", "B"):
            if k in d:
                d[k] = np.array(d[k], float)
        for k in ("Ad", "Bn"):
            if k in d:
                d[k] = [np.array(x, float) for x in d[k]]
        d["corpus"] = os.path.basename(path)
        out.append(d)
    return out


def run(ctx):
    rng = ctx.np_rng
    ctx.extra["rule"] = ("systems (n, Nch, Nref, Nf, sgn_basf, dt, methodSy) with random dyadic polynomial matrices A, B (rejection: cond(A_0), cond(A_n) <= 12, "
                         "roots simple, 0.2 <= |z| <= 5, >= 0.06 from the unit circle); a case is non-trivial when det A has roots on both sides of the unit circle "
                         "or Nref != Nch; distinct by hash of (parameters, A, B)")
    ctx.assumptions += [
        "oracle contracts (hypotheses of the C05 theorems): np.linalg.solve returns X with A X = B; np.linalg.eig returns eigenpairs (residual checked on every case); "
        "np.log of a complex number is finite iff the number is non-zero; Ro and the constrained block of M are invertible (two-sided)",
        "basis-function values Omega_k^i, eigen-decompositions and logarithms enter the executed model as witness rationals computed by the harness with NumPy",
        "the sign of the basis function is read as in the code: A(z) = sum_i A_i z^i in the variable z = exp(sgn_basf i omega dt); poles = log(roots of det A)/dt",
        "methodSy='cor': ac2mp_poly adds 1/(tau dt) to the mapped root (exponential-window correction, tau = -(nxseg-1)/ln 0.01, property C08); modelled, "
        "but the clause 'roots of det A mapped to continuous time, fn = |lam|/2pi, xi = -Re lam/|lam|' is judged on methodSy='per' only (count, NaN pattern, shapes on both)",
    ]
    quick = ctx.quick()
    exprs, metas = [], []

    # ---------------- 1. end to end on exactly rational spectra
    plan = [dict(d, src="corpus") for d in load_corpus("exact")]
    if quick:
        shapes = [(1, 2, 1), (1, 3, 2), (2, 2, 1), (2, 2, 2), (2, 3, 2), (3, 2, 2), (3, 3, 1), (1, 2, 3), (2, 3, 1), (3, 2, 1)]
        reps = 2
    else:
        shapes = [(n, c, r) for n in range(1, 9) for c in range(2, 6) for r in (1, 2, 3, 5)]
        reps = 2
    dts = [0.01, 0.005, 0.02, 0.1, 1 / 64.0, 0.25, 1.0, 0.04, 0.008, 0.03, 2.5, 1 / 128.0]
    for (n, Nch, Nref) in shapes:
        for rep in range(reps):
            sgn = -1 if rep % 2 == 0 else 1
            A, B = gen_system(rng, n, Nch, Nref)
            Nf = 4 * (n + 1) + int(rng.integers(0, 2 * (n + 1) + 1))
            method = "per" if rng.random() < 0.7 else "cor"
            plan.append(dict(n=n, Nch=Nch, Nref=Nref, Nf=Nf, sgn=sgn, dt=float(dts[int(rng.integers(0, len(dts)))]), method=method,
                             nxseg=int(rng.choice([64, 256, 1024])), A=A, B=B, extra_order=bool(rng.random() < 0.15), src="gen"))
    # "every number of frequency lines >= 4(n+1)": a spread of line counts, small, odd, powers of two +-1, large and awkward
    # (oracle level only, ordmax = n), crossed with awkward time steps
    awkward_dt = [0.04, 0.008, 0.03, 2.5, 1 / 128.0, 0.01, 1.0]
    fixed_nf = [None, 37, 513, 1024, 1025, 1026, 1300, 1751, 2049, 4099]
    if not quick:
        fixed_nf += [100, 257, 1023, 1027, 1537, 2047, 2050, 3001, 5000, 8193]
    extra_nf = [int(rng.integers(1025, 4200)) for _ in range(ctx.n(3, 10))] + [int(rng.integers(20, 1024)) for _ in range(ctx.n(2, 8))]
    for j, nf in enumerate(fixed_nf + extra_nf):
        n = 1 + j % 3 if nf is None or nf < 3000 else 1 + j % 2
        Nch = 2 + (j // 3) % 2
        Nref = 1 + (j % 2) if Nch == 2 else 2
        A, B = gen_system(rng, n, Nch, Nref)
        plan.append(dict(n=n, Nch=Nch, Nref=Nref, Nf=4 * (n + 1) if nf is None else max(nf, 4 * (n + 1)), sgn=-1 if j % 2 else 1,
                         dt=float(awkward_dt[j % len(awkward_dt)]), method="per" if j % 4 else "cor", nxseg=int(rng.choice([64, 1024])),
                         A=A, B=B, extra_order=False, oracle_only=True, src="lines"))
    # the ill-conditioned corner of the property's range: a single reference row, 4-5 channels, orders 5-8, few lines
    # (the reduced normal matrix has rcond 1e-8..1e-10 there and the code still recovers A to ~1e-8)
    for n in range(5, 9):
        for Nch in (4, 5):
            for i in range(3):
                for sgn in ((-1, 1) if not quick else ((-1,) if (n + Nch + i) % 2 else (1,))):
                    A, B = gen_system(rng, n, Nch, 1)
                    plan.append(dict(n=n, Nch=Nch, Nref=1, Nf=[4 * (n + 1), 4 * (n + 1) + 3, 64][i], sgn=sgn,
                                     dt=float(dts[int(rng.integers(0, len(dts)))]), method="per" if (n + i) % 4 else "cor", nxseg=int(rng.choice([64, 256])),
                                     A=A, B=B, extra_order=False, oracle_only=True, src="corner"))
    # "model orders up to ordmax >= n".  Above order n an exactly rational spectrum makes the constrained block of M exactly
    # singular: in floats its pivots are rounding noise, np.linalg.solve then raises when one of them happens to be exactly 0
    # (calibrated on the unchanged tree: 17 of 300 exact draws, 0 of 1600 with a 1e-7 relative full-rank floor).  Two streams:
    #  (a) floor = 1e-7 relative perturbation of Sy, ordmax in {n+1, n+2}: nothing is singular, so an exception is an oracle failure;
    #      the order-n model is judged at a floor-scaled tolerance (calibrated: coefficient error <= 0.9 floor cond, poles <= 0.4 floor cond);
    #  (b) exact spectra, ordmax in {n+1, n+2}: the order-n model is judged at full tolerance whenever the call returns; the number of
    #      calls that raise is judged against the baseline rate (5.7 %): a third or more of the stream raising is an oracle failure.
    n_above = ctx.n(24, 72)
    for j in range(ctx.n(10, 40) + n_above):
        n = 1 + j % 3
        Nch = 2 + (j // 3) % 2
        Nref = 1 + (j // 2) % 3
        A, B = gen_system(rng, n, Nch, Nref)
        extra = 1 + j % 2
        plan.append(dict(n=n, Nch=Nch, Nref=Nref, Nf=4 * (n + extra + 1) + int(rng.integers(0, 20)), sgn=-1 if (j // 2) % 2 else 1,
                         dt=float(dts[int(rng.integers(0, len(dts)))]), method="per" if j % 5 else "cor", nxseg=int(rng.choice([64, 256])),
                         A=A, B=B, extra_order=extra, oracle_only=True, src="above", floor=0.0 if j < n_above else 1e-7,
                         floor_seed=int(rng.integers(0, 2 ** 31))))
    # "deficient single reference": one reference row of B(z) carries no information on A by itself - a flat spectrum row
    # b(z) = c^T A(z), a duplicate of another row, or an identically zero row - placed first / middle / last among generic rows.
    # The stack of all references still determines A (judged only when the conditioning guard of the whole problem says so).
    for j, (kind_, pos) in enumerate([(k_, p_) for k_ in ("flat", "dup", "zero") for p_ in ("first", "middle", "last")] * ctx.n(1, 3)):
        n = 1 + j % 3
        Nch = 2 + (j // 2) % 2
        Nref = 3 if pos == "middle" or j % 2 else 2
        A, B = gen_system(rng, n, Nch, Nref)
        o = dict(first=0, middle=1, last=Nref - 1)[pos]
        other = (o + 1) % Nref
        if kind_ == "flat":
            c = dyad(rng, (Nch,), amp=8, den=4)
            c[0] = c[0] or 0.5
            B[:, o, :] = np.array([c @ A[i] for i in range(n + 1)])
        elif kind_ == "dup":
            B[:, o, :] = B[:, other, :]
        else:
            B[:, o, :] = 0.0
        plan.append(dict(n=n, Nch=Nch, Nref=Nref, Nf=4 * (n + 1) + int(rng.integers(0, 12)), sgn=-1 if j % 2 else 1,
                         dt=float(dts[int(rng.integers(0, len(dts)))]), method="per" if j % 4 else "cor", nxseg=int(rng.choice([64, 256])),
                         A=A, B=B, extra_order=False, oracle_only=j >= 6, src="deficient", deficient="%s reference row %s (row %d of %d)" % (kind_, pos, o, Nref)))
    above = dict(total=0, raised=0, first=None)
    n_model = 0
    for idx, it in enumerate(plan):
        n, Nch, Nref, Nf, sgn, dt, method, nxseg = it["n"], it["Nch"], it["Nref"], it["Nf"], it["sgn"], it["dt"], it["method"], it["nxseg"]
        A, B = it["A"], it["B"]
        case = dict(kind="exact-spectrum", n=n, Nch=Nch, Nref=Nref, Nf=Nf, sgn_basf=sgn, dt=dt, methodSy=method, nxseg=nxseg,
                    A=A.tolist(), B=B.tolist(), corpus=it.get("corpus"))
        if it.get("deficient"):
            case = dict(case, deficient=it["deficient"])
        ro = bool(it.get("readonly")) or idx % 3 == 1
        if ro:
            case = dict(case, readonly=True)
        Sy, worstA = spectrum(A, B, Nf, sgn)
        fix = 0 if sgn == -1 else n
        cond = ls_condition(A, B, Sy, Nf, sgn, fix)
        floor = float(it.get("floor") or 0.0)
        if floor:
            g = np.random.default_rng(int(it["floor_seed"]))
            Sy = Sy * (1 + floor * (g.standard_normal(Sy.shape) + 1j * g.standard_normal(Sy.shape)))
            case = dict(case, floor=floor, floor_seed=int(it["floor_seed"]),
                        note="Sy multiplied entrywise by 1 + floor*(N(0,1) + i N(0,1)) drawn from numpy default_rng(floor_seed)")
        if it.get("src") == "above" or it.get("ordmax"):
            case = dict(case, ordmax=int(it.get("ordmax") or n + int(it["extra_order"])))
        z, _ = true_roots(A)
        ctx.count(case, nontrivial=bool((np.abs(z) < 1).any() and (np.abs(z) > 1).any()) or Nref != Nch)
        ctx.hist("shape(n,Nch,Nref)", (n, Nch, Nref))
        ctx.hist("sgn_basf", sgn)
        ctx.hist("methodSy", method)
        ctx.hist("Nf", Nf if Nf > 64 else "<=64")
        ctx.hist("dt", dt)
        ctx.sample(dict(case, A=A.tolist()[:1], B=B.tolist()[:1], note="first coefficient blocks only shown"))
        if coef_tol(cond) > 1e-5:
            ctx.not_judged += 1  # the unchanged code itself cannot be expected to solve this draw to 1e-5 (cond(J) > 6e4)
            continue
        ordmax = int(it.get("ordmax") or n + int(it.get("extra_order") or 0))
        stat = (it.get("src") == "above" or bool(it.get("ordmax"))) and not floor and ordmax > n
        if stat:
            above["total"] += 1
        sg = sgn if rng.random() < 0.5 else float(sgn)
        try:
            Sy_in = readonly(Sy) if ro else Sy.copy()
            Ad, Bn = plscf.pLSCF(Sy_in, dt, ordmax, sgn_basf=sg)
            if not np.array_equal(Sy_in, Sy):
                ctx.fail("oracle", "pLSCF modified the spectrum it was given", case, key="C05:pLSCF:input-modified")
                continue
        except np.linalg.LinAlgError:
            if ordmax > n and floor:
                ctx.fail("oracle", "pLSCF raised LinAlgError for ordmax = %d > n = %d on a spectrum with a %.0e full-rank floor (nothing is singular): "
                         "the order-n model is never returned" % (ordmax, n, floor), case, key="C05:pLSCF:raises-above-order-n")
                continue
            if ordmax > n:
                if stat:
                    above["raised"] += 1
                    above["first"] = above["first"] or case
                ctx.not_judged += 1  # exact data make the constrained block singular above order n (DESIGN C05): judged as a rate below
                continue
            ctx.fail("oracle", "pLSCF raised LinAlgError on a well-conditioned exactly rational spectrum at ordmax = n", case, key="C05:pLSCF:linalg")
            continue
        except Exception as e:  # noqa: BLE001
            ctx.fail("oracle", "pLSCF raised %s on a well-conditioned exactly rational spectrum (Nref x Nch x Nf = %s)%s" % (
                type(e).__name__, Sy.shape, " handed over as a read-only array: %s" % str(e)[:80] if ro else ""),
                     case, key="C05:pLSCF:raise-readonly" if ro else "C05:pLSCF:raise")
            continue
        if len(Ad) != ordmax or len(Bn) != ordmax:
            ctx.fail("oracle", "pLSCF returned %d/%d coefficient sets for ordmax=%d" % (len(Ad), len(Bn), ordmax), case, key="C05:pLSCF:orders")
            continue
        # positional form (Sy, dt, ordmax, sgn_basf): all 'HI' cases (sgn_basf = +1 is not the default, so a value that lands on
        # another parameter leaves the 'LO' constraint in force) and a third of the 'LO' ones
        if Nf <= 300 and (sgn == 1 or idx % 3 == 0):
            both_forms(ctx, case, "pLSCF", plscf.pLSCF, (Sy_in, dt, ordmax, sg), (Ad, Bn))
        # every returned order: coefficient block shapes and the normalisation constraint
        bad_comp = None
        for k in range(ordmax):
            a_k, b_k = np.asarray(Ad[k]), np.asarray(Bn[k])
            if a_k.shape != (k + 2, Nch, Nch) or b_k.shape != (k + 2, Nref, Nch):
                bad_comp = "order %d: coefficient shapes %s %s, expected %s %s" % (k + 1, a_k.shape, b_k.shape, (k + 2, Nch, Nch), (k + 2, Nref, Nch))
            elif not np.array_equal(a_k[0 if sgn == -1 else k + 1], np.eye(Nch)):
                bad_comp = "order %d: the constrained denominator block is not the identity" % (k + 1)
            elif not (np.all(np.isfinite(a_k)) and np.all(np.isfinite(b_k))) and k == n - 1:
                bad_comp = "order %d: non-finite coefficients" % (k + 1)
            if bad_comp:
                break
        if bad_comp:
            ctx.fail("oracle", "pLSCF: " + bad_comp, case, key="C05:pLSCF:components")
            continue
        ok = oracle_coefficients(ctx, case, Ad[n - 1], Bn[n - 1], A, B, sgn, cond, "pLSCF", tol=(5 * floor * cond + 1e-8) if floor else None)
        # model: exact residuals of the returned coefficients (small shapes only)
        small = (n + 1) * Nch <= 8 and Nref <= 2 and Nf <= 16 and not it.get("oracle_only")
        if small and Ad[n - 1].shape == (n + 1, Nch, Nch) and Bn[n - 1].shape == (n + 1, Nref, Nch) and n_model < ctx.n(12, 40):
            n_model += 1
            Om = basis(Nf, dt, sgn)
            Xo = np.array([Om ** i for i in range(n + 1)]).T
            exprs.append(resid_expr(Nf, Nch, Nref, n, sgn, Xo, Sy, Ad[n - 1], Bn[n - 1]))
            metas.append(("resid", case, dict(Sy=Sy, al=Ad[n - 1], be=Bn[n - 1], n=n, Nch=Nch, Nref=Nref, Nf=Nf, oracle_ok=ok)))
        # poles of every returned order
        try:
            tables = plscf.pLSCF_poles([readonly(a) for a in Ad], [readonly(b) for b in Bn], dt, method, nxseg) if ro else plscf.pLSCF_poles(Ad, Bn, dt, method, nxseg)
        except Exception as e:  # noqa: BLE001
            if isinstance(e, np.linalg.LinAlgError) and ordmax > n and not floor:
                # the coefficients of an over-specified order on exact data are rounding noise (possibly non-finite or with a
                # singular leading block): same baseline fragility as above, judged as a rate
                if stat:
                    above["raised"] += 1
                    above["first"] = above["first"] or case
                ctx.not_judged += 1
                continue
            ctx.fail("oracle", "pLSCF_poles raised %s on the coefficients pLSCF returned" % type(e).__name__, case, key="C05:poles:raise")
            continue
        if method == "cor" or idx % 3 == 0:
            # methodSy='cor' with nxseg: the pair whose exchange changes the reported values (window correction on/off)
            both_forms(ctx, case, "pLSCF_poles", plscf.pLSCF_poles, (Ad, Bn, dt, method, nxseg), tables)
        oracle_order_column(ctx, case, tables, A, B, dt, method, nxseg, n - 1, Nch, ordmax, "e2e",
                            tol=max(TOL_POLE, 3 * floor * cond) if floor else max(TOL_POLE, coef_tol(cond)))
        if (n + 1) * Nch <= (12 if quick else 20) and not it.get("oracle_only"):
            try:
                cols, eres = witness_columns(Ad, Bn, dt)
            except Exception as e:  # noqa: BLE001
                ctx.fail("correspondence", "rmfd2ac/eig raised %s on the coefficients pLSCF returned" % type(e).__name__, case, key="C05:witness:raise")
                continue
            if eres > 1e-8:
                ctx.not_judged += 1
            else:
                pe = poles_expr(cols, Nref, lam_shift(method, nxseg, dt))
                if pe is not None:
                    exprs.append(pe)
                    metas.append(("poles", case, dict(tables=tables, cols=cols, key="e2e")))

    ctx.extra["above_order_n"] = dict(exact_calls=above["total"], raised=above["raised"])
    if above["total"] >= 12 and 3 * above["raised"] >= above["total"]:
        ctx.fail("oracle", "pLSCF raised LinAlgError on %d of %d exactly rational spectra with ordmax in {n+1, n+2} (np.linalg.solve on the unchanged tree: "
                 "about 1 in 18, only when a rounding-noise pivot is exactly 0): the order-n model is not returned for ordmax > n" % (above["raised"], above["total"]),
                 above["first"], key="C05:pLSCF:raises-above-order-n")

    # ---------------- 2. rmfd2ac on short dyadic blocks (exact model) + realisation oracle
    for k in range(ctx.n(24, 120)):
        p = int(rng.integers(1, 4 if quick else 7))
        m = int(rng.integers(1, 4 if quick else 6))
        l_ = int(rng.integers(1, 4 if quick else 6))
        if k % 5 == 0 and m == l_:
            l_ = m + 1
        A = dyad(rng, (p + 1, m, m), amp=12, den=4)
        while np.linalg.cond(A[p]) > 50:
            A = dyad(rng, (p + 1, m, m), amp=12, den=4)
        B = dyad(rng, (p + 1, l_, m), amp=12, den=4)
        near = None
        if k % 12 < 10 and k < (12 if quick else 60):
            # leading coefficient I + D, |D| = 1e-3 .. 1e-9 and exactly I; A_0 = I ("LO" normalisation) or generic ("HI"-like)
            near = ([1e-3, 1e-6, 1e-7, 1e-9, 0.0][k % 12 % 5], k % 12 < 5)
            p = min(max(p, 2) if near[1] else p, 3)  # 53-bit entries: keep the exact Qc solve (and its printed result) small
            m = min(max(m, 2), 3)
            A, B = gen_near_monic(rng, p, m, l_, near[0], near[1])
        degenerate = None
        if k % 7 == 3 and near is None:
            A[0, :, 0] = 0  # malformed stream: singular A_0 (root z = 0 next to the border zeros)
            degenerate = "singular A_0"
        if k % 7 == 5 and near is None:
            B[:, 0, :] = 0  # zero reference row
            degenerate = "zero B row"
        case = dict(kind="rmfd2ac", p=p, m=m, l=l_, A_den=A.tolist(), B_num=B.tolist(), degenerate=degenerate,
                    leading=None if near is None else "I + D, |D| = %g, A_0 %s" % (near[0], "= I" if near[1] else "generic"))
        ctx.count(case, nontrivial=p >= 2 or m != l_)
        ctx.hist("rmfd2ac(p,m,l)", (p, m, l_))
        ro = k % 3 == 1
        try:
            A_in, B_in = (readonly(A), readonly(B)) if ro else (A.copy(), B.copy())
            Ac, Cc = plscf.rmfd2ac(A_in, B_in)
        except Exception as e:  # noqa: BLE001
            ctx.fail("oracle", "rmfd2ac raised %s on coefficient blocks with an invertible leading block%s" % (type(e).__name__, " (read-only arrays)" if ro else ""),
                     dict(case, readonly=ro), key="C05:rmfd2ac:raise-readonly" if ro else "C05:rmfd2ac:raise")
            continue
        if not (np.array_equal(A_in, A) and np.array_equal(B_in, B)):
            ctx.fail("oracle", "rmfd2ac modified the coefficient arrays it was given", case, key="C05:rmfd2ac:input-modified")
            continue
        N = (p + 1) * m
        if Ac.shape != (N, N) or Cc.shape != (l_, N):
            ctx.fail("oracle", "rmfd2ac returned shapes %s %s, expected (%d,%d) (%d,%d)" % (Ac.shape, Cc.shape, N, N, l_, N), case, key="C05:rmfd2ac:shape")
            continue
        if k % 2 == 0:
            both_forms(ctx, case, "rmfd2ac", plscf.rmfd2ac, (A_in, B_in), (Ac, Cc))
        # property text: (A, C) realises the right matrix fraction - every latent pair (z, v) of A(z) is an eigenpair with output B(z) v
        if degenerate is None:
            z, V = true_roots(A)
            bad = 0.0
            for j in range(len(z)):
                if not np.isfinite(z[j]) or abs(z[j]) < 1e-6 or abs(z[j]) > 1e6:
                    continue
                _, s, Vh = np.linalg.svd(polyval_mat(A, z[j]))
                if s[-1] > 1e-9 * max(1.0, s[0]) or (len(s) > 1 and s[-2] < 1e-6 * s[0]):
                    continue
                v = Vh[-1].conj()
                w = np.concatenate([z[j] ** (p - 1 - jj) * v for jj in range(p)] + [v / z[j]])
                sc = max(1.0, float(np.abs(w).max())) * max(1.0, float(np.abs(Ac).max()), abs(z[j]))
                bad = max(bad, float(np.abs(Ac @ w - z[j] * w).max()) / sc,
                          float(np.abs(Cc @ w - polyval_mat(B, z[j]) @ v).max()) / (sc * max(1.0, float(np.abs(B).max()))))
            tol_real = direct_tols(A)[2]
            if bad > (tol_real if tol_real < 1e-7 else 1e-7):
                ctx.fail("oracle", "rmfd2ac: (A, C) is not a realisation of B(z) A(z)^-1: a latent pair of A(z) is not an eigenpair with output B(z) v (residual %.3g)" % bad,
                         case, key="C05:rmfd2ac:realisation")
            ev = np.linalg.eigvals(Ac)
            if np.sum(np.abs(ev) < 1e-9) < m:
                ctx.fail("oracle", "rmfd2ac: the state matrix has fewer than Nch zero eigenvalues (size (n+1) Nch, n Nch roots)", case, key="C05:rmfd2ac:border")
        exprs.append("show_rmfd (rmfd2ac_z %d %d %d %s %s)" % (m, l_, p, zflat(A.reshape(-1)), zflat(B.reshape(-1))))
        metas.append(("rmfd", case, dict(Ac=Ac, Cc=Cc)))

    # ---------------- 3. pLSCF_poles on coefficient lists given directly: several orders, true coefficients at order n
    direct = load_corpus("poles-direct")
    for k in range(-len(direct), ctx.n(20, 90)):
        if k < 0:
            it = direct[k + len(direct)]
            Ad, Bn, n, dt, method, nxseg = it["Ad"], it["Bn"], it["n"], it["dt"], it["method"], it["nxseg"]
            ordmax, Nch, Nref = len(Ad), Ad[0].shape[1], Bn[0].shape[1]
            A, B = Ad[n - 1], Bn[n - 1]
            degenerate = None
        else:
            ordmax = int(rng.integers(2, 5 if quick else 8))
            Nch = int(rng.integers(2, 4 if quick else 6))
            Nref = int(rng.integers(1, 4 if quick else 6))
            if k % 3 == 0 and Nref == Nch:
                Nref = Nch + 1 if Nch < 3 else Nch - 1
            n = int(rng.integers(1, ordmax + 1))
            dt = float(dts[int(rng.integers(0, len(dts)))])
            method = "per" if k % 3 else "cor"
            nxseg = int(rng.choice([32, 128, 1024]))
            if k < 10:
                # leading coefficient I + D (|D| = 1e-3, 1e-6, 1e-7, 1e-9, 0) with A_0 = I (k < 5) or generic A_0
                n = max(n, 2) if k < 5 else n
                A, B = gen_near_monic(rng, n, Nch, Nref, [1e-3, 1e-6, 1e-7, 1e-9, 0.0][k % 5], k < 5)
                method = "per" if k % 5 != 4 else method
            else:
                A, B = gen_system(rng, n, Nch, Nref)
            Ad, Bn = [], []
            for o in range(1, ordmax + 1):
                if o == n:
                    Ad.append(A.copy())
                    Bn.append(B.copy())
                else:
                    Ao = dyad(rng, (o + 1, Nch, Nch))
                    while np.linalg.cond(Ao[o]) > 50:
                        Ao = dyad(rng, (o + 1, Nch, Nch))
                    Ad.append(Ao)
                    Bn.append(dyad(rng, (o + 1, Nref, Nch)))
            degenerate = None
            if k % 7 == 6:
                Bn[n - 1][:, :, :] = 0  # malformed stream: vanishing numerator -> zero output vectors, shapes 0/0
                degenerate = "zero numerator at order n"
        case = dict(kind="poles-direct", ordmax=ordmax, n=n, Nch=Nch, Nref=Nref, dt=dt, methodSy=method, nxseg=nxseg,
                    Ad=[a.tolist() for a in Ad], Bn=[b.tolist() for b in Bn], degenerate=degenerate,
                    corpus=None if k >= 0 else direct[k + len(direct)]["corpus"])
        ctx.count(case, nontrivial=True)
        ctx.hist("poles-direct(ordmax,n,Nch,Nref)", (ordmax, n, Nch, Nref))
        ro = k % 3 == 1
        try:
            Ad_in = [readonly(a) if ro else a.copy() for a in Ad]
            Bn_in = [readonly(b) if ro else b.copy() for b in Bn]
            tables = plscf.pLSCF_poles(Ad_in, Bn_in, dt, method, nxseg)
        except Exception as e:  # noqa: BLE001
            ctx.fail("oracle", "pLSCF_poles raised %s on a valid coefficient list%s" % (type(e).__name__, " (read-only arrays)" if ro else ""),
                     dict(case, readonly=ro), key="C05:poles:raise-readonly" if ro else "C05:poles:raise")
            continue
        if not all(np.array_equal(x, y) for x, y in zip(Ad_in + Bn_in, Ad + Bn)):
            ctx.fail("oracle", "pLSCF_poles modified the coefficient arrays it was given", case, key="C05:poles:input-modified")
            continue
        if method == "cor" or k % 2 == 0:
            both_forms(ctx, case, "pLSCF_poles", plscf.pLSCF_poles, (Ad_in, Bn_in, dt, method, nxseg), tables)
        if degenerate is None:
            oracle_order_column(ctx, case, tables, A, B, dt, method, nxseg, n - 1, Nch, ordmax, "direct", tight=direct_tols(A)[:2])
        if degenerate is None and (method == "cor" or k % 2 == 0):
            # ac2mp_poly(A, C, dt, methodSy, nxseg) on the realisation of the order-n coefficients, in both call forms; the
            # property's oracle on its answer placed as the order-n column of otherwise empty tables
            try:
                A_ss, C_ss = plscf.rmfd2ac(A, B)
                mp = plscf.ac2mp_poly(A_ss, C_ss, dt, methodSy=method, nxseg=nxseg)
            except Exception as e:  # noqa: BLE001
                ctx.fail("oracle", "ac2mp_poly raised %s on the realisation of a valid order-n model" % type(e).__name__, case, key="C05:ac2mp_poly:raise")
                mp = None
            if mp is not None:
                both_forms(ctx, case, "ac2mp_poly", plscf.ac2mp_poly, (A_ss, C_ss, dt, method, nxseg), mp)
                rows = (ordmax + 1) * Nch
                fn1 = np.array(mp[0], float)
                fn1[np.isinf(fn1)] = np.nan  # a root at infinity/zero is no pole: blanked when the tables are assembled
                nr = len(fn1)
                if nr <= rows and np.asarray(mp[2]).shape == (nr, Nref):
                    T = [np.full((rows, ordmax), np.nan), np.full((rows, ordmax), np.nan),
                         np.full((rows, ordmax, Nref), np.nan, complex), np.full((rows, ordmax), np.nan, complex)]
                    T[0][:nr, n - 1], T[1][:nr, n - 1], T[2][:nr, n - 1, :], T[3][:nr, n - 1] = fn1, mp[1], mp[2], mp[3]
                    oracle_order_column(ctx, case, T, A, B, dt, method, nxseg, n - 1, Nch, ordmax, "ac2mp_poly", tight=direct_tols(A)[:2])
                else:
                    ctx.fail("oracle", "ac2mp_poly returned %d poles with shapes of size %s for a realisation of order (n+1) Nch = %d with %d outputs"
                             % (nr, np.asarray(mp[2]).shape, (n + 1) * Nch, Nref), case, key="C05:ac2mp_poly:shape")
        try:
            cols, eres = witness_columns(Ad, Bn, dt)
        except Exception as e:  # noqa: BLE001
            ctx.fail("correspondence", "rmfd2ac/eig raised %s on a valid coefficient list" % type(e).__name__, case, key="C05:witness:raise")
            continue
        if eres > 1e-8:
            ctx.not_judged += 1
            continue
        pe = poles_expr(cols, Nref, lam_shift(method, nxseg, dt))
        if pe is not None:
            exprs.append(pe)
            metas.append(("poles", case, dict(tables=tables, cols=cols, key="direct")))

    # ---------------- 4. class level: pLSCF.run through SingleSetup on a stubbed spectrum estimate
    class_level(ctx, rng, dts)

    # ---------------- model evaluation and comparison
    order = sorted(range(len(exprs)), key=lambda i: -len(exprs[i]))  # long (expensive) expressions first, one per shard
    heavy = [i for i in order if len(exprs[i]) > 6000 or exprs[i].startswith("show_resid")]
    light = [i for i in order if i not in set(heavy)]
    res = [None] * len(exprs)
    for grp, sh in ((heavy, 1 if len(heavy) <= 60 else 2), (light, 6)):
        out = ctx.coq_eval(HEADER, [exprs[i] for i in grp], shard=sh)
        for pos, i in enumerate(grp):
            res[i] = out[pos]
    for (kind, case, d), s in zip(metas, res):
        if kind == "resid":
            e1s, e2s = s.split("|")
            E1 = [to_arr(t) for t in e1s.split("#")]
            E2 = to_arr(e2s)
            n, Nch, Nref, Nf = d["n"], d["Nch"], d["Nref"], d["Nf"]
            amp = max(1.0, float(np.abs(d["al"]).max()), float(np.abs(d["be"]).max()))
            sy = max(1.0, float(np.abs(d["Sy"]).max()))
            scale = Nf * (n + 1) * Nch * sy * sy * amp
            worst = max([float(np.abs(E).max()) for E in E1] + [float(np.abs(E2).max()) if E2.size else 0.0]) / scale
            if E2.shape != (n * Nch, Nch) or any(E.shape != (n + 1, Nch) for E in E1) or worst > TOL_MODEL:
                ctx.fail("correspondence", "pLSCF: the returned coefficients are not a stationary point of the model's constrained least-squares problem "
                         "(exact residual %.3g of scale, normal equations R b + S a = 0 / free rows of sum S^T b + T a = 0)" % worst, case, key="C05:pLSCF:residual")
        elif kind == "rmfd":
            parts = s.split("|")
            if parts[0] != "ok":
                ctx.fail("correspondence", "rmfd2ac returned matrices where the model raises LinAlgError", case, key="C05:rmfd2ac:linalg")
                continue
            Am, Cm = to_arr(parts[1]), to_arr(parts[2])
            Ac, Cc = d["Ac"], d["Cc"]
            sA = max(1.0, float(np.abs(Am).max()))
            sC = max(1.0, float(np.abs(Cm).max()))
            m_ = case["m"]
            if Am.shape != Ac.shape or Cm.shape != Cc.shape or np.abs(Am - Ac).max() > TOL_MODEL * sA or np.abs(Cm - Cc).max() > TOL_MODEL * sC \
                    or not np.array_equal(Ac[m_:], Am[m_:]) or np.any(Ac[:, -m_:] != 0) or np.any(Cc[:, -m_:] != 0):
                ctx.fail("correspondence", "rmfd2ac differs from the model (bordered companion: first block row -A_n^-1 A_(n-1-j), identity sub-diagonal, zero last block column; "
                         "C blocks B_(n-1-j) - B_n A_n^-1 A_(n-1-j))", case, key="C05:rmfd2ac:corr")
        else:
            compare_tables_with_model(ctx, case, d["tables"], s, d["cols"], d["key"])


def class_level(ctx, rng, dts):
    import pyoma2.algorithms.plscf as aplscf
    from pyoma2.algorithms import pLSCF
    from pyoma2.algorithms.data.run_params import pLSCFRunParams
    from pyoma2.setup import SingleSetup

    orig = aplscf.fdd.SD_est
    try:
        for k in range(ctx.n(4, 12)):
            n = int(rng.integers(1, 4))
            Nch = int(rng.integers(2, 4))
            Nref = Nch if k % 2 == 0 else (Nch + 1 if Nch < 3 else 2)
            method = "per" if k % 2 == 0 else "cor"
            sgn = -1 if method == "per" else 1
            fs = float(rng.choice([100.0, 50.0, 64.0, 10.0]))
            dt = 1 / fs
            nxseg = int(rng.choice([64, 128]))
            A, B = gen_system(rng, n, Nch, max(Nref, 2))
            Nref = B.shape[1]
            Nf = 4 * (n + 1) + 3
            Sy, _ = spectrum(A, B, Nf, sgn)
            if coef_tol(ls_condition(A, B, Sy, Nf, sgn, 0 if sgn == -1 else n)) > 1e-5:
                ctx.not_judged += 1
                continue
            freq = np.linspace(0.0, fs / 2, Nf)
            calls = []

            ro = k % 2 == 1   # the spectrum estimate arrives as read-only arrays (e.g. memory-mapped results)
            Sy_given = readonly(Sy) if ro else Sy.copy()
            freq = readonly(freq) if ro else freq

            def stub(Yall, Yref, dt_, nxseg=1024, method="cor", pov=0.5, _f=freq, _S=Sy_given, _c=calls):
                _c.append((float(dt_), int(nxseg), method))
                return _f, _S

            aplscf.fdd.SD_est = stub
            data = rng.integers(-8, 9, size=(400, Nch)) / 4.0
            ss = SingleSetup(data, fs=fs)
            alg = pLSCF(name="p", ordmax=n, ordmin=0, nxseg=nxseg, method_SD=method,
                        hc=dict(conj=False, xi_max=2.0, mpc_lim=-1.0, mpd_lim=10.0))
            ss.add_algorithms(alg)
            case = dict(kind="class", n=n, Nch=Nch, Nref=Nref, Nf=Nf, fs=fs, methodSy=method, nxseg=nxseg, A=A.tolist(), B=B.tolist())
            ctx.count(case, nontrivial=True)
            ctx.hist("class(method)", method)
            try:
                ss.run_by_name("p")
            except Exception as e:  # noqa: BLE001
                ctx.fail("oracle", "pLSCF.run raised %s on an exactly rational spectrum estimate%s: %s" % (type(e).__name__, " (read-only arrays)" if ro else "", str(e)[:80]),
                         dict(case, readonly=ro), key="C05:class:raise-readonly" if ro else "C05:class:raise")
                continue
            r = alg.result
            # the same run set up positionally: SingleSetup(data, fs), pLSCF(run_params, name), run_by_name(name)
            try:
                ss2 = SingleSetup(data.copy(), fs)
                alg2 = pLSCF(pLSCFRunParams(ordmax=n, ordmin=0, nxseg=nxseg, method_SD=method,
                                            hc=dict(conj=False, xi_max=2.0, mpc_lim=-1.0, mpd_lim=10.0)), "p")
                ss2.add_algorithms(alg2)
                ss2.run_by_name("p")
                r2 = ss2["p"].result
                names = ("Ad", "Bn", "Fn_poles", "Xi_poles", "Phi_poles", "Lab")
                diff = [a for a in names if not same_bits(getattr(r2, a), getattr(r, a))]
                if diff or abs(ss2.dt - ss.dt) > 0 or ss2.fs != ss.fs:
                    ctx.fail("oracle", "SingleSetup(data, fs) / pLSCF(run_params, name) built positionally in the documented order give another result "
                             "(%s) than the same setup built with named arguments" % ", ".join(diff or ["fs/dt"]),
                             dict(case, positional=[list(POSITIONAL["SingleSetup"]), list(POSITIONAL["pLSCF.__init__"])]), key="C05:class:positional-call")
                    continue
            except Exception as e:  # noqa: BLE001
                ctx.fail("oracle", "SingleSetup(data, fs) / pLSCF(run_params, name) / run_by_name(name) called positionally in the documented order raised %s (%s) "
                         "where the same setup built with named arguments runs" % (type(e).__name__, str(e)[:80]),
                         dict(case, positional=[list(POSITIONAL["SingleSetup"]), list(POSITIONAL["pLSCF.__init__"])]), key="C05:class:positional-call")
                continue
            if not calls or abs(calls[0][0] - dt) > 1e-15 or calls[0][1] != nxseg or calls[0][2] != method:
                ctx.fail("oracle", "pLSCF.run did not estimate the spectrum with the run parameters (dt, nxseg, method_SD): %s" % (calls[:1],), case, key="C05:class:sd-args")
                continue
            cond = ls_condition(A, B, Sy, Nf, sgn, 0 if sgn == -1 else n)
            if not oracle_coefficients(ctx, case, np.asarray(r.Ad[n - 1]), np.asarray(r.Bn[n - 1]), A, B, sgn, cond, "class"):
                continue
            # shapes of unit modulus-one real vectors make MPC undefined (0/0): such poles are removed by the hard criteria -> compare what is left
            Fn, Xi, Phi = np.asarray(r.Fn_poles), np.asarray(r.Xi_poles), np.asarray(r.Phi_poles)
            ref = plscf.pLSCF_poles(r.Ad, r.Bn, dt, method, nxseg)
            keep = ~np.isnan(Fn)
            if Fn.shape != ref[0].shape or np.any(np.abs(Fn[keep] - ref[0][keep]) > 1e-12 * np.abs(ref[0][keep])) or np.any(keep & np.isnan(ref[0])):
                ctx.fail("oracle", "pLSCF.result.Fn_poles is not the table pLSCF_poles builds from result.Ad/Bn with (dt, method_SD, nxseg) of the run",
                         case, key="C05:class:tables")
                continue
            removed = int(np.sum(np.isnan(Fn[:, n - 1]) & ~np.isnan(ref[0][:, n - 1])))
            if removed:
                ctx.not_judged += 1  # hard criteria (MPC/MPD of a degenerate shape) removed a pole: outside this property (C09/C18)
                continue
            oracle_order_column(ctx, case, (Fn, Xi, Phi), A, B, dt, method, nxseg, n - 1, Nch, n, "class")
    finally:
        aplscf.fdd.SD_est = orig
