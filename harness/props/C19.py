"""C19 - geometry tables are validated, aligned to sensor order and mapped faithfully.
Model: coq/Model/M_geo.v; theorems: coq/Properties/C19.v.

A case is a JSON-able dict:
  kind   "geo1" | "geo2" | "dfphi"
  path   "func" (gen.check_on_geo1/2 on a dict of sheets) | "SingleSetup" | "PreGER" | "PoSER" (def_geo1/2 on the class)
  names  {"form": "row"|"tab"|"list"|"lists"|"arr", "v": ...} or None (sheet missing)
  ref    None | list of lists of positions (the object's / call's ref_ind)
  sheets {sheet name: {"cols": [...], "idx": [...], "rows": [[cell]], "arr": bool}}   cell = str | number | None (NaN)
  fault  None | label of the single fault injected into a valid set
  plot   None | {"Phi": [[..]], "mode": k, "scale": s, "color": c}
Three parties: the implementation, the Gallina model (exact comparison of every returned field), and an oracle written
from the property text (validity predicate, re-ordering, index shift, mapping, displacement) that works on the INPUT
tables only.
A share of the table sets is run once more with every public entry point called FULLY POSITIONALLY (parameter order of the
pristine signatures, hard-coded below, non-default values): same answer as the keyword call and the property on it
(run_positional; keys C19:<entry point>:positional-call).
"""
import itertools
import json
import os
from fractions import Fraction

import numpy as np
import pandas as pd

from common import VERIF, clist, fq, qc

HEADER = "From PyOMA.Model Require Import M_geo."
XYZ = ["x", "y", "z"]
G1_REQ = ["sensors names", "sensors coordinates", "sensors directions"]
G1_OPT = ["sensors lines", "BG nodes", "BG lines", "BG surfaces"]
G2_REQ = ["sensors names", "points coordinates", "mapping"]
G2_OPT = ["constraints", "sensors sign", "sensors lines", "sensors surfaces", "BG nodes", "BG lines", "BG surfaces"]
SHIFTED = ["sensors lines", "sensors surfaces", "BG lines", "BG surfaces"]
ARG1 = {"sensors lines": "sens_lines", "BG nodes": "bg_nodes", "BG lines": "bg_lines", "BG surfaces": "bg_surf"}
ARG2 = dict(ARG1, **{"constraints": "cstr", "sensors sign": "sens_sign", "sensors surfaces": "sens_surf"})
KEY_CSTR = "C19:check_on_geo2:missing-constraints-KeyError"
KEY_ARGS = "C19:def_geo:arg-forms-AttributeError"


# ------------------------------------------------------------------ small helpers
def isnan(v):
    return v is None or (not isinstance(v, str) and bool(pd.isna(v)))


def sheet(cols, idx, rows, arr=False):
    return {"cols": list(cols), "idx": list(idx), "rows": [list(r) for r in rows], "arr": arr}


def mk_df(sh):
    rows = [[np.nan if c is None else c for c in r] for r in sh["rows"]]
    if not rows:
        return pd.DataFrame(columns=sh["cols"])
    return pd.DataFrame(rows, index=sh["idx"], columns=sh["cols"])


def mk_arr(sh):
    rows = [[np.nan if c is None else c for c in r] for r in sh["rows"]]
    return np.array(rows)


def mk_names(nm):
    if nm is None:
        return None
    f, v = nm["form"], nm["v"]
    idx = nm.get("idx")  # row labels of the names sheet (index_col=0 of the Excel file); None = RangeIndex
    if f == "row":
        return pd.DataFrame([list(v)], index=idx)
    if f == "tab":
        return pd.DataFrame([[np.nan if c is None else c for c in r] for r in v], index=idx)
    if f == "list":
        return list(v)
    if f == "lists":
        return [list(r) for r in v]
    if f == "arr":
        return np.array(list(v))
    raise AssertionError(f)


# ------------------------------------------------------------------ canonical printing (same format as M_geo.showG1/showG2)
def fr(x):
    f = fq(int(x)) if isinstance(x, (int, np.integer)) and not isinstance(x, bool) else fq(float(x))
    return "%d/%d" % (f.numerator, f.denominator)


def show_cell(v):
    if isinstance(v, str):
        return "s:" + v
    if isnan(v):
        return "nan"
    return fr(v)


def show_body(rows):
    return ";".join(",".join(show_cell(c) for c in r) for r in rows)


def show_tbl_parts(cols, idx, rows):
    return "%dx%d|%s|%s|%s" % (len(rows), len(cols), ",".join(str(c) for c in cols), ",".join(str(i) for i in idx), show_body(rows))


def show_df(df):
    if df is None:
        return "None"
    return show_tbl_parts(list(df.columns), list(df.index), df.values.tolist())


def show_arr(a):
    if a is None:
        return "None"
    rows = np.asarray(a).tolist()
    return "%d|%s" % (len(rows), show_body(rows))


def show_rows(rows):
    return "None" if rows is None else "%d|%s" % (len(rows), show_body(rows))


# ------------------------------------------------------------------ Coq literals
def cstr_(s):
    assert '"' not in s
    return '"%s"' % s


def coq_cell(c):
    if isinstance(c, str):
        return "CName %s" % cstr_(c)
    if isnan(c):
        return "CNaN"
    return "CNum %s" % qc(int(c) if isinstance(c, (int, np.integer)) else c)


def coq_tbl(cols, idx, rows):
    return "(mkTbl %s %s)" % (clist([cstr_(str(c)) for c in cols]),
                              clist(["(%s, %s)" % (cstr_(str(i)), clist([coq_cell(c) for c in r])) for i, r in zip(idx, rows)]))


def coq_names(nm):
    if nm is None:
        return "None"
    f, v = nm["form"], nm["v"]
    sl = lambda l: clist([cstr_(s) for s in l])
    ol = lambda l: clist(["None" if s is None else "(Some %s)" % cstr_(s) for s in l])
    if f == "row":
        return "(Some (NRow %s))" % sl(v)
    if f == "tab":
        return "(Some (NTab %s %s %s))" % (ol(v[0]), ol(v[1]), clist([ol(r) for r in v[2:]]))
    if f == "list":
        return "(Some (NList %s))" % sl(v)
    if f == "lists":
        return "(Some (NLists %s))" % clist([sl(r) for r in v])
    return "(Some (NArr %s))" % sl(v)


def coq_ref(ref):
    if ref is None:
        return "None"
    return "(Some %s)" % clist([clist(["%d%%nat" % i for i in r]) for r in ref])


def model_sheets(case):
    """The tables the checked function sees: for the class path array arguments are wrapped as DataFrames (positional
    labels; sens_dir / sens_sign take the labels of the coordinate table when the shapes agree)."""
    out = {}
    like = {"sensors directions": "sensors coordinates", "sensors sign": "points coordinates"}
    for k, sh in case["sheets"].items():
        cols, idx, rows = sh["cols"], sh["idx"], sh["rows"]
        if sh.get("arr"):
            w = len(rows[0]) if rows else 0
            cols, idx = list(range(w)), list(range(len(rows)))
            lk = case["sheets"].get(like.get(k, ""))
            if lk is not None and len(lk["rows"]) == len(rows) and len(lk["cols"]) == w:
                cols, idx = lk["cols"], lk["idx"]
        out[k] = (cols, idx, rows)
    return out


def coq_fd(case):
    tabs = ["(%s, %s)" % (cstr_(k), coq_tbl(*v)) for k, v in model_sheets(case).items()]
    return "(mkFd %s %s)" % (coq_names(case["names"]), clist(tabs))


# ------------------------------------------------------------------ oracle: the property text on the input tables
def oracle_names(case):
    """-> list of names in mode-shape row order, or None when the property does not say (flattening itself fails)."""
    nm, ref = case["names"], case["ref"]
    if nm is None:
        return None
    f, v = nm["form"], nm["v"]
    if f in ("row", "list", "arr"):
        return list(v) if len(v) else None
    setups = [[s for s in r if s is not None] for r in v]
    if ref is None or len(ref) != len(setups) or not ref:
        return None
    out = ["REF%d" % (i + 1) for i in range(len(ref[0]))]
    for s, r in zip(setups, ref):
        out += [x for j, x in enumerate(s) if j not in r]
    return out


def present(case, key):
    sh = case["sheets"].get(key)
    return sh is not None and len(sh["rows"]) > 0 and len(sh["cols"]) > 0


def oracle_malformed(case, names):
    """Reason why the table set is malformed according to the property text, else None."""
    kind, S = case["kind"], case["sheets"]
    req = G1_REQ if kind == "geo1" else G2_REQ
    opt = G1_OPT if kind == "geo1" else G2_OPT
    have = set(S) | ({"sensors names"} if case["names"] is not None else set())
    if any(r not in have for r in req):
        return "missing required sheet"
    if any(k not in req + opt + ["INFO"] for k in S):
        return "unknown sheet"
    main = S[req[1]]
    if len(main["cols"]) != 3:
        return "wrong column count of the coordinate table"
    for k, n in (("BG nodes", 3), ("BG lines", 2), ("BG surfaces", 3)):
        if present(case, k) and len(S[k]["cols"]) != n:
            return "wrong column count of " + k
    other = S[req[2]]
    shp = lambda sh: (len(sh["rows"]), len(sh["cols"]))
    if shp(main) != shp(other):
        return "mismatched shapes"
    if kind == "geo1":
        lab = [str(i) for i in main["idx"]]
        if lab != [str(i) for i in other["idx"]]:
            return "mismatched indices"
        if any(n not in lab for n in names):
            return "sensor name absent from the coordinate table"
        if len(set(lab)) != len(lab):
            return "duplicate labels in the coordinate table"
    else:
        if present(case, "sensors sign") and shp(S["sensors sign"]) != shp(main):
            return "mismatched shape of the sign table"
        cells = [c for r in other["rows"] for c in r if isinstance(c, str)]
        if any(n not in cells for n in names):
            return "sensor name absent from the mapping table"
        if "constraints" in S:
            cs = S["constraints"]
            if any(str(c) not in names for c in cs["cols"]):
                return "constraint table names an unknown sensor"
            used = [c for c in cells if c not in names]
            if any(str(i) not in used for i in cs["idx"]):
                return "constraint the mapping never uses"
    return None


def rows_or_none(case, key, shift=0):
    if not present(case, key):
        return None
    return [[(None if isnan(c) else c - shift) for c in r] for r in case["sheets"][key]["rows"]]


def oracle_geo(case, names):
    """Expected fields, as printed strings, of a well-formed set (written from the property text)."""
    S = case["sheets"]
    if case["kind"] == "geo1":
        co, di = S["sensors coordinates"], S["sensors directions"]
        row_of = lambda sh, n: sh["rows"][[str(i) for i in sh["idx"]].index(n)]
        return [",".join(names),
                show_tbl_parts(co["cols"], names, [row_of(co, n) for n in names]),
                show_body([row_of(di, n) for n in names]),
                show_rows(rows_or_none(case, "sensors lines", 1)), show_rows(rows_or_none(case, "BG nodes")),
                show_rows(rows_or_none(case, "BG lines", 1)), show_rows(rows_or_none(case, "BG surfaces", 1))]
    pts, mp = S["points coordinates"], S["mapping"]
    filled = [[(0.0 if isnan(c) else c) for c in r] for r in mp["rows"]]
    if present(case, "constraints"):
        cs = S["constraints"]
        ccols = [str(c) for c in cs["cols"]]
        crow = lambda r: [(0 if (n not in ccols or isnan(r[ccols.index(n)])) else r[ccols.index(n)]) for n in names]
        cst = show_tbl_parts(names, cs["idx"], [crow(r) for r in cs["rows"]])
    else:
        cst = "None"
    if present(case, "sensors sign"):
        sg = S["sensors sign"]
        sgs = show_tbl_parts(sg["cols"], sg["idx"], sg["rows"])
    else:
        sgs = show_tbl_parts(pts["cols"], list(range(len(pts["rows"]))), [[1.0] * len(pts["cols"])] * len(pts["rows"]))
    return [",".join(names), show_tbl_parts(pts["cols"], pts["idx"], pts["rows"]), show_tbl_parts(mp["cols"], mp["idx"], filled), cst, sgs,
            show_rows(rows_or_none(case, "sensors lines", 1)), show_rows(rows_or_none(case, "sensors surfaces", 1)),
            show_rows(rows_or_none(case, "BG nodes")), show_rows(rows_or_none(case, "BG lines", 1)), show_rows(rows_or_none(case, "BG surfaces", 1))]


def oracle_mapped(case, names, phi):
    """value of every mapping cell: sensor -> its component, constraint -> prescribed combination, else 0."""
    S = case["sheets"]
    comp = dict(zip(names, phi))
    cval = {}
    if present(case, "constraints"):
        cs = S["constraints"]
        for lab, r in zip(cs["idx"], cs["rows"]):
            cval[str(lab)] = sum((0.0 if isnan(x) else x) * comp[str(c)] for c, x in zip(cs["cols"], r))
    out = []
    for r in S["mapping"]["rows"]:
        out.append([(cval[c] if c in cval else comp[c]) if isinstance(c, str) else 0.0 for c in r])
    return np.array(out, float)


def oracle_points2(case, names, phi, scale):
    S = case["sheets"]
    pts = np.array(S["points coordinates"]["rows"], float)
    M = oracle_mapped(case, names, [p * scale for p in phi])
    sg = np.array(S["sensors sign"]["rows"], float) if present(case, "sensors sign") else np.ones_like(pts)
    return pts + M * sg


def oracle_arrows1(case, names, phi, scale):
    co, di = case["sheets"]["sensors coordinates"], case["sheets"]["sensors directions"]
    lab = [str(i) for i in co["idx"]]
    out = []
    for k, n in enumerate(names):
        c = np.array(co["rows"][lab.index(n)], float)
        d = np.array(di["rows"][[str(i) for i in di["idx"]].index(n)], float)
        out.append((c, c + d * phi[k] * scale))
    return out


# ------------------------------------------------------------------ implementation drivers
class Pools:
    def __init__(self):
        from pyoma2.algorithms import FDD
        from pyoma2.setup import SingleSetup

        self.single = SingleSetup(np.zeros((8, 2)), fs=10.0)
        rng = np.random.default_rng(1)
        self.pool = []
        for _ in range(2):
            s = SingleSetup(rng.standard_normal((400, 2)), fs=20.0)
            s.add_algorithms(FDD(name="FDD", nxseg=64))
            s.run_all()
            s.mpe("FDD", sel_freq=[3.0], DF=1.0)
            self.pool.append(s)

    def obj(self, case):
        from pyoma2.setup import MultiSetup_PoSER, MultiSetup_PreGER

        p, ref = case["path"], case["ref"]
        if p == "SingleSetup":
            o = self.single
            o.geo1 = None
            o.geo2 = None
            return o
        if p == "PreGER":
            data = [np.zeros((6, max(r) + 2 if r else 2)) for r in ref]
            return MultiSetup_PreGER(fs=10.0, ref_ind=[list(r) for r in ref], datasets=data)
        return MultiSetup_PoSER(ref_ind=[list(r) for r in ref], single_setups=self.pool, names=["FDD"])

    def fresh(self, case):
        """a setup object of its own (repeat scenarios keep it for several definitions)"""
        from pyoma2.setup import SingleSetup

        return SingleSetup(np.zeros((8, 2)), fs=10.0) if case["path"] == "SingleSetup" else self.obj(case)


def build_inputs(case):
    """the objects handed to the implementation, by sheet name ('sensors names' included)"""
    func = case["path"] == "func"
    inp = {}
    if case["names"] is not None:
        inp["sensors names"] = mk_names(case["names"])
    for k, sh in case["sheets"].items():
        inp[k] = mk_arr(sh) if (sh.get("arr") and not func) else mk_df(sh)
    return inp


def canon(o):
    """canonical text of an input object (labels and values), to detect that a call modified its caller's table"""
    if isinstance(o, pd.DataFrame):
        return "df:" + show_df(o)
    if isinstance(o, np.ndarray):
        return "arr:%s:%r" % (o.shape, o.tolist())
    return "obj:%r" % (o,)


def fields_func(kind, r):
    """the tuple returned by check_on_geo1/2 as canonical field strings"""
    if kind == "geo1":
        return [",".join(map(str, r[0])), show_df(r[1]), show_body(np.asarray(r[2]).tolist())] + [show_arr(x) for x in r[3:]]
    return [",".join(map(str, r[0]))] + [show_df(x) for x in r[1:5]] + [show_arr(x) for x in r[5:]]


def fields_obj(kind, o):
    """the geometry stored on a setup object as canonical field strings (same order as fields_func)"""
    if kind == "geo1":
        g = o.geo1
        return [",".join(map(str, g.sens_names)), show_df(g.sens_coord), show_body(np.asarray(g.sens_dir).tolist()),
                show_arr(g.sens_lines), show_arr(g.bg_nodes), show_arr(g.bg_lines), show_arr(g.bg_surf)]
    g = o.geo2
    return [",".join(map(str, g.sens_names)), show_df(g.pts_coord), show_df(g.sens_map), show_df(g.cstrn), show_df(g.sens_sign),
            show_arr(g.sens_lines), show_arr(g.sens_surf), show_arr(g.bg_nodes), show_arr(g.bg_lines), show_arr(g.bg_surf)]


def call_impl(case, pools, inputs=None, obj=None):
    """-> ("ok", [field strings], obj, mutated) | ("err", ExcName, message, mutated);
    mutated = names of the input tables that differ from their pristine copy after the call"""
    from pyoma2.functions import gen

    kind = case["kind"]
    inp = build_inputs(case) if inputs is None else inputs
    before = {k: canon(v) for k, v in inp.items()}
    changed = lambda: sorted(k for k, v in inp.items() if canon(v) != before[k])
    try:
        if case["path"] == "func":
            fd = dict(inp)  # a fresh dict: the function is documented to edit the dict, never the tables in it
            ref = None if case["ref"] is None else [list(r) for r in case["ref"]]
            r = (gen.check_on_geo1 if kind == "geo1" else gen.check_on_geo2)(fd, ref_ind=ref)
            return ("ok", fields_func(kind, r), None, changed())
        o = pools.obj(case) if obj is None else obj
        if kind == "geo1":
            kw = {ARG1[k]: inp[k] for k in G1_OPT if k in inp}
            o.def_geo1(inp.get("sensors names"), inp["sensors coordinates"], inp["sensors directions"], **kw)
        else:
            kw = {ARG2[k]: inp[k] for k in G2_OPT if k in inp}
            o.def_geo2(inp.get("sensors names"), inp["points coordinates"], inp["mapping"], **kw)
        return ("ok", fields_obj(kind, o), o, changed())
    except Exception as e:  # noqa: BLE001 - the kind of exception is the observation
        return ("err", type(e).__name__, str(e)[:160].replace("\n", " "), changed())


def run_repeat(scn, pools, ctx):
    """the SAME table objects used for several definitions (same call twice, def_geo1 then def_geo2, two setups):
    every resulting geometry is judged against the property on the pristine tables; inputs must stay untouched"""
    shared, objs = {}, {}
    for si, step in enumerate(scn["steps"]):
        site = SITE[step["kind"]][0 if step["path"] == "func" else 1]
        inp = build_inputs(step)
        for k in scn["shared"]:
            if k in inp:
                inp[k] = shared.setdefault(k, inp[k])
        o = None
        if step["path"] != "func":
            ok_ = (step["path"], step.get("obj", 0))
            if ok_ not in objs:
                objs[ok_] = pools.fresh(step)
            o = objs[ok_]
        r = call_impl(step, pools, inputs=inp, obj=o)
        names = oracle_names(step)
        if names is None or oracle_malformed(step, names):
            ctx.not_judged += 1
            ctx.note("repeat scenario with a step the oracle does not judge (generator inconsistency)")
            return
        if r[3]:
            ctx.fail("oracle", "%s modified its caller's table(s) %s (step %d of scenario '%s'): a later definition from the same tables is built from altered data"
                     % (site, r[3], si + 1, scn["scenario"]), scn, key="C19:%s:input-mutated" % site)
        if r[0] != "ok":
            ctx.fail("oracle", "%s: definition %d from the same well-formed tables (scenario '%s') raised %s (%s)" % (site, si + 1, scn["scenario"], r[1], r[2]),
                     scn, key="C19:%s:repeated-definition-raises-%s" % (site, r[1]))
            continue
        exp = oracle_geo(step, names)
        if exp != r[1]:
            i, x, y = first_diff(exp, r[1])
            fld = (["sens_names", "sens_coord", "sens_dir", "sens_lines", "bg_nodes", "bg_lines", "bg_surf"] if step["kind"] == "geo1" else
                   ["sens_names", "pts_coord", "sens_map", "cstrn", "sens_sign", "sens_lines", "sens_surf", "bg_nodes", "bg_lines", "bg_surf"])[i]
            ctx.fail("oracle", "%s: definition %d from the same table objects (scenario '%s'): field %s expected %s got %s" % (site, si + 1, scn["scenario"], fld, x, y),
                     scn, key="C19:%s:repeated-definition:%s" % (site, fld))


def collect(ax):
    segs, pts, polys = [], [], []
    for ln in ax.lines:
        xs, ys, zs = ln.get_data_3d()
        segs.append(np.array([np.asarray(xs, float), np.asarray(ys, float), np.asarray(zs, float)]).T)
    for c in ax.collections:
        nm = type(c).__name__
        if nm == "Path3DCollection":
            xs, ys, zs = c._offsets3d
            pts += list(np.array([np.ma.getdata(xs), np.ma.getdata(ys), np.asarray(zs)], float).T)
        elif nm == "Poly3DCollection" and getattr(c, "_faces", None) is not None:
            polys += [np.asarray(f, float) for f in np.asarray(c._faces)]
    return segs, pts, polys


def contains(pool, item, tol):
    """is the (n x 3) array item among pool (either orientation for 2-point segments)"""
    for p in pool:
        if p.shape == item.shape and (np.allclose(p, item, rtol=0, atol=tol, equal_nan=True) or
                                      (item.shape[0] == 2 and np.allclose(p[::-1], item, rtol=0, atol=tol, equal_nan=True))):
            return True
    return False


def call_plot(case, obj):
    import matplotlib.pyplot as plt
    from pyoma2.algorithms.data.result import BaseResult

    pl = case["plot"]
    Phi = np.array(pl["Phi"], float)
    res = BaseResult(Fn=np.arange(1, Phi.shape[1] + 1, dtype=float), Phi=Phi)
    try:
        if case["kind"] == "geo1":
            fig, ax = obj.plot_mode_geo1(res, mode_nr=pl["mode"], scaleF=pl["scale"], view=pl.get("view", "3D"))
        else:
            fig, ax = obj.plot_mode_geo2_mpl(res, mode_nr=pl["mode"], scaleF=pl["scale"], view=pl.get("view", "3D"), color=pl["color"])
        out = collect(ax)
        plt.close(fig)
        return ("ok", out)
    except Exception as e:  # noqa: BLE001
        plt.close("all")
        return ("err", type(e).__name__, str(e)[:160])


# ------------------------------------------------------------------ positional call forms
# Parameter order of the PRISTINE public signatures, written down here on purpose (never read from the tree under test:
# a changed signature must not redefine the order a documented positional call relies on).
#   gen.check_on_geo1(file_dict, ref_ind)            gen.check_on_geo2(file_dict, ref_ind, fill_na)
#   gen.flatten_sns_names(sens_names, ref_ind)       gen.dfphi_map_func(phi, sens_names, sens_map, cstrn)
#   def_geo1(sens_names, sens_coord, sens_dir, sens_lines, bg_nodes, bg_lines, bg_surf)
#   def_geo2(sens_names, pts_coord, sens_map, cstr, sens_sign, sens_lines, sens_surf, bg_nodes, bg_lines, bg_surf)
#   plot_mode_geo1(algo_res, mode_nr, scaleF, view, col_sns, col_sns_lines, col_BG_nodes, col_BG_lines, col_BG_surf)
#   plot_mode_geo2_mpl(algo_res, mode_nr, scaleF, view, color)
#   Geo1MplPlotter(geo, res).plot_mode(mode_nr, scaleF, view, col_sns, col_sns_lines, col_BG_nodes, col_BG_lines, col_BG_surf)
#   Geo2MplPlotter(geo, res).plot_mode(mode_nr, scaleF, view, color)
POS_G1 = ["sensors names", "sensors coordinates", "sensors directions", "sensors lines", "BG nodes", "BG lines", "BG surfaces"]
POS_G2 = ["sensors names", "points coordinates", "mapping", "constraints", "sensors sign", "sensors lines", "sensors surfaces",
          "BG nodes", "BG lines", "BG surfaces"]
POS_COLS1 = ["blue", "green", "orange", "purple", "cyan"]  # col_sns, col_sns_lines, col_BG_nodes, col_BG_lines, col_BG_surf: all non-default, all distinct
FILL_OTHER = "none"  # a fill_na value other than the default "zero"


def pos_key(site):
    return "C19:%s:positional-call" % site


def call_impl_pos(case, pools, fill=None):
    """the definition of call_impl made FULLY POSITIONALLY (None at the place of an omitted optional table)
    -> ("ok", fields, obj) | ("err", ExcName, message).  fill: third positional argument of check_on_geo2 (None = "zero")"""
    from pyoma2.functions import gen

    kind = case["kind"]
    inp = build_inputs(case)
    try:
        if case["path"] == "func":
            fd = dict(inp)
            ref = None if case["ref"] is None else [list(r) for r in case["ref"]]
            r = gen.check_on_geo1(fd, ref) if kind == "geo1" else gen.check_on_geo2(fd, ref, "zero" if fill is None else fill)
            return ("ok", fields_func(kind, r), None)
        o = pools.obj(case)
        args = [inp.get(k) for k in (POS_G1 if kind == "geo1" else POS_G2)]
        (o.def_geo1 if kind == "geo1" else o.def_geo2)(*args)
        return ("ok", fields_obj(kind, o), o)
    except Exception as e:  # noqa: BLE001
        return ("err", type(e).__name__, str(e)[:160].replace("\n", " "))


def call_geo2_fill_kw(case, fill):
    """check_on_geo2 with a non-default fill_na given BY KEYWORD (reference of the positional form)"""
    from pyoma2.functions import gen

    try:
        ref = None if case["ref"] is None else [list(r) for r in case["ref"]]
        return ("ok", fields_func("geo2", gen.check_on_geo2(dict(build_inputs(case)), ref_ind=ref, fill_na=fill)), None)
    except Exception as e:  # noqa: BLE001
        return ("err", type(e).__name__, str(e)[:160].replace("\n", " "))


def same_outcome(a, b):
    """two call_impl-style outcomes agree: same field strings, or the same kind of exception"""
    if a[0] != b[0]:
        return False
    return a[1] == b[1]


def show_outcome(a):
    if a[0] == "ok":
        return "a geometry"
    return "%s (%s)" % (a[1], a[2])


def fingerprint(ax):
    """everything a mode plot shows, as comparable text: view angles, title, limits, every artist with coordinates and colours"""
    from matplotlib.colors import to_rgba

    out = ["view:%r:%r" % (float(ax.elev), float(ax.azim)), "title:%s" % ax.get_title(),
           "lim:%r" % ([float(v) for v in ax.get_xlim3d()] + [float(v) for v in ax.get_ylim3d()] + [float(v) for v in ax.get_zlim3d()],)]
    for ln in ax.lines:
        xs, ys, zs = ln.get_data_3d()
        out.append("line:%r:%r:%r" % (np.array([np.asarray(xs, float), np.asarray(ys, float), np.asarray(zs, float)]).tolist(), to_rgba(ln.get_color()), ln.get_alpha()))
    for c in ax.collections:
        nm = type(c).__name__
        geom = None
        if nm == "Path3DCollection":
            geom = [np.asarray(np.ma.getdata(a), float).tolist() for a in c._offsets3d]
        elif getattr(c, "_faces", None) is not None:
            geom = np.asarray(c._faces, float).tolist()
        elif getattr(c, "_segments3d", None) is not None:
            geom = np.asarray(c._segments3d, float).tolist()
        arr = c.get_array()
        out.append("%s:%r:%r:%r:%r:%r" % (nm, geom, np.asarray(c.get_facecolor()).tolist(), np.asarray(c.get_edgecolor()).tolist(),
                                         None if arr is None else np.asarray(arr, float).tolist(), c.get_alpha()))
    for t in ax.texts:
        out.append("text:%s:%r" % (t.get_text(), tuple(float(v) for v in t.get_position())))
    return out


def plot_forms(case, obj, pl):
    """the mode plot of one geometry in three forms with the same NON-default values of every parameter: keywords through the
    setup method, positional through the setup method, positional through the plotter class.
    -> {form: ("ok", collected, fingerprint) | ("err", ExcName, message)}"""
    import matplotlib.pyplot as plt
    from pyoma2.algorithms.data.result import BaseResult
    from pyoma2.support.geometry.mpl_plotter import Geo1MplPlotter, Geo2MplPlotter

    Phi = np.array(pl["Phi"], float)
    m, s, v = pl["mode"], pl["scale"], pl["view"]
    c1, c2, c3, c4, c5 = POS_COLS1
    col = pl["color"]

    def one(f):
        res = BaseResult(Fn=np.arange(1, Phi.shape[1] + 1, dtype=float), Phi=Phi.copy())
        try:
            fig, ax = f(res)
            out = ("ok", collect(ax), fingerprint(ax))
            plt.close(fig)
            return out
        except Exception as e:  # noqa: BLE001
            plt.close("all")
            return ("err", type(e).__name__, str(e)[:160].replace("\n", " "))

    if case["kind"] == "geo1":
        return {
            "keyword": one(lambda r: obj.plot_mode_geo1(algo_res=r, mode_nr=m, scaleF=s, view=v, col_sns=c1, col_sns_lines=c2,
                                                         col_BG_nodes=c3, col_BG_lines=c4, col_BG_surf=c5)),
            "plot_mode_geo1": one(lambda r: obj.plot_mode_geo1(r, m, s, v, c1, c2, c3, c4, c5)),
            "Geo1MplPlotter.plot_mode": one(lambda r: Geo1MplPlotter(obj.geo1, r).plot_mode(m, s, v, c1, c2, c3, c4, c5)),
        }
    return {
        "keyword": one(lambda r: obj.plot_mode_geo2_mpl(algo_res=r, mode_nr=m, scaleF=s, view=v, color=col)),
        "plot_mode_geo2_mpl": one(lambda r: obj.plot_mode_geo2_mpl(r, m, s, v, col)),
        "Geo2MplPlotter.plot_mode": one(lambda r: Geo2MplPlotter(obj.geo2, r).plot_mode(m, s, v, col)),
    }


def plot_oracle(case, names, pl, collected):
    """the property text on the artists of one mode plot -> None | what is wrong"""
    segs, pts, polys = collected
    phi = [row[pl["mode"] - 1] for row in pl["Phi"]]
    scale = pl["scale"]
    if case["kind"] == "geo1":
        arrows = oracle_arrows1(case, names, phi, scale)
        tol = 1e-9 * max(1.0, max(np.abs(b).max() for _, b in arrows))
        P1 = [np.array([p]) for p in pts]
        for k, (a, b) in enumerate(arrows):
            if not contains(segs, np.array([a, b]), tol) or not contains(P1, np.array([a]), tol):
                return ("arrow", "component %d of the mode shape is not drawn at the sensor named %s along its direction (arrow %s -> %s missing)" % (
                    k, names[k], a.tolist(), b.tolist()))
        C = [a for a, _ in arrows]
        for (lk, base) in (("sensors lines", C), ("BG lines", None)):
            if present(case, lk) and (base is not None or present(case, "BG nodes")):
                B = base if base is not None else [np.array(r, float) for r in case["sheets"]["BG nodes"]["rows"]]
                for r in case["sheets"][lk]["rows"]:
                    if not contains(segs, np.array([B[int(r[0]) - 1], B[int(r[1]) - 1]]), tol):
                        return ("%s-shift" % lk, "line %s of '%s' (one-based) is not drawn between its two nodes" % (r, lk))
        return None
    NP = oracle_points2(case, names, phi, scale)
    tol = 1e-9 * max(1.0, np.abs(NP).max())
    P1 = [np.array([p]) for p in pts]
    for i in range(len(NP)):
        if not contains(P1, NP[i:i + 1], tol):
            return ("displacement", "point %d is not displayed at coordinates + mapped value x sign = %s" % (i + 1, NP[i].tolist()))
    if present(case, "sensors lines"):
        for r in case["sheets"]["sensors lines"]["rows"]:
            if not contains(segs, np.array([NP[int(r[0]) - 1], NP[int(r[1]) - 1]]), tol):
                return ("lines-shift", "line %s (one-based) is not drawn between its two displaced points" % (r,))
    if present(case, "sensors surfaces") and polys:
        for r in case["sheets"]["sensors surfaces"]["rows"]:
            tri = np.array([NP[int(i) - 1] for i in r])
            if not any(p.shape == tri.shape and np.allclose(sorted(p.tolist()), sorted(tri.tolist()), rtol=0, atol=tol) for p in polys):
                return ("surf-shift", "surface %s (one-based) is not drawn on its three displaced points" % (r,))
    return None


def judged_state(case, names):
    """what the oracle says about a table set: "well-formed" | "malformed" | None (not judged)"""
    flt = case.get("fault")
    if names is None or (flt or "").startswith("x:"):
        return None
    reason = oracle_malformed(case, names)
    if bool(reason) != bool(flt):
        return None
    return "malformed" if reason else "well-formed"


def geo_fields(kind):
    return (["sens_names", "sens_coord", "sens_dir", "sens_lines", "bg_nodes", "bg_lines", "bg_surf"] if kind == "geo1" else
            ["sens_names", "pts_coord", "sens_map", "cstrn", "sens_sign", "sens_lines", "sens_surf", "bg_nodes", "bg_lines", "bg_surf"])


def run_positional(ctx, pools, geo_meta):
    """A share of the table sets again, every public entry point called FULLY POSITIONALLY in the pristine parameter order with
    non-default values: the answer must be the one of the keyword call, and the property must hold on it.
    geo_meta: [(case, names, outcome of call_impl)] of the main stream."""
    from pyoma2.functions import gen

    rng = ctx.rng
    K = ctx.n(10, 36)
    groups = {}
    for (case, names, impl) in geo_meta:
        req = (G1_REQ if case["kind"] == "geo1" else G2_REQ)[1:]
        if case["path"] != "func" and any(k not in case["sheets"] for k in req):
            continue
        groups.setdefault((case["kind"], "func" if case["path"] == "func" else "class"), []).append((case, names, impl, False))
    chosen = []
    for gk in sorted(groups):
        lst = groups[gk]
        st = [judged_state(c, n) for c, n, _i, _d in lst]
        good = sorted((x for x, s in zip(lst, st) if s == "well-formed"), key=lambda x: -len(x[0]["sheets"]))  # most optional tables first
        rest = [x for x, s in zip(lst, st) if s != "well-formed"]
        more = good[K // 2:]
        chosen += good[:K // 2] + rng.sample(more, min(len(more), K - K // 2 - 2)) + rng.sample(rest, min(len(rest), 2))
    # table sets with EVERY optional table present (a shift or swap of two parameters moves a table that is there), on every path
    for kind in ("geo1", "geo2"):
        for path in ("func", "SingleSetup", "PreGER", "PoSER"):
            for rep in range(ctx.n(2, 6)):
                n = rng.randint(3, 5)
                if path in ("PreGER", "PoSER") or (path == "func" and rep % 2):
                    k = rng.randint(1, 2)
                    setups, ref, flat = multi_layout(rng, n - k, k=k)
                    w = max(len(s) for s in setups)
                    nm = rng.choice([{"form": "lists", "v": setups}, {"form": "tab", "v": [s + [None] * (w - len(s)) for s in setups], "idx": None}])
                else:
                    flat, ref = pick_names(rng, n), None
                    nm = {"form": rng.choice(["row", "list", "arr"]), "v": flat}
                S = gen_geo1(rng, flat, extra=1, opts=G1_OPT) if kind == "geo1" else gen_geo2(rng, flat, opts=G2_OPT)
                case = {"kind": kind, "path": path, "names": nm, "ref": ref, "sheets": cp(S), "fault": None, "plot": None}
                if path != "func":
                    for kk in ("sensors directions", "sensors lines", "sensors surfaces", "BG nodes", "BG lines", "BG surfaces"):
                        if kk in case["sheets"] and rng.random() < 0.3:
                            case["sheets"][kk]["arr"] = True
                chosen.append((case, oracle_names(case), call_impl(case, pools)[:3], True))
    nplots = {"geo1": ctx.n(7, 30), "geo2": ctx.n(7, 30)}
    chosen.sort(key=lambda x: not x[3])  # those with every table first: they take the plot budget
    for (case, names, ref_out, dedicated) in chosen:
        kind = case["kind"]
        func = case["path"] == "func"
        site = SITE[kind][0 if func else 1]
        state = judged_state(case, names)
        tag = dict(case, observed="positional")
        ctx.count(tag, nontrivial=True)
        ctx.hist("positional call", "%s/%s" % (site, case["path"]))
        order = "(file_dict, ref_ind%s)" % ("" if kind == "geo1" else ", fill_na") if func else "(%s)" % ", ".join(
            ["sens_names", "sens_coord", "sens_dir"] + [ARG1[k] for k in POS_G1[3:]] if kind == "geo1" else ["sens_names", "pts_coord", "sens_map"] + [ARG2[k] for k in POS_G2[3:]])
        pos = call_impl_pos(case, pools)
        differs = not same_outcome(ref_out, pos)
        if differs:
            if ref_out[0] == "ok" and pos[0] == "ok":
                i, x, y = first_diff(ref_out[1], pos[1])
                what = "field %s is %s with keywords, %s positionally" % (geo_fields(kind)[i], x, y)
            else:
                what = "keywords give %s, the positional call %s" % (show_outcome(ref_out), show_outcome(pos))
            ctx.fail("oracle", "%s: the documented positional call %s%s does not give what the same call with keywords gives: %s" % (site, site, order, what),
                     tag, key=pos_key(site))
        # the property on the positional call itself
        bad = None
        if state == "well-formed":
            if pos[0] != "ok":
                bad = ("well-formed-set-raises-%s" % pos[1], "a well-formed table set raised %s" % show_outcome(pos))
            else:
                exp = oracle_geo(case, names)
                if exp != pos[1]:
                    i, x, y = first_diff(exp, pos[1])
                    bad = (geo_fields(kind)[i], "field %s is not what the property prescribes: expected %s got %s" % (geo_fields(kind)[i], x, y))
        elif state == "malformed" and (pos[0] == "ok" or pos[1] not in ("ValueError", "ValidationError")):
            bad = ("malformed-accepted" if pos[0] == "ok" else "malformed-set-raises-%s" % pos[1], "a malformed table set (%s) gave %s instead of ValueError" % (case.get("fault"), show_outcome(pos)))
        if bad and (differs or dedicated):  # (the keyword form of the main stream is judged there)
            ctx.fail("oracle", "%s called positionally %s: %s" % (site, order, bad[1]), tag, key=pos_key(site) if differs else "C19:%s:%s" % (site, bad[0]))
        # third positional argument of check_on_geo2 with a value other than its default
        if func and kind == "geo2":
            kwf, posf = call_geo2_fill_kw(case, FILL_OTHER), call_impl_pos(case, pools, fill=FILL_OTHER)
            if not same_outcome(kwf, posf):
                if kwf[0] == posf[0] == "ok":
                    i, x, y = first_diff(kwf[1], posf[1])
                    what = "field %s is %s with the keyword, %s with the third positional argument" % (geo_fields(kind)[i], x, y)
                else:
                    what = "keywords give %s, the positional call %s" % (show_outcome(kwf), show_outcome(posf))
                ctx.fail("oracle", "check_on_geo2(file_dict, ref_ind, %r) does not give what check_on_geo2(file_dict, ref_ind=..., fill_na=%r) gives: %s" % (FILL_OTHER, FILL_OTHER, what),
                         tag, key=pos_key(site))
        # the flattening of the names
        if case["names"] is not None:
            ref = None if case["ref"] is None else [list(r) for r in case["ref"]]

            def flat_(f):
                try:
                    return ("ok", [str(x) for x in f(mk_names(case["names"]))])
                except Exception as e:  # noqa: BLE001
                    return ("err", type(e).__name__, str(e)[:160])
            fk = flat_(lambda o: gen.flatten_sns_names(sens_names=o, ref_ind=ref))
            fp = flat_(lambda o: gen.flatten_sns_names(o, ref))
            if not same_outcome(fk, fp):
                ctx.fail("oracle", "flatten_sns_names(sens_names, ref_ind) called positionally gives %s, with keywords %s" % (fp[1], fk[1]), tag, key=pos_key("flatten_sns_names"))
            elif state == "well-formed" and dedicated and (fp[0] != "ok" or fp[1] != names):
                ctx.fail("oracle", "flatten_sns_names: names %s, the property prescribes %s" % (fp[1], names), tag, key="C19:flatten_sns_names:names")
        # the mode plots
        if not func and pos[0] == "ok" and not differs and state == "well-formed" and nplots[kind] > 0:
            nplots[kind] -= 1
            n = len(names)
            old = case.get("plot")
            Phi = old["Phi"] if old and len(old["Phi"][0]) >= 2 else [[dy(rng, -16, 16, 8) for _ in range(3)] for _ in range(n)]
            pl = {"Phi": Phi, "mode": 2, "scale": rng.choice([3, 0.5]), "view": rng.choice(["xy", "xz", "yz"]), "color": rng.choice(["blue", "green"])}
            ptag = dict(tag, plot=pl, observed="positional-plot")
            forms = plot_forms(case, pos[2], pl)
            kw = forms.pop("keyword")
            psite = SITE[kind][2]
            ctx.count(ptag, nontrivial=True)
            if kw[0] == "ok":
                b = plot_oracle(case, names, pl, kw[1])
                if b and dedicated:
                    ctx.fail("oracle", "%s: %s" % (psite, b[1]), ptag, key="C19:%s:%s" % (psite, b[0]))
            elif dedicated:
                ctx.fail("oracle", "%s raised %s (%s) on a well-formed geometry" % (psite, kw[1], kw[2]), ptag, key="C19:%s:raises-%s" % (psite, kw[1]))
            for form, out in sorted(forms.items()):
                ctx.hist("positional call", form)
                sig = "(algo_res, mode_nr, scaleF, view, %s)" % ("col_sns, col_sns_lines, col_BG_nodes, col_BG_lines, col_BG_surf" if kind == "geo1" else "color")
                if form != psite:
                    sig = "(" + sig[len("(algo_res, "):]
                if out[0] != kw[0] or (out[0] == "err" and out[1] != kw[1]):
                    ctx.fail("oracle", "%s%s called positionally gives %s, %s with keywords gives %s" % (
                        form, sig, "a figure" if out[0] == "ok" else "%s (%s)" % out[1:], psite, "a figure" if kw[0] == "ok" else "%s (%s)" % kw[1:]), ptag, key=pos_key(form))
                elif out[0] == "ok" and out[2] != kw[2]:
                    d = next((a + "  |  " + b_ for a, b_ in zip(out[2], kw[2]) if a != b_), "%d artists vs %d" % (len(out[2]), len(kw[2])))
                    b = plot_oracle(case, names, pl, out[1])
                    ctx.fail("oracle", "%s%s called positionally with non-default values does not draw what %s draws with the same values as keywords%s; first difference (positional | keyword): %s" % (
                        form, sig, psite, "" if not b else " (" + b[1] + ")", d[:400]), ptag, key=pos_key(form))


# ------------------------------------------------------------------ generators
POOL = ["a", "ab", "b", "S1", "S10", "S2", "ch_3", "n7", "Acc1", "Acc11", "w", "k9", "T", "u2", "u22", "zz", "m", "p4", "acc", "Ab", "g6", "h"]


def dy(rng, lo=-24, hi=24, den=4):
    return rng.randint(lo, hi) / float(den)


def pick_names(rng, n):
    return rng.sample(POOL, n)


def multi_layout(rng, n_rov, nset=None, k=None):
    """setups (lists of names) and reference positions; returns (setups, ref, flat names)"""
    nset = nset or rng.randint(2, 3)
    k = k if k is not None else rng.randint(1, 2)
    rov = pick_names(rng, n_rov)
    cuts = sorted(rng.sample(range(0, n_rov + 1), nset - 1)) if n_rov >= nset - 1 else [0] * (nset - 1)
    parts = [rov[a:b] for a, b in zip([0] + cuts, cuts + [n_rov])]
    setups, ref = [], []
    for i, part in enumerate(parts):
        size = k + len(part)
        pos = rng.sample(range(size), k)  # reference positions, in any order (every reference layout)
        s, it = [None] * size, iter(part)
        for j, p in enumerate(pos):
            s[p] = "R%d_%d" % (i, j)
        s = [x if x is not None else next(it) for x in s]
        setups.append(s)
        ref.append(pos)
    flat = ["REF%d" % (i + 1) for i in range(k)] + [x for p in parts for x in p]
    return setups, ref, flat


def names_variants(rng, flat_single, multi=None):
    """all documented forms for a set of names"""
    out = [({"form": f, "v": list(flat_single)}, None) for f in ("row", "list", "arr")]
    if multi is not None:
        setups, ref, _ = multi
        w = max(len(s) for s in setups)
        out.append(({"form": "lists", "v": setups}, ref))
        st = rng.choice(LABEL_STYLES + ["range"])
        out.append(({"form": "tab", "v": [s + [None] * (w - len(s)) for s in setups], "idx": None if st == "range" else row_labels(rng, len(setups), st)}, ref))
    return out


LABEL_STYLES = ["one-based", "ascending", "descending", "shuffled", "natural", "ints-unordered", "duplicated"]
WORDS = ["roof", "base", "mid", "top", "deck", "pier", "span", "east", "west", "north", "south", "core", "arch", "wing"]


def row_labels(rng, m, style=None):
    """row labels of a table whose row ORDER carries the meaning (setups, points, lines, nodes): the labels must never matter"""
    style = style or rng.choice(LABEL_STYLES)
    if style == "one-based":
        return list(range(1, m + 1))
    if style == "ascending":
        return ["s%02d" % i for i in range(m)]
    if style == "descending":
        return ["s%02d" % i for i in range(m)][::-1]
    if style == "shuffled":
        w = sorted(rng.sample(WORDS, m)) if m <= len(WORDS) else ["w%03d" % i for i in range(m)]
        out = w[:]
        while m > 1 and out == w:
            rng.shuffle(out)
        return out
    if style == "natural":  # setup9, setup10, setup11 ...: natural order, lexicographically setup10 < setup9
        return ["setup%d" % (i + 9) for i in range(m)]
    if style == "ints-unordered":
        out = list(range(10, 10 + m))[::-1]
        if m > 2:
            out[0], out[-1] = out[-1], out[0]
            out = out[1:] + out[:1]
        return out
    return [["A", "B"][(i // 2) % 2] for i in range(m)] if m > 2 else ["A"] * m  # duplicated


def lines_sheet(rng, n, w, m=None):
    m = m or rng.randint(1, 3)
    return sheet(["n%d" % i for i in range(w)], row_labels(rng, m), [[rng.randint(1, n) for _ in range(w)] for _ in range(m)])


def bg_nodes_sheet(rng, m):
    return sheet(XYZ, row_labels(rng, m), [[dy(rng), dy(rng), dy(rng)] for _ in range(m)])


def gen_geo1(rng, names, extra=0, opts=(), order=None):
    labels = list(names) + ["X%d" % i for i in range(extra)]
    if order is None:
        rng.shuffle(labels)
    else:
        labels = [labels[i] for i in order]
    co = {l: [8.0 * (j + 1) + dy(rng, 0, 7), dy(rng), dy(rng)] for j, l in enumerate(sorted(labels))}
    di = {l: [rng.choice([-1, 0, 1, 1]), rng.choice([-1, 0, 1]), rng.choice([0, 1, -1, 0.5])] for l in labels}
    S = {"sensors coordinates": sheet(XYZ, labels, [co[l] for l in labels]),
         "sensors directions": sheet(XYZ, labels, [di[l] for l in labels])}
    n = len(names)
    if "sensors lines" in opts:
        S["sensors lines"] = lines_sheet(rng, n, 2)
    if "BG nodes" in opts:
        S["BG nodes"] = bg_nodes_sheet(rng, 3)
    if "BG lines" in opts:
        S["BG lines"] = lines_sheet(rng, 3, 2)
    if "BG surfaces" in opts:
        S["BG surfaces"] = lines_sheet(rng, 3, 3, m=1)
        S["BG surfaces"]["rows"] = [[1, 2, 3]]
    return S


def gen_geo2(rng, names, opts=(), ncstr=None, npts=None, cperm=None):
    n = len(names)
    ncstr = rng.randint(1, 2) if ncstr is None and "constraints" in opts else (ncstr or 0)
    cn = ["C%d" % (i + 1) for i in range(ncstr)] if "constraints" in opts else []
    must = list(names) + cn
    npts = npts or max(1, -(-len(must) // 3) + rng.randint(0, 2))
    if "sensors surfaces" in opts:
        npts = max(npts, 3)
    slots = [(i, j) for i in range(npts) for j in range(3)]
    rng.shuffle(slots)
    zero = lambda: rng.choice([0, 0.0, None, 0])
    grid = [[zero() for _ in range(3)] for _ in range(npts)]
    for s, (i, j) in zip(must, slots):
        grid[i][j] = s
    for (i, j) in slots[len(must):]:
        if rng.random() < 0.3:
            grid[i][j] = rng.choice(must)
    idx = row_labels(rng, npts)
    pts = [[8.0 * (i + 1) + dy(rng, 0, 7), 8.0 * ((i * 5) % 7) + dy(rng, 0, 7), dy(rng)] for i in range(npts)]
    S = {"points coordinates": sheet(XYZ, idx, pts), "mapping": sheet(XYZ, idx if rng.random() < 0.7 else row_labels(rng, npts), grid)}
    if "constraints" in opts:
        ccols = rng.sample(list(names), rng.randint(1, n)) if cperm is None else [names[i] for i in cperm]
        S["constraints"] = sheet(ccols, cn, [[rng.choice([dy(rng), dy(rng), None, 0.5]) for _ in ccols] for _ in cn])
    if "sensors sign" in opts:
        S["sensors sign"] = sheet(XYZ, idx, [[rng.choice([1, -1, 1, -1, 0]) for _ in range(3)] for _ in range(npts)])
    if "sensors lines" in opts:
        S["sensors lines"] = lines_sheet(rng, npts, 2)
    if "sensors surfaces" in opts:
        S["sensors surfaces"] = sheet(["i", "j", "k"], row_labels(rng, rng.randint(1, 2)), [])
        S["sensors surfaces"]["rows"] = [rng.sample(range(1, npts + 1), 3) for _ in S["sensors surfaces"]["idx"]]
    if "BG nodes" in opts:
        S["BG nodes"] = bg_nodes_sheet(rng, 3)
    if "BG lines" in opts:
        S["BG lines"] = lines_sheet(rng, 3, 2)
    if "BG surfaces" in opts:
        S["BG surfaces"] = sheet(["i", "j", "k"], [1], [[1, 2, 3]])
    return S


def cp(x):
    return json.loads(json.dumps(x))


def near_variants(n):
    """labels that LOOK like the name n but are not equal to it: each makes the sensor absent"""
    fw = "".join(chr(ord(ch) + 0xFEE0) if i == 0 and "!" <= ch <= "~" else ch for i, ch in enumerate(n))
    return [("a trailing blank", n + " "), ("a leading blank", " " + n), ("another letter case", n.swapcase()),
            ("a full-width look-alike", fw), ("a numeric-looking suffix", n + ".0"), ("a tab", n + "\t")]


def faults(kind, case, rng):
    """every single-fault corruption of a valid table set: list of (label, corrupted case, expressible on the class path)"""
    out = []

    def mut(label, f, cls_ok=True):
        c = cp(case)
        c["fault"] = label
        if f(c) is not False:
            out.append((c, cls_ok))

    S0 = case["sheets"]
    main, other = ("sensors coordinates", "sensors directions") if kind == "geo1" else ("points coordinates", "mapping")
    mut("missing:sensors names", lambda c: c.update(names=None), False)
    mut("missing:" + main, lambda c: c["sheets"].pop(main), False)
    mut("missing:" + other, lambda c: c["sheets"].pop(other), False)
    mut("unknown sheet", lambda c: c["sheets"].update({"sensor lines": lines_sheet(rng, 2, 2)}), False)
    mut("unknown sheet (empty)", lambda c: c["sheets"].update({"Sheet1": sheet([], [], [])}), False)
    # a sheet of the OTHER template is unknown here too: each such name, one at a time, empty and non-empty
    own = (G1_REQ + G1_OPT) if kind == "geo1" else (G2_REQ + G2_OPT)
    for k in [x for x in ((G2_REQ + G2_OPT) if kind == "geo1" else (G1_REQ + G1_OPT)) if x not in own]:
        mut("unknown sheet:'%s' belongs to the other template" % k, lambda c, k=k: c["sheets"].update({k: sheet(["i", "j", "k"], [1], [[1, 2, 3]])}), False)
        mut("unknown sheet:'%s' belongs to the other template (empty)" % k, lambda c, k=k: c["sheets"].update({k: sheet([], [], [])}), False)

    def cols(c, k, d):
        sh = c["sheets"][k]
        if d < 0:
            sh["cols"] = sh["cols"][:d]
            sh["rows"] = [r[:d] for r in sh["rows"]]
        else:
            sh["cols"] = sh["cols"] + ["w"]
            sh["rows"] = [r + [r[0] if not isinstance(r[0], str) else 0] for r in sh["rows"]]

    for d in (-1, 1):
        mut("%s:%+d column (both tables)" % (main, d), lambda c, d=d: (cols(c, main, d), cols(c, other, d)))
        mut("%s:%+d column" % (other, d), lambda c, d=d: cols(c, other, d))
        mut("%s:%+d column" % (main, d), lambda c, d=d: cols(c, main, d))
    if kind == "geo1":
        mut(other + ":row dropped", lambda c: (c["sheets"][other]["rows"].pop(), c["sheets"][other]["idx"].pop()))
    else:
        # dropping a mapping row that holds the only cell of a sensor is still one fault (shape)
        mut(other + ":row dropped", lambda c: (c["sheets"][other]["rows"].pop(), c["sheets"][other]["idx"].pop()))
        mut(other + ":row added", lambda c: (c["sheets"][other]["rows"].append([0, 0, 0]), c["sheets"][other]["idx"].append(99)))
    for k, n in (("BG nodes", 3), ("BG lines", 2), ("BG surfaces", 3)):
        if k in S0:
            for d in (-1, 1):
                mut("%s:%+d column" % (k, d), lambda c, k=k, d=d: cols(c, k, d))
    names = oracle_names(case)
    if kind == "geo1":
        idx = S0[main]["idx"]
        if len(idx) >= 2:
            def swap(c):
                sh = c["sheets"][other]
                sh["idx"][0], sh["idx"][1] = sh["idx"][1], sh["idx"][0]
                sh["rows"][0], sh["rows"][1] = sh["rows"][1], sh["rows"][0]
            mut("directions in another row order", swap)
        mut("directions: one label differs", lambda c: c["sheets"][other]["idx"].__setitem__(0, "Q_" + str(idx[0])))
        tgt = names[-1]

        def ren(c):
            for k in (main, other):
                c["sheets"][k]["idx"] = ["Q_" + tgt if str(i) == tgt else i for i in c["sheets"][k]["idx"]]
        mut("sensor name absent from both tables", ren)
        for lab, var in near_variants(tgt):
            if var not in [str(i) for i in S0[main]["idx"]]:
                def renv(c, var=var):
                    for k in (main, other):
                        c["sheets"][k]["idx"] = [var if str(i) == tgt else i for i in c["sheets"][k]["idx"]]
                mut("sensor name absent (tables carry %s)" % lab, renv)
        lab, var = near_variants(tgt)[rng.randrange(4)]
        if case["names"]["form"] in ("row", "list", "arr") and var not in names:
            mut("sensor name absent (names carry %s)" % lab, lambda c, var=var: c["names"].update(v=[var if x == tgt else x for x in c["names"]["v"]]))

        def dup(c):
            for k in (main, other):
                sh = c["sheets"][k]
                sh["idx"].append(sh["idx"][0])
                sh["rows"].append([x + 1 if k == main else x for x in sh["rows"][0]])
        mut("duplicate label", dup)
    else:
        # prefer a name that is a proper substring of another one (membership must be by whole cell, not by substring)
        tgt = next((n for n in names if any(n != m and n in m for m in names)), names[-1])

        def gone(c):
            c["sheets"][other]["rows"] = [[(0 if x == tgt else x) for x in r] for r in c["sheets"][other]["rows"]]
        mut("sensor name absent from mapping", gone)
        cells0 = [x for r in S0[other]["rows"] for x in r if isinstance(x, str)]
        for lab, var in near_variants(tgt):
            if var not in cells0 and var not in names:
                mut("sensor name absent (mapping carries %s)" % lab,
                    lambda c, var=var: c["sheets"][other].update(rows=[[(var if x == tgt else x) for x in r] for r in c["sheets"][other]["rows"]]))
        if "sensors sign" in S0:
            if len(S0["sensors sign"]["rows"]) >= 2:  # dropping the only row leaves an EMPTY sheet = an omitted optional sheet: not a fault
                mut("sensors sign:row dropped", lambda c: (c["sheets"]["sensors sign"]["rows"].pop(), c["sheets"]["sensors sign"]["idx"].pop()))
            mut("sensors sign:-1 column", lambda c: cols(c, "sensors sign", -1))
        if "constraints" in S0:
            mut("constraints: column names an unknown sensor", lambda c: c["sheets"]["constraints"]["cols"].__setitem__(0, "Q_unknown"))

            def unused(c):
                cs = c["sheets"]["constraints"]
                cs["idx"].append("C_unused")
                cs["rows"].append([1.0] * len(cs["cols"]))
            mut("constraints: row the mapping never uses", unused)

            def sensor_row(c):
                cs = c["sheets"]["constraints"]
                cs["idx"].append(names[0])
                cs["rows"].append([1.0] * len(cs["cols"]))
            mut("constraints: row labelled with a sensor name", sensor_row)
    return out


# ------------------------------------------------------------------ the check
def first_diff(a, b):
    for i, (x, y) in enumerate(zip(a, b)):
        if x != y:
            return i, x[:300], y[:300]
    return -1, str(len(a)), str(len(b))


SITE = {"geo1": ("check_on_geo1", "def_geo1", "plot_mode_geo1"), "geo2": ("check_on_geo2", "def_geo2", "plot_mode_geo2_mpl")}


def defect_key(case, exc, what="well-formed-set-raises"):
    """stable key of the defect class an unexpected exception on a well-formed set belongs to"""
    site = SITE[case["kind"]][0 if case["path"] == "func" else 1]
    if exc == "KeyError" and case["kind"] == "geo2" and "constraints" not in case["sheets"]:
        return KEY_CSTR
    if exc == "AttributeError" and ((case["names"] or {}).get("form") in ("list", "lists", "arr") or (
            case["path"] != "func" and any(sh.get("arr") for sh in case["sheets"].values()))):
        return KEY_ARGS
    return "C19:%s:%s-%s" % (site, what, exc)


def run(ctx):
    rng = ctx.rng
    ctx.extra["rule"] = ("[inputs of every call compared with pristine copies; repeated definitions from the same table objects judged on the pristine tables] valid table sets (1-6 sensors quick / up to 12 thorough; every row permutation for <= 4; all documented name forms and "
                         "reference layouts; every subset of optional sheets) + every single-fault corruption of them + a malformed-names stream; "
                         "through gen.check_on_geo1/2 and def_geo1/2 of the three setup classes; dfphi_map_func on random tables; mode plots under Agg. "
                         "A case is non-trivial when its table order differs from the name order, or it carries a fault, an optional sheet, "
                         "a constraint or a multi-setup name form; distinct by hash of the whole case. "
                         "[positional forms] a share of the table sets (those with most optional tables, plus sets with every optional table on every path) again with "
                         "check_on_geo1/2, flatten_sns_names, dfphi_map_func, def_geo1/2, plot_mode_geo1, plot_mode_geo2_mpl and the plotter classes' plot_mode "
                         "called fully positionally in the pristine parameter order with non-default values: same answer as the keyword call (fields / every artist "
                         "with colours and view) and the property on it")
    ctx.assumptions += [
        "pandas semantics mirrored by the model (reindex incl. the duplicate-label ValueError, fillna, DataFrame.empty, sub, column selection, replace/astype(float)), pandas %s" % pd.__version__,
        "documented cell forms: names are not numeric literals, tables rectangular, index tables/coordinates/signs/coefficients numeric (outside them the model is not claimed faithful)",
        "Matplotlib accessors Line3D.get_data_3d, Path3DCollection._offsets3d, Poly3DCollection._faces report the plotted coordinates",
        "array arguments of def_geo1/def_geo2 are matched to the coordinate table BY POSITION (rows of sens_dir = rows of sens_coord)",
    ]
    from pyoma2.functions import gen

    pools = Pools()
    cases = []
    repeats = []

    def add(kind, path, nm, ref, S, fault=None, plot=None, arr=()):
        c = {"kind": kind, "path": path, "names": nm, "ref": ref, "sheets": cp(S), "fault": fault, "plot": plot}
        for k in arr:
            if k in c["sheets"]:
                c["sheets"][k]["arr"] = True
        cases.append(c)
        return c

    # ---- corpus first
    cdir = os.path.join(VERIF, "corpus", "C19")
    if os.path.isdir(cdir):
        for fn in sorted(os.listdir(cdir)):
            if fn.endswith(".json"):
                for c in json.load(open(os.path.join(cdir, fn)))["cases"]:
                    (repeats if c.get("kind") == "repeat" else cases).append(c)
    ncorpus = len(cases) + len(repeats)

    def mk_plot(n, kind):
        nm_ = rng.randint(1, 3)
        return {"Phi": [[dy(rng, -16, 16, 8) for _ in range(nm_)] for _ in range(n)], "mode": rng.randint(1, nm_),
                "scale": rng.choice([1, 2, 0.5, 3]), "color": rng.choice(["cmap", "blue", "cmap"]), "view": rng.choice(["3D", "xy", "xz", "yz"])}

    multi_paths = ["PreGER", "PoSER"]
    nmax = ctx.n(6, 12)
    # ---- (1) every row permutation, <= 4 sensors, geo1 (all single name forms; func + class)
    for n in range(1, 5):
        names = pick_names(rng, n)
        for order in itertools.permutations(range(n)):
            S = gen_geo1(rng, names, opts=("sensors lines",) if n > 1 and rng.random() < 0.4 else (), order=list(order))
            form = rng.choice(["row", "list", "arr"])
            path = rng.choice(["func", "SingleSetup", "SingleSetup"])
            add("geo1", path, {"form": form, "v": names}, None, S, plot=mk_plot(n, "geo1") if path != "func" else None,
                arr=("sensors directions", "sensors lines") if path != "func" and rng.random() < 0.5 else ())
    # every column permutation of the constraint table, <= 3 sensors, geo2
    for n in range(1, 4):
        names = pick_names(rng, n)
        for order in itertools.permutations(range(n)):
            for keep in range(1, n + 1):
                S = gen_geo2(rng, names, opts=("constraints", "sensors sign"), cperm=list(order)[:keep], ncstr=n if keep == n else None)
                path = rng.choice(["func", "SingleSetup"])
                add("geo2", path, {"form": rng.choice(["row", "list", "arr"]), "v": names}, None, S, plot=mk_plot(n, "geo2") if path != "func" else None)
    # ---- (2) every subset of optional sheets (one base each per tier step), func and class
    for rep in range(ctx.n(1, 4)):
        names = pick_names(rng, rng.randint(2, 4))
        for r in range(len(G1_OPT) + 1):
            for opts in itertools.combinations(G1_OPT, r):
                S = gen_geo1(rng, names, extra=rng.randint(0, 1), opts=opts)
                add("geo1", "func", {"form": "row", "v": names}, None, S)
                add("geo1", "SingleSetup", {"form": rng.choice(["list", "arr", "row"]), "v": names}, None, S,
                    plot=mk_plot(len(names), "geo1") if rng.random() < 0.3 else None, arr=rng.sample(G1_OPT + ["sensors directions"], rng.randint(0, 5)))
        for r in range(len(G2_OPT) + 1):
            for opts in itertools.combinations(G2_OPT, r):
                S = gen_geo2(rng, names, opts=opts)
                if rng.random() < 0.5 or rep == 0:
                    add("geo2", "func", {"form": "row", "v": names}, None, S)
                if rng.random() < 0.5:
                    add("geo2", "SingleSetup", {"form": rng.choice(["list", "arr", "row"]), "v": names}, None, S,
                        plot=mk_plot(len(names), "geo2") if rng.random() < 0.25 else None,
                        arr=rng.sample(["sensors lines", "sensors surfaces", "BG nodes", "BG lines", "BG surfaces"], rng.randint(0, 5)))
    # ---- (3) all name forms x reference layouts x paths, random sizes; faults of each valid set
    valid_for_faults = []
    for rep in range(ctx.n(14, 80)):
        n = rng.randint(1, nmax) if rep % 3 else rng.randint(max(1, nmax - 2), nmax)
        kind = "geo1" if rep % 2 == 0 else "geo2"
        k = rng.randint(1, min(2, n))
        multi = multi_layout(rng, n - k, k=k) if n - k >= 0 else None
        for (nm, ref) in names_variants(rng, pick_names(rng, n), multi):
            flat = oracle_names({"names": nm, "ref": ref})
            o1 = [x for x in G1_OPT if rng.random() < 0.4]
            o2 = [x for x in G2_OPT if rng.random() < 0.45]
            S = gen_geo1(rng, flat, extra=rng.randint(0, 2), opts=o1) if kind == "geo1" else gen_geo2(rng, flat, opts=o2)
            if ref is None:
                path = rng.choice(["func", "SingleSetup", "SingleSetup", "PreGER", "PoSER"])
                r_ = [[0], [0]] if path in multi_paths else None  # a single-row name table on a multi-setup object
            else:
                path = rng.choice(["func", "PreGER", "PoSER"])
                r_ = ref
            arr = [x for x in ("sensors directions", "sensors lines", "sensors surfaces", "BG nodes", "BG lines", "BG surfaces") if rng.random() < 0.4] if path != "func" else []
            c = add(kind, path, nm, r_, S, plot=mk_plot(len(flat), kind) if path != "func" and rng.random() < 0.6 else None, arr=arr)
            if rng.random() < ctx.n(0.45, 0.3):
                valid_for_faults.append(c)
    # ---- (3b) multi-setup names as a row table whose row LABELS are in every kind of order: setups follow row POSITION
    for st in LABEL_STYLES + ["range"]:
        for kind in ("geo1", "geo2"):
            for path in ("func", rng.choice(multi_paths)):
                nset = rng.choice([3, 3, 4])
                setups, ref, flat = multi_layout(rng, rng.randint(nset, nset + 2), nset=nset, k=rng.randint(1, 2))
                w = max(len(x) for x in setups)
                nm = {"form": "tab", "v": [x + [None] * (w - len(x)) for x in setups], "idx": None if st == "range" else row_labels(rng, nset, st)}
                S = gen_geo1(rng, flat, extra=1, opts=("sensors lines",)) if kind == "geo1" else gen_geo2(rng, flat, opts=[x for x in G2_OPT if rng.random() < 0.4])
                c = add(kind, path, nm, ref, S, plot=mk_plot(len(flat), kind) if path != "func" else None)
                ctx.hist("names row labels", st)
                if st == "shuffled" and path == "func":
                    valid_for_faults.append(c)
    for sub in (["ab", "a", "w"], ["S10", "k9", "S1"], ["u22", "u2"], ["Acc11", "Acc1", "T", "ab", "b"]):
        names = list(sub)
        rng.shuffle(names)
        for kind in ("geo1", "geo2"):
            S = gen_geo1(rng, names, extra=1) if kind == "geo1" else gen_geo2(rng, names, opts=[x for x in G2_OPT if rng.random() < 0.3])
            valid_for_faults.append(add(kind, rng.choice(["func", "SingleSetup"]), {"form": rng.choice(["row", "list", "arr"]), "v": names}, None, S))
    for c in valid_for_faults:
        for (fc, cls_ok) in faults(c["kind"], c, rng):
            fc["plot"] = None
            for k in ("sensors directions", "sensors sign"):  # an unlabelled array cannot carry a label fault
                if k in fc["sheets"]:
                    fc["sheets"][k]["arr"] = False
            if not cls_ok:
                fc["path"] = "func"
                for sh in fc["sheets"].values():
                    sh["arr"] = False
            cases.append(fc)
    # ---- (4) stream outside the judged part: names in forms the property does not document (kinds compared with the model only)
    for rep in range(ctx.n(6, 20)):
        n = rng.randint(2, 4)
        setups, ref, flat = multi_layout(rng, n, nset=2, k=1)
        S = gen_geo1(rng, flat) if rep % 2 else gen_geo2(rng, flat)
        kind = "geo1" if rep % 2 else "geo2"
        add(kind, "func", {"form": "lists", "v": setups}, None, S, fault="x:multi-setup names without ref_ind")
        add(kind, "func", {"form": "lists", "v": setups}, ref[:1], S, fault="x:ref_ind shorter than the setups")
        add(kind, "func", {"form": "lists", "v": setups}, ref + [[5]], S, fault=None)  # surplus entries are ignored
        S2 = cp(S)
        key = "sensors lines"
        S2[key] = sheet(["a", "b"], [1], [["p", 2]])
        add(kind, "func", {"form": "lists", "v": setups}, ref, S2, fault="x:string in an index table")

    # ---- (4b) the SAME table objects used for several definitions (an in-place edit of the caller's table shows only then)
    COMMON = ["sensors lines", "BG nodes", "BG lines", "BG surfaces"]
    for rep in range(ctx.n(8, 30)):
        n = rng.randint(2, min(5, nmax))
        names = pick_names(rng, n)
        S1 = gen_geo1(rng, names, extra=rng.randint(0, 1), opts=COMMON)
        S2 = gen_geo2(rng, names, opts=[x for x in G2_OPT if x in COMMON or x == "sensors surfaces" or rng.random() < 0.5])
        for k in COMMON:
            S2[k] = cp(S1[k])
        form = rng.choice(["list", "row", "arr"])
        arr = COMMON + ["sensors surfaces"] if rep % 4 == 3 else []  # mostly DataFrames: the caller's object is handed through unchanged

        def mkc(kind, path, S, obj=0):
            c = {"kind": kind, "path": path, "names": {"form": form, "v": list(names)}, "ref": None, "sheets": cp(S), "fault": None, "plot": None, "obj": obj}
            for k in arr:
                if k in c["sheets"] and path != "func":
                    c["sheets"][k]["arr"] = True
            return c
        allk = ["sensors names"] + sorted(set(S1) | set(S2))
        repeats.append({"kind": "repeat", "scenario": "def_geo1 twice, same tables", "shared": allk, "steps": [mkc("geo1", "SingleSetup", S1)] * 2})
        repeats.append({"kind": "repeat", "scenario": "def_geo2 three times, same tables", "shared": allk, "steps": [mkc("geo2", "SingleSetup", S2)] * 3})
        repeats.append({"kind": "repeat", "scenario": "def_geo1 then def_geo2 on one setup, shared lines/background tables", "shared": COMMON + ["sensors names"],
                        "steps": [mkc("geo1", "SingleSetup", S1), mkc("geo2", "SingleSetup", S2)]})
        repeats.append({"kind": "repeat", "scenario": "the same tables on two setups", "shared": allk,
                        "steps": [mkc("geo2", "SingleSetup", S2, 0), mkc("geo2", "SingleSetup", S2, 1), mkc("geo1", "SingleSetup", S1, 1)]})
        repeats.append({"kind": "repeat", "scenario": "check_on_geo%d twice on the same tables" % (1 + rep % 2), "shared": allk,
                        "steps": [mkc("geo1", "func", S1) if rep % 2 == 0 else mkc("geo2", "func", S2)] * 2})
    for scn in repeats:
        ctx.count(scn, nontrivial=True)
        ctx.hist("repeat scenario", scn["scenario"].split(",")[0][:40])
        run_repeat(scn, pools, ctx)

    # ---- run the implementation, build model expressions
    exprs, meta = [], []
    for ci, case in enumerate(cases):
        kind = case["kind"]
        names = oracle_names(case)
        flt = case.get("fault")
        impl = call_impl(case, pools)
        plot_out = None
        if impl[0] == "ok" and case.get("plot") and impl[2] is not None:
            plot_out = call_plot(case, impl[2])
        dfphi_out = None
        if kind == "geo2" and impl[0] == "ok" and impl[2] is not None and case.get("plot"):
            pl = case["plot"]
            g2 = impl[2].geo2
            try:
                dfphi_out = ("ok", gen.dfphi_map_func(np.array([row[pl["mode"] - 1] for row in pl["Phi"]], float), g2.sens_names, g2.sens_map, cstrn=g2.cstrn).to_numpy())
            except Exception as e:  # noqa: BLE001
                dfphi_out = ("err", type(e).__name__)
        nontriv = bool(flt) or case["names"] is None or (case["names"]["form"] in ("tab", "lists")) or len(case["sheets"]) > 2 or (
            names is not None and kind == "geo1" and [str(i) for i in case["sheets"].get("sensors coordinates", {"idx": []})["idx"]][:len(names)] != names)
        ctx.count(case, nontrivial=nontriv)
        ctx.hist("kind/path", "%s/%s" % (kind, case["path"]))
        ctx.hist("names form", "missing" if case["names"] is None else case["names"]["form"])
        ctx.hist("sensors", len(names) if names else 0)
        ctx.hist("fault", flt or "none")
        ctx.hist("outcome", "ok" if impl[0] == "ok" else impl[1])
        if ci % 97 == 0:
            ctx.sample({k: case[k] for k in ("kind", "path", "names", "ref", "fault")})
        show = "showG1" if kind == "geo1" else "showG2"
        chk = "check_geo1" if kind == "geo1" else "check_geo2"
        e = "let fd := %s in let rf := %s in showRes %s (%s fd rf)" % (coq_fd(case), coq_ref(case["ref"]), show, chk)
        if case.get("plot"):
            pl = case["plot"]
            phi = [row[pl["mode"] - 1] for row in pl["Phi"]]
            if kind == "geo1":
                e += ' ++ "@" ++ showRes showArrows (geo1_arrows fd rf %s %s)' % (clist([qc(x) for x in phi]), qc(pl["scale"]))
            else:
                e += ' ++ "@" ++ showRes showOMat (geo2_points fd rf %s %s) ++ "@" ++ showRes showOMat (geo2_mapped fd rf %s)' % (
                    clist([qc(x) for x in phi]), qc(pl["scale"]), clist([qc(x) for x in phi]))
        exprs.append(e)
        meta.append((case, names, impl[:3] if impl[0] == "err" else impl[:2], plot_out, dfphi_out, impl[3]))
    res = ctx.coq_eval(HEADER, exprs, shard=ctx.n(60, 120))

    for (case, names, impl, plot_out, dfphi_out, mutated), s in zip(meta, res):
        kind, flt = case["kind"], case.get("fault")
        site = SITE[kind][0 if case["path"] == "func" else 1]
        if mutated:
            ctx.fail("oracle", "%s modified its caller's table(s) %s: any later definition from the same tables is built from altered data" % (site, mutated),
                     case, key="C19:%s:input-mutated" % site)
        parts = s.split("@")
        m = parts[0].split("#")
        m_ok = m[0] == "Ok"
        # ---------- oracle (property text)
        judged = names is not None and not (flt or "").startswith("x:")
        reason = oracle_malformed(case, names or []) if (judged or case["names"] is None) else None
        if case["names"] is None:
            judged = True
        key = None
        if judged and bool(reason) != bool(flt):
            # generator and oracle predicate disagree about this table set (e.g. an injected fault that is a no-op):
            # the oracle does not judge it; the comparison with the model below still runs
            ctx.not_judged += 1
            ctx.note("generator/oracle inconsistency, case not judged by the oracle: injected fault %r, oracle predicate says %r" % (flt, reason))
            judged = False
            reason = None
        if judged:
            if reason:
                if impl[0] == "ok" or impl[1] not in ("ValueError", "ValidationError"):
                    key = "C19:%s:malformed-accepted:%s" % (site, flt.split(":")[0]) if impl[0] == "ok" else defect_key(case, impl[1], "malformed-set-raises")
                    ctx.fail("oracle", "%s: malformed table set (%s; %s) %s instead of raising ValueError" % (
                        site, flt, reason, "produced a geometry" if impl[0] == "ok" else "raised " + impl[1]), case, key=key)
            else:
                if impl[0] != "ok":
                    key = defect_key(case, impl[1])
                    ctx.fail("oracle", "%s: a well-formed table set in a documented form raised %s (%s)" % (site, impl[1], impl[2]), case, key=key)
                else:
                    exp = oracle_geo(case, names)
                    if exp != impl[1]:
                        i, x, y = first_diff(exp, impl[1])
                        fld = (["sens_names", "sens_coord", "sens_dir", "sens_lines", "bg_nodes", "bg_lines", "bg_surf"] if kind == "geo1" else
                               ["sens_names", "pts_coord", "sens_map", "cstrn", "sens_sign", "sens_lines", "sens_surf", "bg_nodes", "bg_lines", "bg_surf"])[i]
                        key = "C19:%s:%s" % (site, fld)
                        ctx.fail("oracle", "%s: field %s is not what the property prescribes (re-ordered to the sensor names / zero-based / completed): expected %s got %s"
                                 % (site, fld, x, y), case, key=key)
        # ---------- correspondence (model)
        if impl[0] == "ok":
            if not m_ok or m[1:] != impl[1]:
                i, x, y = first_diff(m[1:], impl[1]) if m_ok else (-1, s[:200], "a geometry")
                ctx.fail("correspondence", "%s: model %s, implementation %s (field %d)" % (site, x, y, i), case, key=key or "C19:%s:corr-fields" % site)
        else:
            want = m[1] if not m_ok else None
            okk = (not m_ok) and (impl[1] == want or (want == "ValueError" and impl[1] == "ValidationError") or want != "ValueError")
            if not okk:
                dk = defect_key(case, impl[1])
                key = key or (dk if dk in (KEY_CSTR, KEY_ARGS) else None)
                ctx.fail("correspondence", "%s: implementation raised %s (%s), model %s" % (site, impl[1], impl[2], s[:120]), case,
                         key=key or "C19:%s:corr-outcome" % site)
        # ---------- plots and mapping
        if plot_out is not None and judged and not reason:
            pl = case["plot"]
            psite = SITE[kind][2]
            phi = [row[pl["mode"] - 1] for row in pl["Phi"]]
            scale = pl["scale"]
            if plot_out[0] != "ok":
                ctx.fail("oracle", "%s raised %s (%s) on a well-formed geometry" % (psite, plot_out[1], plot_out[2]), case, key="C19:%s:raises-%s" % (psite, plot_out[1]))
                continue
            segs, pts, polys = plot_out[1]
            ctx.count(dict(case, observed="plot"), nontrivial=True)
            if kind == "geo1":
                arrows = oracle_arrows1(case, names, phi, scale)
                tol = 1e-9 * max(1.0, max(np.abs(b).max() for _, b in arrows))
                bad = [k for k, (a, b) in enumerate(arrows) if not contains(segs, np.array([a, b]), tol) or not contains([np.array([p]) for p in pts], np.array([a]), tol)]
                if bad:
                    ctx.fail("oracle", "%s: component %d of the mode shape is not drawn at the sensor named %s along its direction (arrow %s -> %s missing)" % (
                        psite, bad[0], names[bad[0]], arrows[bad[0]][0].tolist(), arrows[bad[0]][1].tolist()), case, key="C19:%s:arrow" % psite)
                C = [a for a, _ in arrows]
                for (lk, base) in (("sensors lines", C), ("BG lines", None)):
                    if present(case, lk) and (base is not None or present(case, "BG nodes")):
                        B = base if base is not None else [np.array(r, float) for r in case["sheets"]["BG nodes"]["rows"]]
                        for r in case["sheets"][lk]["rows"]:
                            if not contains(segs, np.array([B[int(r[0]) - 1], B[int(r[1]) - 1]]), tol):
                                ctx.fail("oracle", "%s: line %s of '%s' (one-based) is not drawn between its two nodes" % (psite, r, lk), case, key="C19:%s:%s-shift" % (psite, lk))
                                break
                mo = parts[1].split("#")
                if mo[0] != "Ok":
                    ctx.fail("correspondence", "%s drew a mode, model %s" % (psite, parts[1][:80]), case, key="C19:%s:corr" % psite)
                else:
                    for k, ar in enumerate(mo[1].split(";")):
                        a, b = [np.array([float(Fraction(t)) for t in h.split(" ")]) for h in ar.split(">")]
                        if not contains(segs, np.array([a, b]), tol):
                            ctx.fail("correspondence", "%s: model arrow %d (%s -> %s) not among the drawn lines" % (psite, k, a.tolist(), b.tolist()), case, key="C19:%s:corr" % psite)
                            break
            else:
                NP = oracle_points2(case, names, phi, scale)
                tol = 1e-9 * max(1.0, np.abs(NP).max())
                P1 = [np.array([p]) for p in pts]
                bad = [i for i in range(len(NP)) if not contains(P1, NP[i:i + 1], tol)]
                if bad:
                    ctx.fail("oracle", "%s: point %d is not displayed at coordinates + mapped value x sign = %s" % (psite, bad[0] + 1, NP[bad[0]].tolist()), case, key="C19:%s:displacement" % psite)
                if present(case, "sensors lines"):
                    for r in case["sheets"]["sensors lines"]["rows"]:
                        if not contains(segs, np.array([NP[int(r[0]) - 1], NP[int(r[1]) - 1]]), tol):
                            ctx.fail("oracle", "%s: line %s (one-based) is not drawn between its two displaced points" % (psite, r), case, key="C19:%s:lines-shift" % psite)
                            break
                if present(case, "sensors surfaces") and polys:
                    for r in case["sheets"]["sensors surfaces"]["rows"]:
                        tri = np.array([NP[int(i) - 1] for i in r])
                        if not any(p.shape == tri.shape and np.allclose(sorted(p.tolist()), sorted(tri.tolist()), rtol=0, atol=tol) for p in polys):
                            ctx.fail("oracle", "%s: surface %s (one-based) is not drawn on its three displaced points" % (psite, r), case, key="C19:%s:surf-shift" % psite)
                            break
                mo = parts[1].split("#")
                if mo[0] != "Ok":
                    ctx.fail("correspondence", "%s drew a mode, model %s" % (psite, parts[1][:80]), case, key="C19:%s:corr" % psite)
                else:
                    MP = np.array([[float(Fraction(t)) if t != "nan" else np.nan for t in r.split(" ")] for r in mo[1].split(";")])
                    if MP.shape != NP.shape or any(not contains(P1, MP[i:i + 1], tol) for i in range(len(MP))):
                        ctx.fail("correspondence", "%s: model points %s not among the drawn points" % (psite, MP.tolist()), case, key="C19:%s:corr" % psite)
        # dfphi_map_func through the stored geometry (class path, geo2, judged)
        if dfphi_out is not None and judged and not reason:
            pl = case["plot"]
            phi = np.array([row[pl["mode"] - 1] for row in pl["Phi"]], float)
            if dfphi_out[0] != "ok":
                ctx.fail("oracle", "dfphi_map_func raised %s on a validated geometry" % dfphi_out[1], case, key="C19:dfphi_map_func:raises-%s" % dfphi_out[1])
                continue
            M = dfphi_out[1]
            ctx.count(dict(case, observed="dfphi"), nontrivial=True)
            exp = oracle_mapped(case, names, phi.tolist())
            tol = 1e-9 * max(1.0, np.abs(exp).max())
            if M.shape != exp.shape or not np.allclose(M, exp, rtol=0, atol=tol):
                ctx.fail("oracle", "dfphi_map_func: a cell does not hold its sensor's component / the prescribed combination / zero: expected %s got %s" % (exp.tolist(), M.tolist()),
                         case, key="C19:dfphi_map_func:value")
            mo = parts[2].split("#")
            MM = np.array([[float(Fraction(t)) if t != "nan" else np.nan for t in r.split(" ")] for r in mo[1].split(";")]) if mo[0] == "Ok" else None
            if MM is None or MM.shape != M.shape or not np.allclose(M, MM, rtol=0, atol=tol, equal_nan=True):
                ctx.fail("correspondence", "dfphi_map_func differs from the model: %s vs %s" % (M.tolist(), parts[2][:200]), case, key="C19:dfphi_map_func:corr")

    # ---- (4c) a share of the table sets again with every entry point called fully positionally (pristine parameter order)
    run_positional(ctx, pools, [(m_[0], m_[1], m_[2]) for m_ in meta])

    # ---- (5) dfphi_map_func called directly on random tables (raw NaN cells, unknown names, positional constraint matrix)
    exprs, meta = [], []
    for rep in range(ctx.n(60, 400)):
        n = rng.randint(1, nmax)
        names = pick_names(rng, n)
        ncs = rng.choice([0, 0, 1, 2, 3])
        if rep % 4 == 1 and 2 <= n <= 4:
            ncs = n  # square constraint matrix: a transposed product is only visible there
        cn = ["C%d" % (i + 1) for i in range(ncs)]
        npts = rng.randint(1, 4)
        pool = names + cn + ([rng.choice(["ghost", "REF9"])] if rep % 9 == 8 else [])
        grid = [[rng.choice([rng.choice(pool), rng.choice(pool), 0, 0.0, None]) for _ in range(3)] for _ in range(npts)]
        phi = [dy(rng, -32, 32, 8) for _ in range(n)]
        cm = [[rng.choice([dy(rng), 0, None, 1]) for _ in range(n)] for _ in range(ncs)]
        case = {"kind": "dfphi", "names": names, "phi": phi, "mapping": grid, "cstr": {"idx": cn, "rows": cm} if ncs else None}
        smap = mk_df(sheet(XYZ, list(range(1, npts + 1)), grid))
        cdf = mk_df(sheet(names, cn, cm)) if ncs else None
        try:
            out = ("ok", gen.dfphi_map_func(np.array(phi), list(names), smap, cstrn=cdf).to_numpy())
        except Exception as e:  # noqa: BLE001
            out = ("err", type(e).__name__)
        # the same call fully positionally (phi, sens_names, sens_map, cstrn): bit-equal answer, same kind of exception
        try:
            outp = ("ok", gen.dfphi_map_func(np.array(phi), list(names), mk_df(sheet(XYZ, list(range(1, npts + 1)), grid)), mk_df(sheet(names, cn, cm)) if ncs else None).to_numpy())
        except Exception as e:  # noqa: BLE001
            outp = ("err", type(e).__name__)
        if out[0] != outp[0] or (out[0] == "err" and out[1] != outp[1]) or (out[0] == "ok" and not (
                out[1].shape == outp[1].shape and np.array_equal(out[1], outp[1], equal_nan=True))):
            ctx.fail("oracle", "dfphi_map_func(phi, sens_names, sens_map, cstrn) called positionally gives %s, with cstrn as keyword %s" % (
                outp[1].tolist() if outp[0] == "ok" else outp[1], out[1].tolist() if out[0] == "ok" else out[1]), dict(case, observed="positional"),
                key=pos_key("dfphi_map_func"))
        ctx.count(case, nontrivial=True)
        ctx.hist("dfphi outcome", out[0] if out[0] == "ok" else out[1])
        exprs.append("showRes showOMat (dfphi_map %s %s %s %s)" % (
            clist([qc(x) for x in phi]), clist([cstr_(s) for s in names]), coq_tbl(XYZ, list(range(1, npts + 1)), grid),
            "(Some %s)" % coq_tbl(names, cn, cm) if ncs else "None"))
        meta.append((case, out))
    res = ctx.coq_eval(HEADER, exprs, shard=ctx.n(30, 60))
    for (case, out), s in zip(meta, res):
        mo = s.split("#")
        known = set(case["names"]) | set((case["cstr"] or {"idx": []})["idx"])
        unknown = any(isinstance(c, str) and c not in known for r in case["mapping"] for c in r)
        if out[0] == "ok":
            M = out[1]
            MM = np.array([[float(Fraction(t)) if t != "nan" else np.nan for t in r.split(" ")] for r in mo[1].split(";")]) if mo[0] == "Ok" else None
            tol = 1e-9 * max(1.0, np.nanmax(np.abs(M)) if np.isfinite(M).any() else 1.0)
            if MM is None or MM.shape != M.shape or not np.allclose(M, MM, rtol=0, atol=tol, equal_nan=True):
                ctx.fail("correspondence", "dfphi_map_func differs from the model: %s vs %s" % (M.tolist(), s[:200]), case, key="C19:dfphi_map_func:corr")
            if not unknown:
                # property text, cells other than raw NaN (a raw NaN never reaches the function through a validated geometry)
                comp = dict(zip(case["names"], case["phi"]))
                cval = {}
                if case["cstr"]:
                    for lab, r in zip(case["cstr"]["idx"], case["cstr"]["rows"]):
                        cval[lab] = sum((0.0 if x is None else x) * p for x, p in zip(r, case["phi"]))
                for i, r in enumerate(case["mapping"]):
                    for j, c in enumerate(r):
                        if c is None:
                            continue
                        want = (cval[c] if c in cval else comp[c]) if isinstance(c, str) else 0.0
                        if abs(M[i, j] - want) > tol:
                            ctx.fail("oracle", "dfphi_map_func: cell (%d,%d)=%r holds %r, the property prescribes %r" % (i, j, c, M[i, j], want), case, key="C19:dfphi_map_func:value")
                            break
        else:
            if mo[0] == "Ok":
                ctx.fail("correspondence", "dfphi_map_func raised %s, model %s" % (out[1], s[:120]), case, key="C19:dfphi_map_func:corr-outcome")
            if not unknown:
                ctx.fail("oracle", "dfphi_map_func raised %s on a table whose cells are sensors, constraints, 0 or NaN" % out[1], case, key="C19:dfphi_map_func:raises-%s" % out[1])
    ctx.note("corpus cases run first: %d" % ncorpus)
    ctx.note("not judged by the oracle (compared with the model only): multi-setup names without/with short ref_ind, string cells in index tables; "
             "column counts of 'sensors lines'/'sensors surfaces' are not validated by the code and the property text does not list them")
