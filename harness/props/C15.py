"""C15 - runs are gated, deterministic, isolated, persistent; PoSER validates its inputs.
Model: coq/Model/M_orch.v; theorems: coq/Properties/C15.v.

Every call history is executed from scratch on a real SingleSetup with real algorithm instances (small parameters,
600-sample record).  Two independent judges look at it:
  * correspondence - the Coq model (vm_compute) predicts, for the same history, which calls raise and the final state as
    terms (class, parameters, binding, result = Run c p d f, modes = Extract (Run ..) args); the implementation's final
    state is abstracted to the same vocabulary by matching its arrays against ISOLATED runs (fresh setup, one algorithm),
    i.e. the model's term is evaluated by an isolated run;
  * oracle - the property text written as Python bookkeeping (gates, "nothing stored", result == isolated run on the data
    bound at add time, shared array / other algorithms untouched, pickle round trip equal, PoSER accepts iff ...).

A second machine (coq/Model/M_orch2.v, execute2 / check_instances below) follows algorithm INSTANCES with identity on
SingleSetup and on MultiSetup_PreGER: set_run_params before / after add and run, the same instance added again, two
instances under one name, add_algorithms with several instances, rollback, add on a setup without fs.  The model's state
(every instance the caller holds, in the dict or not: parameters, data, fs, dt, result term, modes term; the dict name ->
instance in order) is compared exactly; a term is evaluated by an isolated replay (World2).  check_call_forms calls the
public entry points positionally in the documented (pristine, hard-coded) parameter order and with keywords.
"""
import copy
import glob
import hashlib
import itertools
import json
import multiprocessing
import os
import pathlib
import shutil
import struct
import time

import numpy as np
from scipy import signal

from common import VERIF, clist

import pyoma2.algorithms.fdd as _m_fdd
import pyoma2.algorithms.plscf as _m_plscf
import pyoma2.algorithms.ssi as _m_ssi
from pyoma2.algorithms import EFDD, FDD, FSDD, SSIcov, SSIdat, pLSCF
from pyoma2.functions.gen import load_from_file, save_to_file
from pyoma2.setup import MultiSetup_PoSER, SingleSetup

HEADER = "From PyOMA.Model Require Import M_orch."

CLASSES = {"FDD": FDD, "EFDD": EFDD, "FSDD": FSDD, "SSIcov": SSIcov, "SSIdat": SSIdat, "pLSCF": pLSCF}
CID = {"FDD": 1, "EFDD": 2, "FSDD": 3, "SSIcov": 4, "SSIdat": 5, "pLSCF": 6}
_HC = dict(conj=True, xi_max=0.9, mpc_lim=0.0, mpd_lim=1.0, cov_max=1.0)
PARAMS = {
    "FDD": [dict(nxseg=128, method_SD="per"), dict(nxseg=96, method_SD="cor")],
    "EFDD": [dict(nxseg=128, method_SD="per", pov=0.5), dict(nxseg=160, method_SD="per", pov=0.25)],
    "FSDD": [dict(nxseg=128, method_SD="cor"), dict(nxseg=128, method_SD="per")],
    "SSIcov": [dict(br=5, ordmax=8, method="cov_mm"), dict(br=6, ordmax=8, method="cov_R", ref_ind=[0, 1])],
    "SSIdat": [dict(br=5, ordmax=8), dict(br=4, ordmax=6, ref_ind=[0, 2])],
    "pLSCF": [dict(ordmax=5, nxseg=160, method_SD="cor", hc=_HC), dict(ordmax=6, nxseg=128, method_SD="cor", hc=_HC)],
}
MPE = {
    "FDD": [dict(sel_freq=[1.0, 2.5], DF=0.2), dict(sel_freq=[2.5], DF=0.3)],
    "EFDD": [dict(sel_freq=[1.0, 2.5], DF1=0.2, DF2=0.8, sppk=1, npmax=4), dict(sel_freq=[1.0], DF1=0.3, DF2=0.6, sppk=1, npmax=5)],
    "FSDD": [dict(sel_freq=[1.0, 2.5], DF1=0.2, DF2=0.8, sppk=1, npmax=4), dict(sel_freq=[2.5], DF1=0.3, DF2=0.6, sppk=1, npmax=5)],
    "SSIcov": [dict(sel_freq=[1.0, 2.5], order=6, rtol=0.3), dict(sel_freq=[1.0], order=4, rtol=0.3)],
    "SSIdat": [dict(sel_freq=[1.0, 2.5], order=6, rtol=0.3), dict(sel_freq=[2.5], order=4, rtol=0.3)],
    "pLSCF": [dict(sel_freq=[1.0, 2.5], order=4, rtol=0.5), dict(sel_freq=[1.0], order=3, rtol=0.5)],
}
# run_params fields written by mpe (everything else is fixed at construction)
MPE_FIELDS = {"sel_freq", "DF", "DF1", "DF2", "cm", "MAClim", "sppk", "npmax", "order_in", "rtol", "deltaf"}
N, FS = 600, 16.0
UNKNOWN = 9  # name index never added


def pid(cn, k):
    return 10 * CID[cn] + k


def aid(cn, j):
    return 100 * CID[cn] + j


def vid(version):
    """injective numbering of a data version (tuple of preprocessing kinds applied to the base record)"""
    n = 0
    for kind in version:
        n = 4 * n + {"dec": 1, "det": 2, "new": 3}[kind]
    return n


# ----------------------------------------------------------------------------------------------- digests / equality
_DTYPE_BYTES = {}


def _dtype_bytes(dt):
    b = _DTYPE_BYTES.get(dt)
    if b is None:
        b = _DTYPE_BYTES[dt] = str(dt).encode()
    return b


def _feed(h, x):
    if x is None:
        h.update(b"N")
    elif isinstance(x, np.ndarray):
        if x.dtype == object:
            h.update(b"O%s" % str(x.shape).encode())
            for v in x.flat:
                _feed(h, v)
        else:
            h.update(b"A" + _dtype_bytes(x.dtype) + str(x.shape).encode())
            h.update(np.ascontiguousarray(x).tobytes())
    elif isinstance(x, (bool, np.bool_)):
        h.update(b"B1" if x else b"B0")
    elif isinstance(x, (int, np.integer)):
        h.update(b"I%d" % int(x))
    elif isinstance(x, (float, np.floating)):
        h.update(b"F" + struct.pack("<d", float(x)))
    elif isinstance(x, (complex, np.complexfloating)):
        h.update(b"C" + struct.pack("<dd", complex(x).real, complex(x).imag))
    elif isinstance(x, str):
        h.update(b"S" + x.encode())
    elif isinstance(x, (list, tuple)):
        h.update(b"L%d" % len(x))
        for v in x:
            _feed(h, v)
    elif isinstance(x, dict):
        h.update(b"D%d" % len(x))
        for k in sorted(x, key=str):
            h.update(str(k).encode())
            _feed(h, x[k])
    elif hasattr(x, "__dict__"):
        h.update(b"M" + type(x).__name__.encode())
        _feed(h, vars(x))
    else:
        h.update(b"R" + repr(x).encode())


def dg(x):
    h = hashlib.sha1()
    _feed(h, x)
    return h.hexdigest()[:20]


def same(a, b, tol, path="", out=None):
    """deep equality (np.array_equal with nan == nan); tol > 0: |a-b| <= tol*scale.  out collects the first differences."""
    def bad(msg):
        if out is not None and len(out) < 4:
            out.append("%s: %s" % (path or "<root>", msg))
        return False
    if a is None or b is None:
        return True if (a is None and b is None) else bad("None vs value")
    if isinstance(a, np.ndarray) or isinstance(b, np.ndarray):
        if not (isinstance(a, np.ndarray) and isinstance(b, np.ndarray)):
            return bad("array vs %s" % type(b).__name__)
        if a.shape != b.shape:
            return bad("shape %s vs %s" % (a.shape, b.shape))
        if a.dtype == object or b.dtype == object:
            return all(same(u, v, tol, path + "[%d]" % i, out) for i, (u, v) in enumerate(zip(a.flat, b.flat)))
        if np.array_equal(a, b, equal_nan=True):
            return True
        if tol > 0 and np.array_equal(np.isnan(a), np.isnan(b)):
            m = ~np.isnan(a)
            sc = max(1.0, float(np.abs(b[m]).max())) if m.any() else 1.0
            if float(np.abs(a[m] - b[m]).max()) <= tol * sc:
                return True
        with np.errstate(all="ignore"):
            d = np.abs(np.nan_to_num(a.astype(complex)) - np.nan_to_num(b.astype(complex)))
        return bad("arrays differ, max |diff| = %.3g" % float(d.max() if d.size else 0.0))
    if hasattr(a, "__dict__") and not isinstance(a, type):
        if type(a) is not type(b):
            return bad("type %s vs %s" % (type(a).__name__, type(b).__name__))
        return same(vars(a), vars(b), tol, path, out)
    if isinstance(a, dict):
        if not isinstance(b, dict) or sorted(map(str, a)) != sorted(map(str, b)):
            return bad("keys differ")
        return all([same(a[k], b[k], tol, path + "." + str(k), out) for k in a])
    if isinstance(a, (list, tuple)):
        if not isinstance(b, (list, tuple)) or len(a) != len(b):
            return bad("length differs")
        return all([same(u, v, tol, path + "[%d]" % i, out) for i, (u, v) in enumerate(zip(a, b))])
    if isinstance(a, (float, np.floating)) and isinstance(b, (float, np.floating)):
        if a == b or (a != a and b != b) or (tol > 0 and abs(a - b) <= tol * max(1.0, abs(b))):
            return True
        return bad("%r vs %r" % (a, b))
    return True if a == b else bad("%r vs %r" % (a, b))


def field_digests(res):
    return None if res is None else {f: dg(v) for f, v in vars(res).items()}


def run_level_fields(res_after_run):
    """the fields run() sets (everything that is not None right after a run); the others are the modal fields mpe fills in"""
    return sorted(f for f, v in vars(res_after_run).items() if v is not None)


def rewritten_fields(before, after, fields):
    """run-level fields whose content differs (before/after: result objects), with the size of the difference"""
    out = []
    for f in fields:
        msg = []
        if not same(getattr(after, f, None), getattr(before, f, None), 0.0, path=f, out=msg):
            out.append(msg[0] if msg else f)
    return out


# ----------------------------------------------------------------------------------------------- the world
LAYOUTS = ("C", "F", "S", "1")


def lay(arr, layout):
    """a private copy of the record in one memory layout.  Returns (array handed to SingleSetup, buffer owning it):
    C = C-ordered (N, n_ch); F = column-major: a (n_ch, N) file record passed as raw.T; S = non-contiguous strided view
    (every second column of a wider buffer); 1 = single channel (N, 1), whose transpose is contiguous too."""
    if layout == "F":
        raw = np.ascontiguousarray(arr.T)
        return raw.T, raw
    if layout == "S":
        big = np.full((arr.shape[0], 2 * arr.shape[1]), 7.0)
        big[:, ::2] = arr
        return big[:, ::2], big
    if layout == "1":
        a = arr[:, :1].copy()
        return a, a
    a = arr.copy()
    return a, a


def eff_layout(version, layout):
    """SciPy's decimate / detrend return the same values in the same layout whatever the layout of their input (checked
    below in run()), so only the record itself and its replacement carry the layout"""
    if layout in ("F", "S") and version not in ((), ("new",)):
        return "C"
    return layout


class World:
    """base records, data versions (computed with SciPy directly, never through pyoma2) and isolated reference runs"""

    def __init__(self, base, base2):
        self.base, self.base2 = base, base2
        self.vcache = {}
        self.refs = {}

    def vdata(self, version, layout="C"):
        key = (version, eff_layout(version, layout))
        if key not in self.vcache:
            x = self.fresh(version, layout)
            fs = FS / 2 ** sum(1 for kind in version if kind == "dec")
            self.vcache[key] = (x, fs, dg(x))
        return self.vcache[key]

    def fresh(self, version, layout="C"):
        """the data version recomputed from a private copy of the base record: same values AND same memory layout as the
        array the setup holds after the same preprocessing calls (decimate returns a strided view)"""
        x = lay(self.base, layout)[0]
        for kind in version:
            if kind == "dec":
                x = signal.decimate(x, 2, axis=0)
            elif kind == "det":
                x = signal.detrend(x, axis=0)
            else:
                x = lay(self.base2, layout)[0]
        return x

    def iso(self, cn, k, version, j=None, contig=False, layout="C", watch=None):
        """an isolated run: fresh setup holding a private copy of that data version, one fresh algorithm"""
        x, fs = self.fresh(version, layout), self.vdata(version, layout)[1]
        if contig:  # the layout the same values have after a pickle round trip
            x = np.ascontiguousarray(x).copy()
        before = dg(x)
        ss = SingleSetup(x, fs=fs)
        alg = CLASSES[cn](name="iso", **copy.deepcopy(PARAMS[cn][k]))
        ss.add_algorithms(alg)
        ss.run_by_name("iso")
        if watch is not None and (dg(x) != before or dg(ss.data) != before):
            watch.append("run")
        if j is not None:
            ss.mpe("iso", **copy.deepcopy(MPE[cn][j]))
            if watch is not None and (dg(x) != before or dg(ss.data) != before) and not watch:
                watch.append("mpe")
        return alg

    def ref(self, cn, k, version, layout="C"):
        """isolated reference results.  BLAS results depend in the last bits on the memory layout of the input, so one
        variant per layout the same data can have (as held by the setup | after save+load: C-contiguous, F stays F)."""
        layout = eff_layout(version, layout)
        key = (cn, k, version, layout)
        if key not in self.refs:
            r = {"variants": [], "usable": True, "why": None, "repro": True, "modified": None}
            try:
                kinds = [(layout, False)]
                if layout == "S":
                    kinds.append(("C", False))
                elif not self.vdata(version, layout)[0].flags.c_contiguous and layout != "F":
                    kinds.append((layout, True))
                for lay_, contig in kinds:
                    watch = []
                    a1 = self.iso(cn, k, version, contig=contig, layout=lay_, watch=watch)
                    a1b = self.iso(cn, k, version, contig=contig, layout=lay_)
                    v = dict(R1=a1.result, d1=dg(a1.result), mpe={})
                    repro = v["d1"] == dg(a1b.result)
                    r["repro"] = r["repro"] and repro
                    v["tol"] = 0.0 if repro else 1e-12
                    r.setdefault("rp0", {f: dg(x) for f, x in vars(a1.run_params).items()})
                    for j in range(len(MPE[cn])):
                        try:
                            a2 = self.iso(cn, k, version, j, contig=contig, layout=lay_, watch=watch)
                        except Exception:  # noqa: BLE001
                            if layout != "1":
                                raise
                            continue  # single channel: the classes that run cannot extract modes; mpe is not called there
                        v["mpe"][j] = dict(R2=a2.result, d2=dg(a2.result))
                        bad = rewritten_fields(a1.result, a2.result, run_level_fields(a1.result))
                        if bad:
                            r.setdefault("mpe_rewrites", []).append((j, bad))
                        r.setdefault("rp2", {})[j] = {f: dg(x) for f, x in vars(a2.run_params).items()}
                    if watch:
                        r["modified"] = watch[0]
                    r["variants"].append(v)
            except Exception as e:  # a reference that cannot be computed: histories needing it are not judged
                r["usable"], r["why"] = False, "%s: %s" % (type(e).__name__, str(e)[:100])
            self.refs[key] = r
        return self.refs[key]


W = None  # set in run(), inherited by forked workers


class _NoGui:
    def __init__(self, *a, **k):
        raise RuntimeError("C15 harness: interactive selection is not available")


def make_record(rng):
    """two lightly damped modes (1.0 and 2.5 Hz) + noise + offsets, rounded to dyadic values"""
    out = np.zeros((N, 3))
    shapes = np.array([[1, 0.8, 0.4], [1, -0.5, -0.9]])
    for f, xi, sh in zip((1.0, 2.5), (0.02, 0.015), shapes):
        w = 2 * np.pi * f
        b, a = signal.bilinear([1], [1, 2 * xi * w, w * w], FS)
        q = signal.lfilter(b, a, rng.standard_normal(N + 400))[400:]
        out += np.outer(q / q.std(), sh)
    out += 0.05 * rng.standard_normal((N, 3)) + np.array([0.3, -0.2, 0.1])
    return np.round(out * 256) / 256


# ----------------------------------------------------------------------------------------------- histories
def resolve(lineup, ops, dec_at=0):
    """letters -> concrete calls (data version named explicitly) + model ops as number codes (decoded by decode_ops in
    M_orch.v: 1 i c p+1|0 Add, 2 i RunByName, 3 RunAll, 4 i args Mpe, 5 d+1|0 f+1|0 Rebind, 6 SaveLoad).
    Returns (concrete, codes (one list per model op), spans (model ops per call))."""
    version, fs, nreb = (), FS, 0
    conc, coq, spans = [], [], []

    def add_coq(i):
        cn, k, _ = lineup[i]
        return [1, i, CID[cn], 0 if k is None else pid(cn, k) + 1]

    def reb():
        return [5, 0 if version is None else vid(version) + 1, 0 if fs is None else int(fs) + 1]

    for op in ops:
        kind = op[0]
        n0 = len(coq)
        if kind == "add":
            conc.append(["add", op[1]]); coq.append(add_coq(op[1]))
        elif kind == "addall":
            conc.append(["addall"]); coq += [add_coq(i) for i in range(len(lineup))]
        elif kind == "run":
            conc.append(["run", op[1]]); coq.append([2, op[1]])
        elif kind in ("mpe", "mpeplot"):
            i = op[1]
            j = lineup[i][2] if i < len(lineup) else 0
            cn = lineup[i][0] if i < len(lineup) else "FDD"
            conc.append([kind, i]); coq.append([4, i, aid(cn, j)])
        elif kind == "runall":
            conc.append(["runall"]); coq.append([3])
        elif kind == "saveload":
            conc.append(["saveload"]); coq.append([6])
        elif kind == "rebind":
            what = op[1] if len(op) > 1 else ("dec" if nreb == dec_at else "det")
            nreb += 1
            version = (version or ()) + (what,)
            fs = fs / 2 if what == "dec" else fs
            conc.append(["rebind", what, list(version)]); coq.append(reb())
        elif kind == "newdata":
            version, fs = ("new",), FS
            conc.append(["newdata"]); coq.append(reb())
        elif kind == "nodata":
            version = None
            conc.append(["nodata"]); coq.append(reb())
        elif kind == "nofs":
            fs = None
            conc.append(["nofs"]); coq.append(reb())
        else:
            raise ValueError(op)
        spans.append(len(coq) - n0)
    return conc, coq, spans


def codes_str(coq):
    return " ".join(str(x) for o in coq for x in o)


def new_alg(lineup, i):
    cn, k, _ = lineup[i]
    if k is None:
        return CLASSES[cn](name="a%d" % i)
    return CLASSES[cn](name="a%d" % i, **copy.deepcopy(PARAMS[cn][k]))


def snapshot(ss, user=None):
    snap = {"__data": dg(ss.data), "__fs": ss.fs, "__order": list(ss.algorithms), "__user": None if user is None else (dg(user[0]), dg(user[1]))}
    for name, alg in ss.algorithms.items():
        snap[name] = (type(alg).__name__, dg(alg.run_params), dg(getattr(alg, "data", None)), getattr(alg, "fs", None),
                      getattr(alg, "dt", None), dg(alg.result))
    return snap


def execute(job):
    """Run one history on the implementation.  job = dict(lineup, start, seq, dec_at).  Returns a record."""
    lineup, nstart = job["lineup"], len(job["start"])
    conc, _, _ = resolve(lineup, job["start"] + job["seq"], job.get("dec_at", 0))
    fails, raised = [], []
    case = {"lineup": lineup, "start": job["start"], "seq": job["seq"], "dec_at": job.get("dec_at", 0), "calls": conc}

    def fail(kind, key, what, **extra):
        fails.append(dict(kind=kind, key="C15:" + key, what=what, case=dict(case, **extra)))

    layout = job.get("layout", "C")
    case["layout"] = layout
    user_arr, owner = lay(W.base, layout)  # what the user hands over, and the buffer behind it
    user_dg = (dg(user_arr), dg(owner))
    ss = SingleSetup(user_arr, fs=FS)
    path = os.path.join(job["tmp"], "c15_%d.pkl" % os.getpid())
    # ---- oracle bookkeeping (property text): name -> what was handed over at add time, has it run, are modes there
    book, order = {}, []
    cur_version, cur_fs = (), FS
    seen_versions = {()}
    unusable = None
    ran_any = False
    last_snap = None  # the snapshot taken after a call is the one before the next call (nothing happens in between)
    for n, op in enumerate(conc):
        kind = op[0]
        check = n >= nstart
        before = (last_snap or snapshot(ss, (user_arr, owner))) if check else None
        res_before = None
        if check and kind in ("mpe", "mpeplot") and "a%d" % op[1] in ss.algorithms:
            res_before = copy.deepcopy(ss.algorithms["a%d" % op[1]].result)
        exc = None
        try:
            if kind == "add":
                ss.add_algorithms(new_alg(lineup, op[1]))
            elif kind == "addall":
                ss.add_algorithms(*[new_alg(lineup, i) for i in range(len(lineup))])
            elif kind == "run":
                ss.run_by_name("a%d" % op[1])
            elif kind == "runall":
                ss.run_all()
            elif kind == "mpe":
                i = op[1]
                args = MPE[lineup[i][0]][lineup[i][2]] if i < len(lineup) else dict(sel_freq=[1.0])
                ss.mpe("a%d" % i, **copy.deepcopy(args))
            elif kind == "mpeplot":
                ss.mpe_from_plot("a%d" % op[1])
            elif kind == "rebind":
                if op[1] == "dec":
                    ss.decimate_data(q=2)
                else:
                    ss.detrend_data()
            elif kind == "newdata":
                ss.data = lay(W.base2, layout)[0]
                ss.fs = FS
            elif kind == "nodata":
                ss.data = None
            elif kind == "nofs":
                ss.fs = None
            elif kind == "saveload":
                save_to_file(ss, path)
                ss = load_from_file(path)
        except Exception as e:  # noqa: BLE001 - every exception kind is an observation
            exc = type(e).__name__
        raised.append(exc)
        # ---- the property text on this call
        gated = []  # names whose gate must fire
        if kind in ("add", "addall"):
            if cur_fs is not None and exc is None:
                for i in ([op[1]] if kind == "add" else range(len(lineup))):
                    nm = "a%d" % i
                    if nm not in book:
                        order.append(nm)
                    book[nm] = dict(i=i, version=cur_version, fs=cur_fs, ran=False, modes=False, mpe_ever=False)
            elif cur_fs is not None and exc is not None:
                fail("oracle", "add:raised", "add_algorithms raised %s on a setup with data and fs" % exc, call=n)
        elif kind == "run":
            nm = "a%d" % op[1]
            if nm in book:
                b = book[nm]
                if b["version"] is None or lineup[b["i"]][1] is None:
                    gated.append(nm)
                else:
                    b["ran"], b["modes"] = True, False
                    if exc is not None:
                        fail("oracle", "run:raised", "run_by_name raised %s although data, fs and run parameters are set" % exc, call=n)
        elif kind == "runall":
            for nm in order:
                b = book[nm]
                if b["version"] is None or lineup[b["i"]][1] is None:
                    gated.append(nm)
                    break
                b["ran"], b["modes"] = True, False
            if not gated and exc is not None:
                fail("oracle", "run_all:raised", "run_all raised %s although every algorithm has data, fs and run parameters" % exc, call=n)
        elif kind in ("mpe", "mpeplot"):
            nm = "a%d" % op[1]
            if nm in book:
                b = book[nm]
                if not b["ran"]:
                    gated.append(nm)
                else:
                    b["modes"], b["mpe_ever"] = True, True
                    if exc is not None:
                        fail("oracle", "mpe:raised", "mpe raised %s although the algorithm has been run" % exc, call=n)
                    elif res_before is not None and nm in ss.algorithms and ss.algorithms[nm].result is not None:
                        # mpe may fill in the modal fields only: what run() stored must stay what run() produced
                        cn_ = lineup[b["i"]][0]
                        rl = [f for f in run_level_fields(W.ref(cn_, lineup[b["i"]][1], (), "C")["variants"][0]["R1"])] \
                            if W.ref(cn_, lineup[b["i"]][1], (), "C")["usable"] else []
                        bad = rewritten_fields(res_before, ss.algorithms[nm].result, rl)
                        if bad:
                            fail("oracle", "mpe:run-field-rewritten", "mpe of %s (%s) changed what run() had stored in its result: %s "
                                 "(only the modal fields may change)" % (nm, cn_, "; ".join(bad)), call=n)
        elif kind == "rebind":
            cur_version = tuple(op[2])
            cur_fs = cur_fs / 2 if op[1] == "dec" else cur_fs
            seen_versions.add(cur_version)
        elif kind == "newdata":
            cur_version, cur_fs = ("new",), FS
            seen_versions.add(cur_version)
        elif kind == "nodata":
            cur_version = None
        elif kind == "nofs":
            cur_fs = None
        if gated and exc is None:
            what = ("run without data / fs / run parameters" if kind in ("run", "runall") else "mpe without a prior run")
            fail("oracle", "%s:gate-not-raised" % kind, "%s did not raise (%s)" % (kind, what), call=n)
        if check:
            after = last_snap = snapshot(ss, (user_arr, owner))
            if exc is not None and kind != "runall" and after != before:
                diff = [k for k in after if after.get(k) != before.get(k)]
                fail("oracle", "%s:stored-on-exception" % kind,
                     "%s raised %s but something was stored: %s changed (run_params / data / result digests)" % (kind, exc, diff), call=n)
            for nm in gated:
                if after.get(nm) != before.get(nm):
                    fail("oracle", "%s:stored-on-gate" % kind, "the gate of %s fired but its run parameters / result changed" % nm, call=n)
            # frame: algorithms the call does not name, the shared array for everything but preprocessing
            named = {"add": lambda: {"a%d" % op[1]}, "run": lambda: {"a%d" % op[1]}, "mpe": lambda: {"a%d" % op[1]},
                     "mpeplot": lambda: {"a%d" % op[1]}, "addall": lambda: {"a%d" % i for i in range(len(lineup))},
                     "runall": lambda: set(before["__order"])}.get(kind, lambda: set())()
            for nm in before["__order"]:
                if nm not in named and after.get(nm) != before[nm]:
                    fail("oracle", "%s:frame" % kind, "%s changed algorithm %s which it does not name (%s -> %s)"
                         % (kind, nm, before[nm], after.get(nm)), call=n)
            if kind not in ("rebind", "newdata", "nodata", "nofs") and (after["__data"] != before["__data"] or after["__fs"] != before["__fs"]):
                fail("oracle", "%s:shared-data" % kind, "%s modified the setup's shared data array or fs" % kind, call=n)
            if after["__user"] != before["__user"]:
                fail("oracle", "%s:user-array" % kind, "%s modified the array the user handed to SingleSetup (memory layout %s)" % (kind, layout), call=n)
            if kind == "saveload" and exc is None and after != before:
                diff = [k for k in after if after.get(k) != before.get(k)]
                fail("oracle", "saveload:not-equal", "the loaded setup differs from the saved one in %s" % diff, call=n)
            if kind == "saveload" and exc is not None:
                fail("oracle", "saveload:raised", "save_to_file / load_from_file raised %s" % exc, call=n)
    if os.path.exists(path):
        os.remove(path)
    # ---- final state: abstraction to the model's vocabulary + property text on it
    vtab = {}
    for v in seen_versions:
        vtab[W.vdata(v, layout)[2]] = v
    table, cands = {}, []
    for (cn, k, j) in {(e[0], e[1], e[2]) for e in lineup if e[1] is not None}:
        for v in seen_versions:
            r = W.ref(cn, k, v, layout)
            if r["modified"] and not r.get("modified_reported"):
                r["modified_reported"] = True
                fail("oracle", "iso:data-modified", "an isolated %s of %s (parameters %d) on a fresh setup modified the data array it "
                     "was given (memory layout %s, version %s)" % (r["modified"], cn, k, layout, list(v)))
            if not r["usable"]:
                unusable = "%s/%d on %s: %s" % (cn, k, list(v), r["why"])
                continue
            fsv = int(W.vdata(v, layout)[1])
            t1 = "%d,%d,%d,%d" % (CID[cn], pid(cn, k), vid(v), fsv)
            e1 = (t1, "-")
            e2 = (t1, t1 + ",%d" % aid(cn, j))
            for var in r["variants"]:
                table.setdefault(var["d1"], []).append(e1)
                cands.append((var["R1"], var["tol"], e1))
                if j in var["mpe"]:
                    table.setdefault(var["mpe"][j]["d2"], []).append(e2)
                    cands.append((var["mpe"][j]["R2"], var["tol"], e2))

    def abstract_result(res, own):
        """the term whose isolated run equals this result; different terms can have equal values (EFDD and FSDD compute
        the same spectra): then the algorithm's own term is named if it is among them"""
        if res is None:
            return ("-", "-")
        hits = list(table.get(dg(res), []))
        if not hits:
            hits = [e for (obj, tol, e) in cands if same(res, obj, tol)]
        if not hits:
            return ("?", "?")
        mine = [e for e in hits if e[0] == own]
        return sorted(mine or hits)[0]

    def abstract_params(alg):
        rp = alg.run_params
        if rp is None:
            return "-"
        cn = type(alg).__name__
        mine = {f: dg(v) for f, v in vars(rp).items() if f not in MPE_FIELDS}
        for k in range(len(PARAMS[cn])):
            p0 = {f: dg(v) for f, v in vars(CLASSES[cn].RunParamCls(**copy.deepcopy(PARAMS[cn][k]))).items() if f not in MPE_FIELDS}
            if p0 == mine:
                return str(pid(cn, k))
        return "?"

    parts = []
    for nm, alg in ss.algorithms.items():
        data = getattr(alg, "data", None)
        if data is None:
            bound = "-"
        else:
            v = vtab.get(dg(data))
            bound = "?" if v is None else "%d,%d" % (vid(v), int(alg.fs))
        cid_, par_ = CID.get(type(alg).__name__, 0), abstract_params(alg)
        rs, ms = abstract_result(alg.result, "%d,%s,%s" % (cid_, par_, bound))
        parts.append("%s:%d:%s:%s:%s:%s" % (nm[1:], cid_, par_, bound, rs, ms))
    sdata = "-" if ss.data is None else ("?" if dg(ss.data) not in vtab else str(vid(vtab[dg(ss.data)])))
    sfs = "-" if ss.fs is None else str(int(ss.fs))
    state = "%s:%s/%s" % (sdata, sfs, ";".join(parts))

    if (dg(user_arr), dg(owner)) != user_dg:
        fail("oracle", "data:user-array", "the array handed to SingleSetup (memory layout %s) was modified in place" % layout)
    if cur_version is not None and (ss.data is None or dg(ss.data) != W.vdata(cur_version, layout)[2]):
        fail("oracle", "data:shared-array", "setup.data is not the record after the preprocessing calls made (%s)" % list(cur_version))
    if list(ss.algorithms) != order:
        fail("oracle", "state:names", "algorithms dict is %s, calls made imply %s" % (list(ss.algorithms), order))
    for nm in order:
        alg = ss.algorithms.get(nm)
        if alg is None:
            continue
        b = book[nm]
        cn, k, j = lineup[b["i"]]
        if type(alg) is not CLASSES[cn]:
            fail("oracle", "state:class", "%s is a %s, added as %s" % (nm, type(alg).__name__, cn))
            continue
        adata = getattr(alg, "data", None)
        if b["version"] is None:
            if adata is not None:
                fail("oracle", "data:binding", "%s holds data although the setup had none when it was added" % nm)
        else:
            vx, vfs, vdg = W.vdata(b["version"], layout)
            if adata is None or dg(adata) != vdg or alg.fs != vfs:
                fail("oracle", "data:binding", "%s.data / fs is not the record bound when it was added (version %s, fs %s): "
                     "another algorithm or a later call changed it" % (nm, list(b["version"]), vfs))
        if (alg.result is not None) != b["ran"]:
            fail("oracle", "result:presence", "%s %s a result, calls made imply it %s" % (
                nm, "has" if alg.result is not None else "has no", "has one" if b["ran"] else "has none"))
            continue
        if k is None:
            if alg.run_params is not None:
                fail("oracle", "params:stored", "%s was built without run parameters but now holds some" % nm)
            continue
        r = W.ref(cn, k, b["version"], layout) if b["version"] is not None else None
        if r is not None and not r["usable"]:
            unusable = "%s/%d on %s: %s" % (cn, k, list(b["version"]), r["why"])
            continue
        # run parameters: construction fields never change; mpe fields only by a successful mpe
        rp0 = r["rp0"] if r else {f: dg(v) for f, v in vars(CLASSES[cn].RunParamCls(**copy.deepcopy(PARAMS[cn][k]))).items()}
        want = r["rp2"][j] if (r and b["mpe_ever"] and j in r.get("rp2", {})) else rp0
        got = {f: dg(v) for f, v in vars(alg.run_params).items()} if alg.run_params is not None else None
        if got != want:
            bad = sorted(f for f in want if got is None or got.get(f) != want[f])
            fail("oracle", "params:changed", "run parameters of %s differ from those given (fields %s)" % (nm, bad))
        if b["ran"] and b["modes"]:
            outs = []
            for var in r["variants"]:
                bad = rewritten_fields(var["R1"], alg.result, run_level_fields(var["R1"])) if var["tol"] == 0.0 else []
                if not bad:
                    outs = None
                    break
                outs.append("; ".join(bad))
            if outs:
                fail("oracle", "result:run-fields-not-isolated-run",
                     "after mpe the run-level fields of %s (%s, params %d) differ from an isolated run of the same class and parameters "
                     "on the data bound when it was added: %s" % (nm, cn, k, outs[0]))
        if b["ran"]:
            ran_any = True
            d = dg(alg.result)
            refs = [((var["mpe"][j]["R2"], var["mpe"][j]["d2"]) if (b["modes"] and j in var["mpe"]) else (var["R1"], var["d1"])) + (var["tol"],)
                    for var in r["variants"]]
            if d not in [x[1] for x in refs]:
                outs = []
                for obj, _, tol in refs:
                    out = []
                    if same(alg.result, obj, tol, out=out):
                        outs = None
                        break
                    outs.append("; ".join(out))
                if outs is not None:
                    fail("oracle", "result:not-isolated-run",
                         "result of %s (%s, params %d%s) differs from the isolated run of the same class and parameters on the data "
                         "bound when it was added (version %s): %s" % (nm, cn, k, ", modes extracted" if b["modes"] else "",
                                                                       list(b["version"]), outs[0]))
    return dict(raised=raised, state=state, fails=fails, unusable=unusable, nontrivial=ran_any, case=case)


def execute_safe(job):
    try:
        return execute(job)
    except Exception:  # noqa: BLE001 - e.g. an implementation state the analysis cannot read: reported, not fatal
        import traceback
        case = {"lineup": job["lineup"], "start": job["start"], "seq": job["seq"], "dec_at": job.get("dec_at", 0), "layout": job.get("layout", "C")}
        return dict(raised=[], state="!", unusable=None, nontrivial=False, case=dict(case, calls=[]), crashed=True,
                    fails=[dict(kind="correspondence", key="C15:harness:analysis-crashed", case=case,
                                what="the history could not be analysed: " + traceback.format_exc()[-800:])])


def _worker(jobs):
    return [execute_safe(j) for j in jobs]


def run_jobs(ctx, jobs, nproc):
    for j in jobs:
        j["tmp"] = ctx.work
    if nproc <= 1 or len(jobs) < 64:
        return _worker(jobs)
    chunk = max(8, min(200, len(jobs) // (nproc * 4)))
    chunks = [jobs[i:i + chunk] for i in range(0, len(jobs), chunk)]
    with multiprocessing.get_context("fork").Pool(nproc) as pool:
        res = pool.map(_worker, chunks)
    return [r for c in res for r in c]


def alphabet(lineup, malformed=False, mpe=True):
    n = len(lineup)
    if not mpe:
        return [["add", i] for i in range(n)] + [["run", i] for i in range(n)] + [["runall"], ["rebind"], ["saveload"]]
    if malformed:
        return ([["add", i] for i in range(n)] + [["run", 0], ["mpe", 0], ["runall"], ["nodata"], ["nofs"], ["newdata"],
                                                  ["run", UNKNOWN], ["mpe", UNKNOWN]])
    return ([["add", i] for i in range(n)] + [["run", i] for i in range(n)] + [["mpe", i] for i in range(n)]
            + [["runall"], ["rebind"], ["saveload"]])


def check_histories(ctx, all_jobs, nproc, chunk=40000):
    """execute on the implementation, evaluate the model, compare (in chunks, so that records do not pile up)"""
    first = []
    for c in range(0, len(all_jobs), chunk):
        recs = _check_histories(ctx, all_jobs[c:c + chunk], nproc)
        first = first or recs[:2]
    return first


def _check_histories(ctx, jobs, nproc):
    recs = run_jobs(ctx, jobs, nproc)
    exprs, per = [], 60
    for i in range(0, len(jobs), per):
        hs = [codes_str(resolve(j["lineup"], j["start"] + j["seq"], j.get("dec_at", 0))[1]) for j in jobs[i:i + per]]
        exprs.append('showHistsS 0%%nat %d%%nat "%s"' % (int(FS), "|".join(hs)))
    outs = ctx.coq_eval(HEADER, exprs, shard=max(1, min(40, (len(exprs) + 13) // 14)))
    model = [s for o in outs for s in o.split("|")]
    assert len(model) == len(jobs), (len(model), len(jobs))
    for job, rec, m in zip(jobs, recs, model):
        case = rec["case"]
        ctx.count(dict(lineup=case["lineup"], start=case["start"], seq=case["seq"], dec_at=case["dec_at"], layout=case.get("layout", "C")),
                  nontrivial=rec["nontrivial"])
        ctx.hist("memory layout of the record", case.get("layout", "C"))
        ctx.hist("history length", len(job["seq"]))
        if rec["unusable"]:
            ctx.not_judged += 1
            ctx.note("reference run not available (history not judged): " + rec["unusable"])
            continue
        for f in rec["fails"]:
            ctx.fail(f["kind"], f["what"], f["case"], key=f["key"])
        if rec.get("crashed"):
            continue
        mtrace, mstate = m.split("/", 1)
        mtrace = mtrace.split(" ") if mtrace else []
        _, _, spans = resolve(job["lineup"], job["start"] + job["seq"], job.get("dec_at", 0))
        pos = 0
        for n, (exc, sp) in enumerate(zip(rec["raised"], spans)):
            codes = mtrace[pos:pos + sp]
            pos += sp
            merr = next((c for c in codes if c != "ok"), None)
            ctx.hist("model outcome", merr or "ok")
            if (merr is None) != (exc is None):
                ctx.fail("correspondence", "call %d (%s): model says %s, implementation %s" % (
                    n, case["calls"][n], merr or "no exception", exc or "no exception"), dict(case, call=n),
                    key="C15:corr:raise-%s" % case["calls"][n][0])
            elif merr == "V" and exc != "ValueError":
                ctx.fail("correspondence", "call %d (%s): the model's gate fires (ValueError), implementation raised %s" % (
                    n, case["calls"][n], exc), dict(case, call=n), key="C15:corr:gate-kind-%s" % case["calls"][n][0])
            elif merr == "K" and exc != "KeyError":
                ctx.note("unknown algorithm name: implementation raises %s (model: KeyError; kind not constrained by the property)" % exc)
        if mstate != rec["state"]:
            ctx.fail("correspondence", "final state differs: model %s, implementation (results matched against isolated runs) %s" % (
                mstate, rec["state"]), case, key="C15:corr:state")
    return recs


# ----------------------------------------------------------------------------------------------- PoSER
def poser_oracle(setups, names):
    """the property text: >= 2 setups, identical types in identical order, all run, all with modes, one name per algorithm
    (as many list ENTRIES as algorithms: a repeated name still counts once per entry; distinctness is not demanded)"""
    if len(setups) < 2:
        return False
    lists = [[(type(a), a.result is not None, a.result is not None and a.result.Fn is not None) for a in s.algorithms.values()] for s in setups]
    if any(len(l) == 0 for l in lists):
        return False
    if any([t for t, _, _ in l] != [t for t, _, _ in lists[0]] for l in lists):
        return False
    if len(names) != len(lists[0]):
        return False
    return all(r and m for l in lists for _, r, m in l)


def poser_call(setups, names):
    try:
        MultiSetup_PoSER(ref_ind=[[0] for _ in setups], single_setups=setups, names=names)
        return None
    except Exception as e:  # noqa: BLE001
        return "ValueError" if isinstance(e, ValueError) else type(e).__name__   # "raises ValueError": a subclass of it is a ValueError


LETTERS = ["one", "two", "three"]  # name alphabet (the model sees 0, 1, 2); lists over it contain repeats


def name_lists(nalpha, maxlen):
    """every list over the first nalpha letters with 0..maxlen entries"""
    return [list(t) for L in range(0, maxlen + 1) for t in itertools.product(range(nalpha), repeat=L)]


def check_poser_configs(ctx, pools, explicit=()):
    """all assignments of (type list x run/mpe state per algorithm) to 0..4 setups x name lists (with repeats).
    explicit: corpus cases (list of setup descriptions [[class, state], ..], names as letters), run first."""
    rng = ctx.rng
    exprs, meta = [], []
    small = np.round(W.base[:40] * 4) / 4
    states_txt = ("not run", "run", "modes")
    work = [([list(t) for t in dict.fromkeys(tuple(cn for cn, _ in d) for d in descs if d)], (descs, names)) for descs, names in explicit]
    work += [(pool, None) for pool in pools]
    for pool, given in work:
        # one reusable setup object per option; the result objects are real ones (isolated runs, with / without modes)
        options = [([], None)]
        for tl in pool:
            for states in itertools.product((0, 1, 2), repeat=len(tl)):
                options.append((list(zip(tl, states)), None))
        built = []
        for desc, _ in options:
            ss = SingleSetup(small.copy(), fs=FS)
            algs = []
            for i, (cn, st) in enumerate(desc):
                alg = CLASSES[cn](name="p%d" % i, **copy.deepcopy(PARAMS[cn][0]))
                r = W.ref(cn, 0, ())
                if st == 1:
                    alg.result = copy.deepcopy(r["variants"][0]["R1"])
                elif st == 2:
                    alg.result = copy.deepcopy(r["variants"][0]["mpe"][0]["R2"])
                algs.append(alg)
            if algs:
                ss.add_algorithms(*algs)
            built.append(ss)
        coq_opt = [clist(["(%d,%s)" % (CID[cn], ("NotRun", "Ran", "Extracted")[st]) for cn, st in desc]) for desc, _ in options]
        nopt = len(options)
        maxlen = max([len(t) for t in pool] + [1])
        batch = []
        if given is not None:
            descs, names = given
            index = {tuple((cn, st) for cn, st in d): i for i, (d, _) in enumerate(options)}
            cfg = tuple(index[tuple((cn, states_txt.index(st)) for cn, st in d)] for d in descs)
            batch.append((cfg, [LETTERS.index(x) for x in names]))
        else:
            configs = []
            for n in range(0, 5):
                full = list(itertools.product(range(nopt), repeat=n)) if nopt ** n <= 300000 else None
                limit = {3: ctx.n(1500, 6000), 4: ctx.n(500, 3000)}.get(n, 10 ** 9)
                if full is None or len(full) > limit:
                    full = [tuple(rng.randrange(nopt) for _ in range(n)) for _ in range(limit)]
                configs += full
            # bias: mostly-valid configurations (same option repeated), where a single clause decides
            ok = [i for i, (d, _) in enumerate(options) if d and all(st == 2 for _, st in d)]
            for _ in range(ctx.n(1000, 3000)):
                base = rng.choice(ok)
                cfg = [base] * rng.randint(2, 4)
                if rng.random() < 0.7:
                    cfg[rng.randrange(len(cfg))] = rng.randrange(nopt)
                configs.append(tuple(cfg))
            # name lists: two per configuration - one with the right number of entries (repeats allowed), one drawn freely
            for cfg in configs:
                nalg = len(options[cfg[0]][0]) if cfg else rng.randint(0, maxlen)
                batch.append((cfg, [rng.randrange(3) for _ in range(nalg)]))
                batch.append((cfg, [rng.randrange(rng.randint(1, 3)) for _ in range(rng.randint(0, maxlen + 2))]))
            # ... and EVERY list over a 2- and a 3-letter alphabet with 0..n_alg+2 entries on configurations where the names
            # decide (>= 2 non-empty setups with equal type lists): repeats with the right distinct count, the right total ...
            decide = [c for c in dict.fromkeys(configs) if len(c) >= 2 and all(options[i][0] for i in c)
                      and all([cn for cn, _ in options[i][0]] == [cn for cn, _ in options[c[0]][0]] for i in c)]
            good = [c for c in decide if all(st == 2 for i in c for _, st in options[i][0])]
            rng.shuffle(good)
            rng.shuffle(decide)
            chosen = list(dict.fromkeys(good[:ctx.n(70, 300)] + decide[:ctx.n(40, 150)]))
            for n, cfg in enumerate(chosen):
                nalg = len(options[cfg[0]][0])
                for nl in name_lists(3 if n % 3 == 0 else 2, nalg + 2):
                    batch.append((cfg, nl))
        ctx.hist("poser pool", "%s: %d options, %d configurations x name lists" % (pool, nopt, len(batch)))
        opts = "(%s)%%nat" % clist(coq_opt)
        for i in range(0, len(batch), 800):
            part = batch[i:i + 800]
            rows = "|".join(" ".join(str(x) for x in [len(cfg)] + list(cfg) + nl) for cfg, nl in part)
            exprs.append('showPoserNS %s "%s"' % (opts, rows))
            meta.append((pool, options, built, part))
    outs = ctx.coq_eval(HEADER, exprs, shard=max(1, min(30, (len(exprs) + 13) // 14)))
    for (pool, options, built, part), o in zip(meta, outs):
        ms = o.split(" ")
        assert len(ms) == len(part)
        for (cfg, nl), m in zip(part, ms):
            setups = [built[i] for i in cfg]
            names = [LETTERS[x] for x in nl]
            got = poser_call(setups, names)
            want = poser_oracle(setups, names)
            case = dict(kind="poser", setups=[[[cn, states_txt[st]] for cn, st in options[i][0]] for i in cfg], names=names)
            ctx.count(case, nontrivial=len(cfg) >= 2)
            ctx.hist("poser outcome", "%s/%s" % ("accepted" if got is None else got, "clause " + m if m != "-" else "ok"))
            ctx.hist("poser names", "%d entries, %d distinct" % (len(names), len(set(names))) if len(names) != len(set(names)) else "all distinct")
            if want and got is not None:
                ctx.fail("oracle", "MultiSetup_PoSER raised %s on a valid configuration" % got, case, key="C15:poser:rejected-valid")
            if not want and got != "ValueError":
                ctx.fail("oracle", "MultiSetup_PoSER %s on an invalid configuration (ValueError required)%s" % (
                    "accepted" if got is None else "raised " + got,
                    ": %d names for %d algorithms" % (len(names), len(setups[0].algorithms)) if setups and len(names) != len(setups[0].algorithms) else ""),
                    case, key="C15:poser:invalid-not-ValueError")
            if (m == "-") != (got is None) or (m != "-" and got != "ValueError"):
                ctx.fail("correspondence", "PoSER: model %s, implementation %s" % (
                    "accepts" if m == "-" else "ValueError (clause %s)" % m, "accepts" if got is None else got), case, key="C15:corr:poser")


def check_poser_histories(ctx, lineups):
    """PoSER on setups produced by real call histories (results and modes really computed)"""
    rng = ctx.rng
    live = []
    for lu in lineups:
        n = len(lu)
        full = [["addall"], ["runall"]] + [["mpe", i] for i in range(n)]
        hists = [full, full + [["saveload"]], full + [["run", 0]], full + [["rebind"], ["add", n - 1]], [["addall"], ["runall"]],
                 [["addall"]], [], full[:-1], full + [["rebind"], ["add", 0], ["run", 0], ["mpe", 0]]]
        for h in hists:
            conc, coq, _ = resolve(lu, h)
            ss = SingleSetup(W.base.copy(), fs=FS)
            for op in conc:
                if op[0] == "addall":
                    ss.add_algorithms(*[new_alg(lu, i) for i in range(n)])
                elif op[0] == "add":
                    ss.add_algorithms(new_alg(lu, op[1]))
                elif op[0] == "runall":
                    ss.run_all()
                elif op[0] == "run":
                    ss.run_by_name("a%d" % op[1])
                elif op[0] == "mpe":
                    ss.mpe("a%d" % op[1], **copy.deepcopy(MPE[lu[op[1]][0]][lu[op[1]][2]]))
                elif op[0] == "rebind":
                    ss.decimate_data(q=2) if op[1] == "dec" else ss.detrend_data()
                elif op[0] == "saveload":
                    p = os.path.join(ctx.work, "c15_poser.pkl")
                    save_to_file(ss, p)
                    ss = load_from_file(p)
                    os.remove(p)
            live.append((lu, h, codes_str(coq), ss))
    cfgs = [c for n in (2, 3) for c in itertools.product(range(len(live)), repeat=n)]
    limit = ctx.n(1500, 12000)
    if len(cfgs) > limit:
        cfgs = [cfgs[i] for i in sorted(rng.sample(range(len(cfgs)), limit))]
    batch = [(c, nn) for c in cfgs for nn in (len(live[c[0]][0]), rng.randint(0, 4))]
    exprs = []
    hs = "|".join(l[2] for l in live)
    for i in range(0, len(batch), 1000):
        rows = "|".join(" ".join(str(k) for k in c) + " %d" % nn for c, nn in batch[i:i + 1000])
        exprs.append('showPoserHS 0%%nat %d%%nat "%s" "%s"' % (int(FS), hs, rows))
    outs = ctx.coq_eval(HEADER, exprs, shard=max(1, (len(exprs) + 13) // 14))
    ms = [m for o in outs for m in o.split(" ")]
    assert len(ms) == len(batch)
    for (c, nn), m in zip(batch, ms):
        setups = [live[k][3] for k in c]
        names = [LETTERS[(i * 7 + nn) % 3 if (i + nn) % 2 else 0] for i in range(nn)]  # repeats: the model counts entries
        got, want = poser_call(setups, names), poser_oracle(setups, names)
        case = dict(kind="poser-histories", setups=[dict(lineup=live[k][0], history=live[k][1]) for k in c], names=nn)
        ctx.count(case)
        if want != (got is None) or (not want and got != "ValueError"):
            ctx.fail("oracle", "MultiSetup_PoSER on setups built by real histories: %s, the property says %s" % (
                "accepted" if got is None else got, "accept" if want else "ValueError"), case, key="C15:poser:histories")
        if (m == "-") != (got is None):
            ctx.fail("correspondence", "PoSER on model states of histories: model %s, implementation %s" % (m, got), case, key="C15:corr:poser-histories")


# ----------------------------------------------------------------------------------------------- multi-setup classes
def check_ms_mpe(ctx):
    """FDD_MS, EFDD_MS, SSIcov_MS, SSIdat_MS, pLSCF_MS through MultiSetup_PreGER: after mpe every run-level field of the
    result equals the snapshot taken right after run() and an isolated run on the same datasets; a second mpe agrees;
    the datasets and the other algorithms are untouched"""
    from pyoma2.algorithms import EFDD_MS, FDD_MS, SSIcov_MS, SSIdat_MS, pLSCF_MS
    from pyoma2.setup import MultiSetup_PreGER
    ms = {"FDD_MS": (FDD_MS, "FDD"), "EFDD_MS": (EFDD_MS, "EFDD"), "SSIcov_MS": (SSIcov_MS, "SSIcov"),
          "SSIdat_MS": (SSIdat_MS, "SSIdat"), "pLSCF_MS": (pLSCF_MS, "pLSCF")}

    def setup():
        d = [W.base.copy(), W.base2.copy()]
        return MultiSetup_PreGER(fs=FS, ref_ind=[[0, 1], [0, 1]], datasets=d), d

    def make(name, k):
        cls, base = ms[name]
        kw = {a: b for a, b in copy.deepcopy(PARAMS[base][k]).items() if a != "ref_ind"}
        return cls(name=name, **kw)

    for name, (cls, base) in ms.items():
        for k in (0, 1):
            for j in (0, 1):
                case = dict(kind="multi-setup run + mpe", cls=name, params=PARAMS[base][k], mpe=MPE[base][j])
                try:  # isolated reference: the class alone, run only
                    s0, _ = setup()
                    iso = make(name, k)
                    s0.add_algorithms(iso)
                    s0.run_by_name(name)
                    s1, dsets = setup()
                    other = make("FDD_MS" if name != "FDD_MS" else "EFDD_MS", 0)
                    other.name = "other"
                    alg = make(name, k)
                    s1.add_algorithms(other, alg)
                    s1.run_all()
                    after_run = copy.deepcopy(alg.result)
                    other_dg, data_dg, sets_dg = dg(other.result), dg(s1.data), dg(dsets)
                    s1.mpe(name, **copy.deepcopy(MPE[base][j]))
                except Exception as e:  # noqa: BLE001 - a parameter set the multi-setup variant cannot run: not judged
                    ctx.not_judged += 1
                    ctx.note("multi-setup %s (parameters %d, mpe %d) not judged: %s %s" % (name, k, j, type(e).__name__, str(e)[:80]))
                    continue
                ctx.count(case)
                fields = run_level_fields(after_run)
                bad = rewritten_fields(after_run, alg.result, fields)
                if bad:
                    ctx.fail("oracle", "mpe of %s changed what run() had stored in its result: %s (only the modal fields may change)" % (
                        name, "; ".join(bad)), case, key="C15:mpe:run-field-rewritten")
                bad = rewritten_fields(iso.result, alg.result, run_level_fields(iso.result))
                if bad:
                    ctx.fail("oracle", "after run + mpe the run-level fields of %s differ from an isolated run on the same datasets: %s" % (
                        name, "; ".join(bad)), case, key="C15:result:run-fields-not-isolated-run")
                if (dg(other.result), dg(s1.data), dg(dsets)) != (other_dg, data_dg, sets_dg):
                    ctx.fail("oracle", "mpe of %s changed the datasets or another algorithm's result" % name, case, key="C15:mpe:frame")
                first = copy.deepcopy(alg.result)
                s1.mpe(name, **copy.deepcopy(MPE[base][j]))
                if dg(first) != dg(alg.result) and not same(first, alg.result, 0.0):
                    ctx.fail("oracle", "a second mpe of %s with the same arguments gives a different result" % name, case, key="C15:mpe:not-repeatable")


# ----------------------------------------------------------------------------------------------- forms of fs
FS_FORMS = {
    "int": lambda: int(FS), "float": lambda: float(FS), "np.float64": lambda: np.float64(FS), "np.float32": lambda: np.float32(FS),
    "0-d float array": lambda: np.array(float(FS)), "0-d int array": lambda: np.array(int(FS)),
}
FS_TEMPLATES = [  # algorithms added BEFORE a preprocessing step are run AFTER it
    [["add", 0], ["pre", "dec"], ["add", 1], ["run", 0], ["run", 1]],
    [["add", 0], ["pre", "fil"], ["pre", "dec"], ["add", 1], ["pre", "det"], ["runall"]],
    [["add", 0], ["pre", "det"], ["add", 1], ["pre", "fil"], ["run", 1], ["run", 0], ["pre", "dec"], ["run", 0], ["runall"]],
    [["add", 0], ["add", 1], ["pre", "dec"], ["run", 1], ["pre", "det"], ["add", 1], ["runall"]],
]
FS_CLASSES = {"single": ["FDD", "pLSCF", "SSIcov", "EFDD", "SSIdat", "FSDD"],
              "preger": ["FDD_MS", "pLSCF_MS", "EFDD_MS", "SSIcov_MS", "SSIdat_MS"]}


def _make_alg(cn, name):
    import pyoma2.algorithms as _alg
    base = cn[:-3] if cn.endswith("_MS") else cn
    kw = copy.deepcopy(PARAMS[base][0])
    if cn.endswith("_MS"):
        kw.pop("ref_ind", None)
    return getattr(_alg, cn)(name=name, **kw)


def _make_setup(kind, fs):
    from pyoma2.setup import MultiSetup_PreGER
    if kind == "single":
        return SingleSetup(W.base.copy(), fs=fs)
    return MultiSetup_PreGER(fs=fs, ref_ind=[[0, 1], [0, 1]], datasets=[W.base.copy(), W.base2.copy()])


def _preprocess(ss, what):
    if what == "dec":
        ss.decimate_data(q=2)
    elif what == "det":
        ss.detrend_data()
    else:
        ss.filter_data(Wn=3.0, order=4)


def check_fs_forms(ctx, cases):
    """the sampling frequency in every form the constructors accept (int, float, numpy scalars, 0-d arrays): an algorithm
    added before a preprocessing call and run after it keeps the data AND fs / dt it was given at add time (bit-equal), its
    result equals an isolated run (fresh setup, same preprocessing before the add, that algorithm alone, run at once), and the
    caller's fs object is never changed"""
    iso_cache = {}

    def iso(kind, form, prefix, cn):
        key = (kind, form, tuple(prefix), cn)
        if key not in iso_cache:
            ss = _make_setup(kind, FS_FORMS[form]())
            for what in prefix:
                _preprocess(ss, what)
            alg = _make_alg(cn, "iso")
            ss.add_algorithms(alg)
            ss.run_by_name("iso")
            iso_cache[key] = alg.result
        return iso_cache[key]

    for kind, form, classes, template in cases:
        case = dict(kind="fs form", setup=kind, fs_form=form, classes=classes, calls=template)
        ctx.count(case)
        ctx.hist("fs form", "%s/%s" % (kind, form))
        fs_obj = FS_FORMS[form]()
        fs_keep = (type(fs_obj).__name__, dg(fs_obj), repr(fs_obj))
        try:
            ss = _make_setup(kind, fs_obj)
        except Exception as e:  # noqa: BLE001
            ctx.fail("oracle", "%s setup refuses fs given as %s: %s" % (kind, form, type(e).__name__), case, key="C15:fs:raised")
            continue
        prefix, bound, failed = [], {}, False
        for n, step in enumerate(template):
            try:
                if step[0] == "add":
                    nm = "a%d" % step[1]
                    alg = _make_alg(classes[step[1]], nm)
                    ss.add_algorithms(alg)
                    bound[nm] = dict(cls=classes[step[1]], prefix=list(prefix), data=dg(alg.data),
                                     fs=(type(alg.fs).__name__, dg(alg.fs), repr(alg.fs)), dt=(type(alg.dt).__name__, dg(alg.dt), repr(alg.dt)))
                elif step[0] == "pre":
                    _preprocess(ss, step[1])
                    prefix.append(step[1])
                elif step[0] == "run":
                    ss.run_by_name("a%d" % step[1])
                else:
                    ss.run_all()
            except Exception as e:  # noqa: BLE001
                if step == ["pre", "fil"] and isinstance(ss.fs, np.ndarray) and isinstance(e, ValueError):
                    # pristine behaviour, outside this property: scipy.signal.butter refuses a 0-d array as fs ("Sampling frequency
                    # fs must be a single scalar"), so filter_data raises while setup.fs still is the caller's array; the call must
                    # then have changed nothing (checked below) and the history goes on without it
                    ctx.not_judged += 1
                    ctx.note("filter_data with fs given as a 0-d ndarray raises ValueError (SciPy refuses a 0-d array as fs): call not judged")
                else:
                    ctx.fail("oracle", "call %d %s raised %s (%s) with fs given as %s" % (n, step, type(e).__name__, str(e)[:80], form),
                             dict(case, call=n), key="C15:fs:raised")
                    failed = True
                    break
            now = (type(fs_obj).__name__, dg(fs_obj), repr(fs_obj))
            if now != fs_keep:
                ctx.fail("oracle", "call %d %s changed the caller's fs object: %s -> %s" % (n, step, fs_keep[2], now[2]), dict(case, call=n),
                         key="C15:fs:caller-object-changed")
            for nm, b in bound.items():
                alg = ss.algorithms[nm]
                got = dict(data=dg(alg.data), fs=(type(alg.fs).__name__, dg(alg.fs), repr(alg.fs)), dt=(type(alg.dt).__name__, dg(alg.dt), repr(alg.dt)))
                bad = [f for f in ("data", "fs", "dt") if got[f] != b[f]]
                if bad:
                    ctx.fail("oracle", "call %d %s changed what %s (%s) was given when it was added: %s" % (
                        n, step, nm, b["cls"], "; ".join("%s %s -> %s" % (f, b[f][2] if f != "data" else "array", got[f][2] if f != "data" else "other array")
                                                      for f in bad)), dict(case, call=n), key="C15:fs:binding-changed")
            ran = ["a%d" % step[1]] if step[0] == "run" else (list(ss.algorithms) if step[0] == "runall" else [])
            for nm in ran:
                b = bound[nm]
                try:
                    want = iso(kind, form, b["prefix"], b["cls"])
                except Exception as e:  # noqa: BLE001
                    ctx.fail("oracle", "the isolated run of %s with fs given as %s raised %s" % (b["cls"], form, type(e).__name__), case, key="C15:fs:raised")
                    continue
                out = []
                got = ss.algorithms[nm].result
                if dg(got) != dg(want) and not same(got, want, 0.0, out=out):
                    ctx.fail("oracle", "result of %s (%s, added after %s, run at call %d) differs from the isolated run on the data and fs "
                             "bound at add time: %s" % (nm, b["cls"], b["prefix"] or "no preprocessing", n, "; ".join(out)), dict(case, call=n),
                             key="C15:fs:result-not-isolated-run")
        if failed:
            continue


# ----------------------------------------------------------------------------------------------- persistence, every class
def deep_state(obj):
    """digest of everything an object carries (attributes recursively, arrays bit for bit) + the order of its algorithms"""
    order = list(getattr(obj, "algorithms", {}) or {})
    return (type(obj).__name__, dg(obj), order)


def poser_view(po):
    """what a PoSER object carries: names, reference indices, the setups and the merged results per algorithm name"""
    try:
        res = {k: {f: dg(v) for f, v in vars(r).items()} for k, r in po.result.items()}
    except Exception as e:  # noqa: BLE001 - "You must run merge_results() first"
        res = "%s: %s" % (type(e).__name__, e)
    return dict(names=list(po.names), ref_ind=dg(po.ref_ind), setups=[deep_state(x) for x in po.setups], result=res)


def check_persistence_classes(ctx, cases):
    """save_to_file / load_from_file, pickle and copy.deepcopy of SingleSetup, MultiSetup_PreGER (after run + mpe) and
    MultiSetup_PoSER (before and after merge_results): equal parameters and equal results, merged results included"""
    import pickle

    def build(kind, classes, merged):
        if kind == "single":
            ss = _make_setup("single", FS)
            algs = [_make_alg(cn, "a%d" % i) for i, cn in enumerate(classes)]
            ss.add_algorithms(*algs)
            ss.run_all()
            for a in algs:
                ss.mpe(a.name, **copy.deepcopy(MPE[type(a).__name__][0]))
            return ss
        if kind == "preger":
            ss = _make_setup("preger", FS)
            algs = [_make_alg(cn, "a%d" % i) for i, cn in enumerate(classes)]
            ss.add_algorithms(*algs)
            ss.run_all()
            for a in algs:
                ss.mpe(a.name, **copy.deepcopy(MPE[type(a).__name__[:-3]][0]))
            return ss
        singles = []
        for rec in (W.base, W.base2, W.base[::-1].copy())[:2 + len(classes) % 2]:
            ss = SingleSetup(rec.copy(), fs=FS)
            algs = [_make_alg(cn, "a%d" % i) for i, cn in enumerate(classes)]
            ss.add_algorithms(*algs)
            ss.run_all()
            for a in algs:
                ss.mpe(a.name, **copy.deepcopy(MPE[type(a).__name__][0]))
            singles.append(ss)
        po = MultiSetup_PoSER(ref_ind=[[0, 1] for _ in singles], single_setups=singles, names=["alg%d" % i for i in range(len(classes))])
        if merged:
            po.merge_results()
        return po

    path = os.path.join(ctx.work, "c15_persist.pkl")
    ways = {"save_to_file/load_from_file": lambda o: (save_to_file(o, path), load_from_file(path))[1],
            "save_to_file/load_from_file (pathlib.Path)": lambda o: (save_to_file(o, pathlib.Path(path)), load_from_file(pathlib.Path(path)))[1],
            "pickle": lambda o: pickle.loads(pickle.dumps(o)), "copy.deepcopy": copy.deepcopy}
    for kind, classes, merged in cases:
        case = dict(kind="persistence", setup=kind, classes=classes, merge_results_called=bool(merged))
        try:
            obj = build(kind, classes, merged)
        except Exception as e:  # noqa: BLE001 - e.g. a class whose results cannot be merged: not a persistence question
            ctx.not_judged += 1
            ctx.note("persistence case %s not built: %s %s" % (case, type(e).__name__, str(e)[:80]))
            continue
        view = poser_view if kind == "poser" else deep_state
        before = view(obj)
        for how, fn in ways.items():
            ctx.count(dict(case, how=how))
            ctx.hist("persistence", "%s/%s%s" % (kind, how, "/merged" if merged else ""))
            try:
                back = fn(obj)
                got = view(back)
            except Exception as e:  # noqa: BLE001
                ctx.fail("oracle", "%s of a %s setup raised %s: %s" % (how, kind, type(e).__name__, str(e)[:80]), dict(case, how=how),
                         key="C15:persist:raised")
                continue
            if view(obj) != before:
                ctx.fail("oracle", "%s changed the %s setup that was saved" % (how, kind), dict(case, how=how), key="C15:persist:original-changed")
            if got != before:
                if kind == "poser":
                    diff = [k for k in before if before[k] != got.get(k)]
                    detail = "; ".join("%s: %s" % (k, got[k] if isinstance(got[k], str) else "differs") for k in diff)
                else:
                    detail = "attributes differ"
                ctx.fail("oracle", "%s setup after %s does not carry equal parameters and results (%s)" % (kind, how, detail),
                         dict(case, how=how), key="C15:persist:not-equal")
    if os.path.exists(path):
        os.remove(path)


# ----------------------------------------------------------------------------------------------- persistence by name
NAME_FAMILIES = [
    ["setup_fs12.5", "setup_fs12.8", "setup_fs12"],          # dotted names that differ only after the last dot
    ["campaign.day1", "campaign.day2", "campaign.day10"],
    ["a.pkl", "b.pkl", "a.b.pkl"],                            # with the usual extension
    ["plain", "plain2", "other"],                             # no extension at all
    ["run.2024.01.pkl", "run.2024.02.pkl", "run.2024.pkl"],
    ["v1.0/setup", "v1.1/setup", "v1.0/setup2"],              # sub-directories (dots in the directory names)
    ["sub/x.1", "sub/x.2", "sub/y.1"],
    ["setup.pickle", "setup.dat", "setup2.pickle"],           # other extensions
    ["rec_0.25Hz", "rec_0.50Hz", "rec_0.75Hz"],
]


def build_setups(lineups_histories):
    out = []
    for lu, h in lineups_histories:
        conc, _, _ = resolve(lu, h)
        ss = SingleSetup(W.base.copy(), fs=FS)
        for op in conc:
            if op[0] == "addall":
                ss.add_algorithms(*[new_alg(lu, i) for i in range(len(lu))])
            elif op[0] == "runall":
                ss.run_all()
            elif op[0] == "run":
                ss.run_by_name("a%d" % op[1])
            elif op[0] == "mpe":
                ss.mpe("a%d" % op[1], **copy.deepcopy(MPE[lu[op[1]][0]][lu[op[1]][2]]))
            elif op[0] == "rebind":
                ss.decimate_data(q=2) if op[1] == "dec" else ss.detrend_data()
        out.append(ss)
    return out


def check_persistence(ctx, families):
    """the property text on files: a setup saved under a name and loaded back under THAT name carries equal parameters and
    results - whatever else has been saved under other names in between (names as str and as pathlib.Path, with and
    without extension, differing only after the last dot, in sub-directories)"""
    rng = ctx.rng
    x, y = rng.sample(list(CLASSES), 2)
    specs = [([[x, 0, 0], [y, 0, 0]], [["addall"], ["runall"], ["mpe", 0], ["mpe", 1]]),
             ([[x, 1, 1], [y, 1, 1]], [["addall"], ["runall"], ["mpe", 1]]),
             ([[y, 0, 1], [x, 1, 0]], [["addall"], ["rebind"], ["add", 0], ["runall"]])]
    setups = build_setups(specs)
    snaps = [snapshot(ss) for ss in setups]
    assert len({json.dumps(sn, sort_keys=True, default=str) for sn in snaps}) == len(snaps)
    root = os.path.join(ctx.work, "c15_files")

    def differing(a, b):
        n = 0
        for k in set(a) | set(b):
            if a.get(k) != b.get(k):
                n += 1 if k.startswith("__") else sum(1 for u, v in zip(a.get(k) or [None] * 6, b.get(k) or [None] * 6) if u != v)
        return n

    for fi, fam in enumerate(families):
        shutil.rmtree(root, ignore_errors=True)
        held = {}  # name -> index of the setup saved under it last
        order = list(range(len(fam)))
        rng.shuffle(order)
        steps = [(i, (i + fi) % len(setups)) for i in order] + [(i, (i + fi + 1) % len(setups)) for i in reversed(order)]
        as_path = [(i + fi) % 2 == 1 for i in range(len(fam))]
        case = dict(kind="save/load by name", names=fam, given_as=["pathlib.Path" if p else "str" for p in as_path],
                    setups=[dict(lineup=lu, history=h) for lu, h in specs], saves=[[fam[i], k] for i, k in steps])
        ctx.count(case)
        ctx.hist("file-name family", "|".join(fam))

        def arg(i):
            full = os.path.join(root, fam[i])
            os.makedirs(os.path.dirname(full), exist_ok=True)
            return pathlib.Path(full) if as_path[i] else full

        def load_and_compare(i, when):
            try:
                got = snapshot(load_from_file(arg(i)))
            except Exception as e:  # noqa: BLE001
                ctx.fail("oracle", "load_from_file(%r) raised %s %s" % (fam[i], type(e).__name__, when), dict(case, at=fam[i]),
                         key="C15:saveload:names-raised")
                return
            want = snaps[held[i]]
            if got != want:
                other = [k for k, sn in enumerate(snaps) if sn == got]
                ctx.fail("oracle", "loading %r %s returns %s (%d parameter/result/data fields differ from the setup saved under that name)" % (
                    fam[i], when, "the setup saved under another name" if other else "a setup that was never saved", differing(got, want)),
                    dict(case, at=fam[i]), key="C15:saveload:name-collision" if other else "C15:saveload:names-not-equal")

        for (i, k) in steps:
            try:
                save_to_file(setups[k], arg(i))
            except Exception as e:  # noqa: BLE001
                ctx.fail("oracle", "save_to_file(.., %r) raised %s" % (fam[i], type(e).__name__), dict(case, at=fam[i]), key="C15:saveload:names-raised")
                continue
            held[i] = k
            load_and_compare(i, "right after saving it")
            for j in sorted(held):
                if j != i:
                    load_and_compare(j, "after %r was saved too" % fam[i])
        if [snapshot(ss) for ss in setups] != snaps:
            ctx.fail("oracle", "saving / loading changed the setups that were saved", case, key="C15:saveload:names-mutated")
    shutil.rmtree(root, ignore_errors=True)


# ----------------------------------------------------------------------------------------------- instance machine (M_orch2.v)
# Algorithm INSTANCES with identity on SingleSetup and on MultiSetup_PreGER: set_run_params on an instance (before / after
# add, before / after run), adding the same instance again, two instances with one name, add_algorithms with several
# instances, rollback.  The model state is compared instance by instance - the caller's handles, in the dict or not.
HEADER2 = "From PyOMA.Model Require Import M_orch M_orch2."
MS_BASE = {"FDD_MS": "FDD", "EFDD_MS": "EFDD", "SSIcov_MS": "SSIcov", "SSIdat_MS": "SSIdat", "pLSCF_MS": "pLSCF"}
W2 = {}  # kind -> World2, set in run(), inherited by forked workers


def base_of(cn):
    return MS_BASE.get(cn, cn)


def params_kw(cn, k):
    kw = copy.deepcopy(PARAMS[base_of(cn)][k])
    if cn in MS_BASE:
        kw.pop("ref_ind", None)
    return kw


def alg_class(cn):
    import pyoma2.algorithms as _alg
    return getattr(_alg, cn)


def version_fs(version):
    fs = FS
    for what in version:
        if what == "dec":
            fs = fs / 2
        elif what == "new":
            fs = FS / 2
    return fs


class World2:
    """data versions and the evaluation of the model's terms by isolated runs, for one kind of setup.
    Run c p d f = a fresh setup holding data version d at fs f, one fresh instance of class c with parameters p, add, run;
    Extract2 r p' d' dt' args = that instance, then run_params := p', data := version d', fs, dt := dt', mpe(args)."""

    def __init__(self, kind):
        self.kind = kind
        self.vcache, self.rcache, self.mcache = {}, {}, {}

    def fresh_setup(self, version):
        if self.kind == "single":
            x, fs = W.base.copy(), FS
            for what in version:  # recomputed with SciPy / by hand, never through pyoma2
                if what == "det":
                    x = signal.detrend(x, axis=0)
                elif what == "new":
                    x, fs = W.base2.copy(), FS / 2
            return SingleSetup(x, fs=fs)
        from pyoma2.setup import MultiSetup_PreGER
        ss = MultiSetup_PreGER(fs=FS, ref_ind=[[0, 1], [0, 1]], datasets=[W.base.copy(), W.base2.copy()])
        for what in version:
            ss.decimate_data(q=2) if what == "dec" else ss.detrend_data()
        return ss

    def vdata(self, version):
        if version not in self.vcache:
            ss = self.fresh_setup(version)
            self.vcache[version] = (ss.data, ss.fs, dg(ss.data))
        return self.vcache[version]

    def run_term(self, cn, k, version):
        key = (cn, k, version)
        if key not in self.rcache:
            ss = self.fresh_setup(version)
            alg = alg_class(cn)(name="iso", **params_kw(cn, k))
            ss.add_algorithms(alg)
            ss.run_by_name("iso")
            self.rcache[key] = (alg, dg(alg.result))
        return self.rcache[key]

    def modes_term(self, cn, k, version, k2, dversion, dtfs, j):
        key = (cn, k, version, k2, dversion, dtfs, j)
        if key not in self.mcache:
            alg = copy.deepcopy(self.run_term(cn, k, version)[0])
            alg.run_params = alg_class(cn).RunParamCls(**params_kw(cn, k2))
            alg.data = None if dversion is None else self.fresh_setup(dversion).data
            alg.fs, alg.dt = dtfs, 1 / dtfs
            alg.mpe(**copy.deepcopy(MPE[base_of(cn)][j]))
            self.mcache[key] = (alg.result, dg(alg.result))
        return self.mcache[key]


def m2_codes(ops_codes):
    return " ".join(str(x) for o in ops_codes for x in o)


def m2_heap_codes(lineup):
    return " ".join("%d %d %d" % (nm, CID[base_of(cn)], 0 if k is None else pid(base_of(cn), k) + 1) for cn, k, _, nm in lineup)


def m2_snapshot(ss, handles):
    snap = {"__data": dg(ss.data), "__fs": None if ss.fs is None else float(ss.fs), "__order": [(n, id(a)) for n, a in ss.algorithms.items()]}
    for h, alg in enumerate(handles):
        snap[h] = (dg(alg.run_params), dg(getattr(alg, "data", None)), getattr(alg, "fs", None), getattr(alg, "dt", None), dg(alg.result))
    return snap


def execute2(job):
    """one history of the instance machine on the implementation.  job = dict(kind, lineup [[class, params|None, mpe variant,
    name index]..], seq).  Returns the exceptions, the final state in the model's vocabulary, the model op codes (the mpe
    arguments depend on the class the name leads to when the call is made) and the failures of the property-text oracle."""
    kind, lineup = job["kind"], job["lineup"]
    w2 = W2[kind]
    fails, raised, codes = [], [], []
    case = dict(kind="instances/" + kind, lineup=lineup, seq=job["seq"])

    def fail(key, what, **extra):
        fails.append(dict(kind="oracle", key="C15:" + key, what=what, case=dict(case, **extra)))

    ss = w2.fresh_setup(())
    handles = []
    for cn, k, _, nm in lineup:
        handles.append(alg_class(cn)(name="a%d" % nm) if k is None else alg_class(cn)(name="a%d" % nm, **params_kw(cn, k)))
    # ---- the property text as bookkeeping: per instance what it was given and when it ran; per name who holds it
    book = [dict(k=k, bound=None, dt=None, ran=None, modes=None, judged=True) for _, k, _, _ in lineup]
    names = {}  # name index -> handle, insertion ordered
    cur_version, cur_fs = (), FS
    seen = {()}
    path = os.path.join(job["tmp"], "c15_m2_%d.pkl" % os.getpid())
    unusable = None
    last_snap = None  # the snapshot taken after a call is the one before the next call
    for n, op in enumerate(job["seq"]):
        what = op[0]
        before = last_snap or m2_snapshot(ss, handles)
        exc, target, gated = None, None, []
        try:
            if what == "add":
                codes.append([1, len(op[1])] + list(op[1]))
                ss.add_algorithms(*[handles[h] for h in op[1]])
            elif what == "set":
                codes.append([7, op[1], pid(base_of(lineup[op[1]][0]), op[2])])
                cn = lineup[op[1]][0]
                handles[op[1]].set_run_params(alg_class(cn).RunParamCls(**params_kw(cn, op[2])))
            elif what == "run":
                codes.append([2, op[1]])
                ss.run_by_name("a%d" % op[1])
            elif what == "runall":
                codes.append([3])
                ss.run_all()
            elif what == "mpe":
                target = names.get(op[1])
                cn, j = (lineup[target][0], lineup[target][2]) if target is not None else ("FDD", 0)
                codes.append([4, op[1], aid(base_of(cn), j)])
                ss.mpe("a%d" % op[1], **copy.deepcopy(MPE[base_of(cn)][j]))
            elif what == "rebind":
                v = tuple(cur_version or ()) + (op[1],) if op[1] != "new" else ("new",)
                codes.append([5, vid(v) + 1, int(version_fs(v)) + 1])
                if op[1] == "new":
                    ss.data, ss.fs = W.base2.copy(), FS / 2
                elif op[1] == "dec":
                    ss.decimate_data(q=2)
                else:
                    ss.detrend_data()
            elif what == "nofs":
                codes.append([5, 0 if cur_version is None else vid(cur_version) + 1, 0])
                ss.fs = None
            elif what == "nodata":
                codes.append([5, 0, 0 if cur_fs is None else int(cur_fs) + 1])
                ss.data = None
            elif what == "rollback":
                codes.append([8])
                ss.rollback()
            elif what == "saveload":
                codes.append([6])
                save_to_file(ss, path)
                old = ss
                ss = load_from_file(path)
                # the caller goes on with the loaded object: a handle on an instance the saved setup held now means the loaded one
                handles = [ss.algorithms[a.name] if old.algorithms.get(a.name) is a else a for a in handles]
            else:
                raise ValueError(op)
        except Exception as e:  # noqa: BLE001
            exc = type(e).__name__
        raised.append(exc)
        # ---- the property text on this call
        if what == "add":
            if exc is None:
                for h in op[1]:
                    book[h]["bound"], book[h]["dt"], book[h]["judged"] = (cur_version, cur_fs), cur_fs, True
                    names[lineup[h][3]] = h
            else:
                # an add that raises (setup without fs) is outside the property text.  What the code does is followed so that the
                # later calls can be judged: _set_data of the first instance stored data and fs = None before 1/fs raised
                book[op[1][0]]["bound"], book[op[1][0]]["judged"] = (cur_version, None), False
                if cur_fs is not None:
                    fail("add:raised", "add_algorithms raised %s on a setup with fs" % exc, call=n)
        elif what == "set":
            book[op[1]]["k"] = op[2]
            if exc is not None:
                fail("set_run_params:raised", "set_run_params raised %s" % exc, call=n)
        elif what in ("run", "runall"):
            todo = ([names[op[1]]] if op[1] in names else []) if what == "run" else list(names.values())
            for h in todo:
                b = book[h]
                if b["bound"] is None or b["bound"][0] is None or b["bound"][1] is None or b["k"] is None:
                    gated.append(h)
                    break
                b["ran"], b["modes"] = (b["k"], b["bound"][0], b["bound"][1]), None
            if todo:
                if gated and exc is None:
                    fail("%s:gate-not-raised" % what, "%s did not raise (run without data / fs / run parameters)" % what, call=n)
                if not gated and exc is not None:
                    # run() itself may be unable to work on this data version (a record decimated down to too few samples):
                    # if the ISOLATED run of the same class and parameters on that version fails too, the history is not judged
                    for h in todo:
                        try:
                            w2.run_term(lineup[h][0], book[h]["ran"][0], book[h]["ran"][1])
                        except Exception as e:  # noqa: BLE001
                            unusable = "%s on data version %s: %s %s" % (lineup[h][0], list(book[h]["ran"][1]), type(e).__name__, str(e)[:60])
                    if unusable is None:
                        fail("%s:raised" % what, "%s raised %s although data, fs and run parameters are set" % (what, exc), call=n)
        elif what == "mpe" and target is not None:
            b = book[target]
            if b["ran"] is None:
                gated.append(target)
                if exc is None:
                    fail("mpe:gate-not-raised", "mpe did not raise (mpe without a prior run)", call=n)
            else:
                if exc is not None:
                    fail("mpe:raised", "mpe raised %s although the algorithm has been run" % exc, call=n)
                else:
                    b["modes"] = (b["k"], b["bound"][0], b["dt"])
        elif what == "rebind":
            cur_version = tuple(cur_version or ()) + (op[1],) if op[1] != "new" else ("new",)
            cur_fs = version_fs(cur_version)
            seen.add(cur_version)
        elif what == "nofs":
            cur_fs = None
        elif what == "nodata":
            cur_version = None
        elif what == "rollback":
            cur_version, cur_fs, names = (), FS, {}
        after = last_snap = m2_snapshot(ss, handles)
        if what == "saveload":
            if exc is not None:
                fail("saveload:raised", "save_to_file / load_from_file raised %s" % exc, call=n)
            elif {k: v for k, v in after.items() if k != "__order"} != {k: v for k, v in before.items() if k != "__order"} \
                    or [x[0] for x in after["__order"]] != [x[0] for x in before["__order"]]:
                fail("saveload:not-equal", "the loaded setup differs from the saved one", call=n)
            continue
        if exc is not None and what not in ("runall", "add") and after != before:
            fail("%s:stored-on-exception" % what, "%s raised %s but something was stored: %s changed" % (
                what, exc, [k for k in after if after[k] != before[k]]), call=n)
        for h in gated:
            if after[h] != before[h]:
                fail("%s:stored-on-gate" % what, "the gate of instance %d fired but its run parameters / data / result changed" % h, call=n)
        # frame: the instances the call does not reach; the shared data for everything but preprocessing
        reach = {"add": lambda: set(op[1]), "set": lambda: {op[1]}, "run": lambda: {names[op[1]]} if op[1] in names else set(),
                 "mpe": lambda: {target} if target is not None else set(), "runall": lambda: set(names.values())}.get(what, lambda: set())()
        for h in range(len(handles)):
            if h not in reach and after[h] != before[h]:
                fail("%s:frame" % what, "%s changed instance %d (%s), which it does not reach" % (what, h, lineup[h][0]), call=n)
        if what in ("add", "set"):  # ... and of those it reaches: add re-binds, set_run_params replaces the parameters - the result stays
            for h in reach:
                if after[h][4] != before[h][4]:
                    fail("%s:result-lost" % what, "%s changed the stored result of instance %d" % (what, h), call=n)
                if what == "add" and after[h][0] != before[h][0]:
                    fail("add:params-changed", "add_algorithms changed the run parameters of instance %d" % h, call=n)
                if what == "set" and after[h][1:4] != before[h][1:4]:
                    fail("set_run_params:binding-changed", "set_run_params changed data / fs / dt of instance %d" % h, call=n)
        if what not in ("rebind", "nofs", "nodata", "rollback") and (after["__data"], after["__fs"]) != (before["__data"], before["__fs"]):
            fail("%s:shared-data" % what, "%s modified the setup's data or fs" % what, call=n)
        if what not in ("add", "rollback") and after["__order"] != before["__order"]:
            fail("%s:dict" % what, "%s changed the setup's algorithms dict" % what, call=n)
    if os.path.exists(path):
        os.remove(path)
    # ---- final state in the model's vocabulary
    vtab = {w2.vdata(v)[2]: v for v in seen}

    def show_data(x):
        if x is None:
            return "-"
        v = vtab.get(dg(x))
        return "?" if v is None else str(vid(v))

    def show_fs(x):
        return "-" if x is None else str(int(round(float(x))))

    if cur_version is not None and (ss.data is None or dg(ss.data) != w2.vdata(cur_version)[2]):
        fail("data:shared-array", "setup.data is not the record after the preprocessing calls made (%s)" % list(cur_version))
    want_order = [(nm, h) for nm, h in names.items()]
    got_order = []
    for nm, alg in ss.algorithms.items():
        hs = [h for h, a in enumerate(handles) if a is alg]
        got_order.append((int(nm[1:]), hs[0] if hs else -1))
    if got_order != want_order:
        fail("state:names", "algorithms dict is %s (name, instance), calls made imply %s" % (got_order, want_order))
    parts = []
    ran_any = False
    for h, alg in enumerate(handles):
        cn, _, j, nm = lineup[h]
        b = book[h]
        bcn = base_of(cn)
        rp = alg.run_params
        if rp is None:
            par = "-"
        else:
            mine = {f: dg(v) for f, v in vars(rp).items() if f not in MPE_FIELDS}
            par = "?"
            for k in range(len(PARAMS[bcn])):
                if mine == {f: dg(v) for f, v in vars(alg_class(cn).RunParamCls(**params_kw(cn, k))).items() if f not in MPE_FIELDS}:
                    par = str(pid(bcn, k))
        dt = getattr(alg, "dt", None)
        rs, ms = "-", "-"
        if alg.result is not None:
            rs, ms = "?", "?"
            if b["ran"] is not None:
                ran_any = True
                k1, v1, f1 = b["ran"]
                t1 = "%d,%d,%d,%d" % (CID[bcn], pid(bcn, k1), vid(v1), int(f1))
                try:
                    cands = [(w2.run_term(cn, k1, v1)[0].result, (t1, "-"))]
                    if b["modes"] is not None:
                        k2, v2, f2 = b["modes"]
                        t2 = "%s,%d,%s,%s,%d" % (t1, pid(bcn, k2), "-" if v2 is None else vid(v2), show_fs(f2), aid(bcn, j))
                        cands.insert(0, (w2.modes_term(cn, k1, v1, k2, v2, f2, j)[0], (t1, t2)))
                except Exception as e:  # noqa: BLE001 - a term the isolated replay cannot evaluate: history not judged
                    unusable = "%s: %s %s" % (cn, type(e).__name__, str(e)[:80])
                    cands = []
                out = []
                for obj, names_ in cands:
                    if dg(alg.result) == dg(obj) or same(alg.result, obj, 1e-12, out=out):
                        rs, ms = names_
                        break
                if cands and (rs, ms) != cands[0][1]:
                    fail("result:not-isolated-run", "result of instance %d (%s) differs from the isolated evaluation of what the calls made imply: "
                         "run with parameters %d on data version %s at fs %s%s: %s" % (
                             h, cn, k1, list(v1), f1, "" if b["modes"] is None else ", modes extracted under parameters %d, dt 1/%s" % (
                                 b["modes"][0], b["modes"][2]), "; ".join(out[:2])))
        elif b["ran"] is not None:
            fail("result:presence", "instance %d (%s) has no result although it has been run" % (h, cn))
        if b["ran"] is None and alg.result is not None:
            fail("result:presence", "instance %d (%s) has a result although it never ran" % (h, cn))
        if True:
            if (par == "-") != (b["k"] is None) or (b["k"] is not None and par != str(pid(bcn, b["k"]))):
                fail("params:changed", "run parameters of instance %d (%s) are not those given last (constructor / set_run_params)" % (h, cn))
            if b["bound"] is not None and b["judged"]:
                bv, bf = b["bound"]
                adata = getattr(alg, "data", None)
                if (bv is None) != (adata is None) or (bv is not None and dg(adata) != w2.vdata(bv)[2]) or getattr(alg, "fs", None) != bf:
                    fail("data:binding", "instance %d (%s): data / fs are not those of the setup at its latest add (version %s, fs %s)" % (
                        h, cn, None if bv is None else list(bv), bf))
        parts.append("%d:%d:%s:%s:%s:%s:%s:%s" % (nm, CID[bcn], par, show_data(getattr(alg, "data", None)), show_fs(getattr(alg, "fs", None)),
                                                  "-" if dt is None else show_fs(1 / dt), rs, ms))
    state = "%s:%s/%s/%s" % (show_data(ss.data), show_fs(ss.fs), ";".join("%d>%d" % e for e in got_order), ";".join(parts))
    return dict(raised=raised, state=state, codes=codes, fails=fails, unusable=unusable, nontrivial=ran_any, case=case)


def execute2_safe(job):
    try:
        return execute2(job)
    except Exception:  # noqa: BLE001
        import traceback
        case = dict(kind="instances/" + job["kind"], lineup=job["lineup"], seq=job["seq"])
        return dict(raised=[], state="!", codes=None, unusable=None, nontrivial=False, case=case,
                    fails=[dict(kind="correspondence", key="C15:harness:analysis-crashed", case=case,
                                what="the history could not be analysed: " + traceback.format_exc()[-800:])])


def _worker2(jobs):
    return [execute2_safe(j) for j in jobs]


def check_instances(ctx, jobs, nproc):
    for j in jobs:
        j["tmp"] = ctx.work
    if nproc <= 1 or len(jobs) < 64:
        recs = _worker2(jobs)
    else:
        chunk = max(8, min(100, len(jobs) // (nproc * 4)))
        chunks = [jobs[i:i + chunk] for i in range(0, len(jobs), chunk)]
        with multiprocessing.get_context("fork").Pool(nproc) as pool:
            recs = [r for c in pool.map(_worker2, chunks) for r in c]
    live = [(j, r) for j, r in zip(jobs, recs) if r["codes"] is not None]
    exprs, per = [], 40
    for i in range(0, len(live), per):
        rows = "|".join("%s|%s" % (m2_heap_codes(j["lineup"]), m2_codes(r["codes"])) for j, r in live[i:i + per])
        exprs.append('showMHistsS 0%%nat %d%%nat "%s"' % (int(FS), rows))
    outs = ctx.coq_eval(HEADER2, exprs, shard=max(1, min(40, (len(exprs) + 13) // 14)))
    model = [s for o in outs for s in o.split("|")]
    assert len(model) == len(live), (len(model), len(live))
    model = iter(model)
    for job, rec in zip(jobs, recs):
        case = rec["case"]
        ctx.count(case, nontrivial=rec["nontrivial"])
        ctx.hist("instance machine", "%s, %d calls" % (job["kind"], len(job["seq"])))
        m = next(model) if rec["codes"] is not None else None
        if rec["unusable"]:
            ctx.not_judged += 1
            ctx.note("term not evaluable by an isolated replay (history not judged): " + rec["unusable"])
            continue
        for f in rec["fails"]:
            ctx.fail(f["kind"], f["what"], f["case"], key=f["key"])
        if m is None:
            continue
        mtrace, mstate = m.split("/", 1)
        mtrace = mtrace.split(" ") if mtrace else []
        for n, (exc, merr) in enumerate(zip(rec["raised"], mtrace)):
            ctx.hist("instance machine outcome", "%s:%s" % (job["seq"][n][0], merr))
            if (merr == "ok") != (exc is None):
                ctx.fail("correspondence", "call %d (%s): model says %s, implementation %s" % (
                    n, job["seq"][n], merr, exc or "no exception"), dict(case, call=n), key="C15:corr:m2-raise-%s" % job["seq"][n][0])
            elif merr == "V" and exc != "ValueError":
                ctx.fail("correspondence", "call %d (%s): the model's gate fires (ValueError), implementation raised %s" % (
                    n, job["seq"][n], exc), dict(case, call=n), key="C15:corr:m2-gate-kind-%s" % job["seq"][n][0])
        if mstate != rec["state"]:
            ctx.fail("correspondence", "instance machine, final state differs: model %s, implementation (results matched against isolated "
                     "evaluations of the terms) %s" % (mstate, rec["state"]), case, key="C15:corr:m2-state")


def instance_jobs(ctx, kind, lineup, full_len, sampled, malformed=False):
    """every call sequence up to full_len over the instance alphabet from two start states + sampled longer ones"""
    rng = ctx.rng
    nh = len(lineup)
    nnames = sorted({e[3] for e in lineup})
    alpha = [["add", [h]] for h in range(nh)]
    same_name = [[h, g] for h in range(nh) for g in range(nh) if h != g and lineup[h][3] == lineup[g][3]]
    alpha += [["add", p] for p in same_name[:1]]
    alpha += [["set", h, 1 - (lineup[h][1] or 0)] for h in range(nh)] + [["set", 0, lineup[0][1] or 0]]
    alpha += [["run", a] for a in nnames] + [["mpe", a] for a in nnames] + [["runall"], ["rollback"], ["saveload"]]
    if malformed:  # setup.fs / setup.data set to None by assignment, unknown names
        alpha += [["rebind", "new"], ["nofs"], ["nodata"], ["run", UNKNOWN], ["mpe", UNKNOWN]]
    else:
        alpha += [["rebind", "new" if kind == "single" else "dec"], ["rebind", "det"]]
    starts = [[], [["add", [0]], ["runall"]]]
    jobs = []
    for start in starts:
        for L in range(1, full_len + 1):
            for seq in itertools.product(alpha, repeat=L):
                jobs.append(dict(kind=kind, lineup=lineup, seq=copy.deepcopy(start + list(seq))))
        for _ in range(sampled):  # mostly with some instances registered first, so that run / mpe by name find them
            L = rng.randint(full_len + 1, full_len + 4)
            pre = [["add", rng.sample(range(nh), rng.randint(1, nh))]] if rng.random() < 0.7 else []
            seq, ndec = [], 0
            for op in [rng.choice(alpha) for _ in range(L)]:  # one decimation per history: a second one leaves too few samples to run on
                ndec += op == ["rebind", "dec"]
                seq.append(["rebind", "det"] if (op == ["rebind", "dec"] and ndec > 1) else op)
            jobs.append(dict(kind=kind, lineup=lineup, seq=copy.deepcopy(start + pre + seq)))
    return jobs


# ----------------------------------------------------------------------------------------------- call forms
# parameter order of the public entry points as documented in the PRISTINE tree (hard-coded on purpose: a changed tree must not
# redefine what a positional call means)
MPE_ORDER = {
    "FDD": ["sel_freq", "DF"],
    "EFDD": ["sel_freq", "DF1", "DF2", "cm", "MAClim", "sppk", "npmax"],
    "FSDD": ["sel_freq", "DF1", "DF2", "cm", "MAClim", "sppk", "npmax"],
    "SSIcov": ["sel_freq", "order", "rtol"],
    "SSIdat": ["sel_freq", "order", "rtol"],
    "pLSCF": ["sel_freq", "order", "rtol"],
}
# a non-default value for EVERY parameter (defaults: DF 0.1; DF1 0.1, DF2 1.0, cm 1, MAClim 0.85, sppk 3, npmax 20; order "find_min", rtol 5e-2)
MPE_FULL = {
    "FDD": dict(sel_freq=[1.0, 2.5], DF=0.3),
    "EFDD": dict(sel_freq=[1.0, 2.5], DF1=0.2, DF2=0.8, cm=2, MAClim=0.9, sppk=1, npmax=4),
    "FSDD": dict(sel_freq=[1.0, 2.5], DF1=0.2, DF2=0.8, cm=2, MAClim=0.9, sppk=1, npmax=4),
    "SSIcov": dict(sel_freq=[1.0, 2.5], order=6, rtol=0.3),
    "SSIdat": dict(sel_freq=[1.0, 2.5], order=6, rtol=0.3),
    "pLSCF": dict(sel_freq=[1.0, 2.5], order=4, rtol=0.5),
}


def check_call_forms(ctx):
    """the documented POSITIONAL call of every public entry point this check drives gives what the keyword call gives:
    setup.mpe(name, ...) and Class.mpe(...) for the six single-setup and the five multi-setup classes, the MultiSetup_PoSER
    constructor, SingleSetup / MultiSetup_PreGER constructors, run_by_name, decimate_data, filter_data, save_to_file / load_from_file"""
    from pyoma2.setup import MultiSetup_PreGER

    def differ(a, b):
        out = []
        return None if (dg(a) == dg(b) or same(a, b, 0.0, out=out)) else "; ".join(out[:2])

    for cn in list(CLASSES) + list(MS_BASE):
        bcn = base_of(cn)
        kw = MPE_FULL[bcn]
        pos = [copy.deepcopy(kw[f]) for f in MPE_ORDER[bcn]]
        case = dict(kind="call form", entry="%s.mpe" % cn, keywords=kw, positional_order=MPE_ORDER[bcn])
        try:
            ss = W2["preger" if cn in MS_BASE else "single"].fresh_setup(())
            ss.add_algorithms(alg_class(cn)(name="x", **params_kw(cn, 0)))
            ss.run_by_name("x")
            forms = [copy.deepcopy(ss) for _ in range(3)]
            forms[0].mpe("x", **copy.deepcopy(kw))
        except Exception as e:  # noqa: BLE001 - the keyword call itself is not available on this record: nothing to compare with
            ctx.not_judged += 1
            ctx.note("call forms of %s.mpe not judged: keyword call raised %s" % (cn, type(e).__name__))
            continue
        for how, call in (("setup.mpe(name, *positional)", lambda s_: s_.mpe("x", *pos)), ("Class.mpe(*positional)", lambda s_: s_["x"].mpe(*pos))):
            ctx.count(dict(case, how=how))
            other = forms[1] if how.startswith("setup") else forms[2]
            try:
                call(other)
            except Exception as e:  # noqa: BLE001
                ctx.fail("oracle", "%s of %s raised %s where the keyword call succeeds" % (how, cn, type(e).__name__), dict(case, how=how),
                         key="C15:callform:mpe")
                continue
            bad = differ(other["x"].result, forms[0]["x"].result) or differ(vars(other["x"].run_params), vars(forms[0]["x"].run_params))
            if bad:
                ctx.fail("oracle", "%s of %s in the documented parameter order %s gives another result / other stored parameters than "
                         "the keyword call with the same values: %s" % (how, cn, MPE_ORDER[bcn], bad), dict(case, how=how), key="C15:callform:mpe")
    # ---- PoSER constructor: (ref_ind, single_setups, names)
    setups = []
    for rec in (W.base, W.base2):
        ss = SingleSetup(rec.copy(), FS)  # (data, fs) positionally
        ss.add_algorithms(FDD(name="x", **params_kw("FDD", 0)))
        ss.run_by_name("x")
        ss.mpe("x", **copy.deepcopy(MPE["FDD"][0]))
        setups.append(ss)
    for names_, valid in ((["n"], True), (["n", "m"], False), ([], False)):
        case = dict(kind="call form", entry="MultiSetup_PoSER", names=names_)
        ctx.count(case)
        got = []
        for form in ("positional", "keyword"):
            try:
                po = MultiSetup_PoSER([[0], [0, 1]], setups, names_) if form == "positional" else \
                    MultiSetup_PoSER(ref_ind=[[0], [0, 1]], single_setups=setups, names=names_)
                got.append(("accepted", dg(po.ref_ind), list(po.names), [id(x) for x in po.setups]))
            except Exception as e:  # noqa: BLE001
                got.append(("ValueError" if isinstance(e, ValueError) else type(e).__name__,))
        if got[0] != got[1] or (got[0][0] == "accepted") != valid or (not valid and got[0][0] != "ValueError"):
            ctx.fail("oracle", "MultiSetup_PoSER(ref_ind, single_setups, names): positional call %s, keyword call %s, the property says %s" % (
                got[0][0], got[1][0], "accept" if valid else "ValueError"), case, key="C15:callform:poser")
    # ---- setups: constructors, run_by_name, preprocessing, save / load
    path = os.path.join(ctx.work, "c15_forms.pkl")
    pairs = []
    a, b = SingleSetup(W.base.copy(), FS), SingleSetup(data=W.base.copy(), fs=FS)
    pairs.append(("SingleSetup(data, fs)", a, b))
    a.add_algorithms(SSIcov(name="x", **params_kw("SSIcov", 0))); b.add_algorithms(SSIcov(name="x", **params_kw("SSIcov", 0)))
    a.filter_data(3.0, 4, "highpass"); b.filter_data(Wn=3.0, order=4, btype="highpass")
    pairs.append(("filter_data(Wn, order, btype)", a, b))
    a.decimate_data(2); b.decimate_data(q=2)
    pairs.append(("decimate_data(q)", a, b))
    a.add_algorithms(FDD(name="y", **params_kw("FDD", 0))); b.add_algorithms(FDD(name="y", **params_kw("FDD", 0)))
    a.run_by_name("y"); b.run_by_name(name="y")
    pairs.append(("run_by_name(name)", a, b))
    save_to_file(a, path); a2 = load_from_file(path)
    save_to_file(setup=b, file_name=path); b2 = load_from_file(file_name=path)
    pairs.append(("save_to_file(setup, file_name) / load_from_file(file_name)", a2, b2))
    pairs.append(("save_to_file / load_from_file against the saved setup", a2, a))
    ds = lambda: [W.base.copy(), W.base2.copy()]  # noqa: E731
    pairs.append(("MultiSetup_PreGER(fs, ref_ind, datasets)", MultiSetup_PreGER(FS, [[0, 1], [0, 1]], ds()),
                  MultiSetup_PreGER(fs=FS, ref_ind=[[0, 1], [0, 1]], datasets=ds())))
    if os.path.exists(path):
        os.remove(path)
    for entry, u, v in pairs:
        case = dict(kind="call form", entry=entry)
        ctx.count(case)
        if snapshot(u) != snapshot(v) or dg(getattr(u, "datasets", None)) != dg(getattr(v, "datasets", None)):
            ctx.fail("oracle", "%s: the positional call leaves another setup state (data / fs / bound algorithms / results) than the "
                     "keyword call" % entry, case, key="C15:callform:setup")


# ----------------------------------------------------------------------------------------------- entry point
def run(ctx):
    global W
    rng = ctx.rng
    T = ctx.extra.setdefault("timing_wall_cpu_s", {})

    def clock():
        t = os.times()
        return np.array([time.time(), t[0] + t[1] + t[2] + t[3]])

    t0 = clock()
    ctx.extra["rule"] = ("line-ups of <= 3 algorithm instances (class, parameter variant or none, mpe-argument variant) x start state "
                         "(empty | all added by one add_algorithms call) x EVERY sequence over {add a, run a, mpe a, run_all, preprocessing, "
                         "save+load} up to the tier's length (plus a malformed alphabet: data None, fs None, unknown names, algorithm without "
                         "parameters), each executed from scratch; non-trivial = at least one algorithm holds a result at the end; "
                         "PoSER: all assignments of type list x run/modes state per algorithm to 0..3(4) setups x name-list lengths; "
                         "instance machine: 3 instances (two under one name, one built without parameters) on SingleSetup and on "
                         "MultiSetup_PreGER x two start states x EVERY sequence up to length 2 (PreGER quick: 1) over {add one / both namesakes, "
                         "set_run_params per instance, run / mpe per name, run_all, rollback, save+load, two preprocessing calls} + sampled "
                         "longer ones + a malformed alphabet (fs None, data None, unknown names)")
    ctx.assumptions += [
        "the result of run() is modelled as the uninterpreted term Run cls params data fs; that the numerical code of a class is a function "
        "of (parameters, data, fs) only is what the correspondence tests (results compared bit for bit with isolated runs)",
        "pickle (save_to_file/load_from_file) is modelled as the identity; equality of what comes back is tested, not proved",
        "data versions after decimate_data(q=2) / detrend_data() are recomputed with scipy.signal directly and compared bit for bit",
        "run() / mpe() are total in the model once their gate passes: parameter sets are calibrated so that isolated runs succeed",
        "instance machine: modes are the uninterpreted term Extract2 result params data dt args (mpe of EFDD / FSDD reads the current "
        "method_SD and dt); a term is evaluated by an isolated replay that sets run_params / data / fs / dt on a freshly run instance",
        "instance machine: after save+load the caller's handle on an instance held by the saved setup is taken to mean the loaded instance "
        "of that name (pickle = identity on the setup); handles on instances outside the setup stay what they were",
        "MultiSetup_PreGER data versions are produced by the class's own decimate_data / detrend_data on a fresh setup (not recomputed with SciPy)",
    ]
    _m_fdd.SelFromPlot = _m_ssi.SelFromPlot = _m_plscf.SelFromPlot = _NoGui
    # ---- records (retry with the next draw if an isolated reference run is not computable on it)
    for attempt in range(10):
        W = World(make_record(ctx.np_rng), make_record(ctx.np_rng))
        okw = all(W.ref(cn, k, v)["usable"] for cn in CLASSES for k in (0, 1) for v in ((), ("dec",), ("det",), ("new",)))
        if okw:
            break
    if not okw:
        raise RuntimeError("no record found on which all isolated reference runs succeed")
    # the same isolated run again, after every other class and parameter set has run in this process, in reverse order:
    # "identical whether the algorithm runs alone, after other algorithms ... or in a different order" across setups
    for cn in reversed(list(CLASSES)):
        for k in (1, 0):
            var = W.ref(cn, k, ())["variants"][0]
            again = W.iso(cn, k, ()).result
            ctx.count(dict(kind="isolated-rerun", cls=cn, params=k))
            out = []
            if dg(again) != var["d1"] and not same(again, var["R1"], var["tol"], out=out):
                ctx.fail("oracle", "an isolated run of %s (parameters %d) on a fresh setup gives a different result after other "
                         "algorithms have run in the process: %s" % (cn, k, "; ".join(out)),
                         dict(kind="isolated-rerun", cls=cn, params=PARAMS[cn][k]), key="C15:iso:order-dependence")
    # mpe fills in the modal fields only: in an isolated run + mpe every field run() set equals the isolated run without mpe
    for (cn, k, v, lay_), r in list(W.refs.items()):
        for j, bad in r.get("mpe_rewrites", []):
            ctx.fail("oracle", "mpe of %s changed what run() had stored in its result: %s (isolated run + mpe against the isolated "
                     "run; only the modal fields may change)" % (cn, "; ".join(bad)),
                     dict(kind="isolated run + mpe", cls=cn, params=PARAMS[cn][k], mpe=MPE[cn][j], version=list(v), layout=lay_),
                     key="C15:mpe:run-field-rewritten")
    check_ms_mpe(ctx)
    # SciPy's preprocessing is layout-blind (assumed by eff_layout): same values, same strides, for every layout of the input
    for lay_ in ("F", "S"):
        for fn in (lambda x: signal.decimate(x, 2, axis=0), lambda x: signal.detrend(x, axis=0)):
            u, v = fn(lay(W.base, "C")[0]), fn(lay(W.base, lay_)[0])
            if not (np.array_equal(u, v) and u.strides == v.strides):
                raise RuntimeError("scipy preprocessing depends on the memory layout of its input: harness assumption broken")
    # every class alone on every memory layout of the record: the array handed over must come back untouched
    single_ok = []
    for lay_ in LAYOUTS:
        for cn in CLASSES:
            for k in (0, 1):
                watch = []
                case = dict(kind="isolated-run", cls=cn, params=PARAMS[cn][k], layout=lay_)
                try:
                    W.iso(cn, k, (), j=None if lay_ == "1" else 0, layout=lay_, watch=watch)
                except Exception:  # noqa: BLE001 - single channel: SSI needs more than one channel
                    if lay_ != "1":
                        raise
                    continue
                ctx.count(case)
                if lay_ == "1":
                    single_ok.append((cn, k))
                if watch:
                    ctx.fail("oracle", "%s of %s on a fresh setup modified the data array handed to SingleSetup (memory layout %s: %s)" % (
                        watch[0], cn, lay_, {"C": "C-ordered", "F": "column-major, raw.T of a (n_ch, N) record", "S": "strided view",
                                              "1": "single channel"}[lay_]), case, key="C15:iso:data-modified")
    nrep = sum(1 for r in W.refs.values() if not r["repro"])
    if nrep:
        ctx.note("%d isolated reference runs are not bit-reproducible: compared at 1e-12 instead of bit for bit" % nrep)
    nproc = ctx.n(6, 14)

    # ---- corpus first
    jobs = []
    for path in sorted(glob.glob(os.path.join(VERIF, "corpus", "C15", "*.json"))):
        for c in json.load(open(path))["cases"]:
            jobs.append(dict(lineup=c["lineup"], start=c.get("start", []), seq=c["seq"], dec_at=c.get("dec_at", 0), layout=c.get("layout", "C")))
    if ctx.replay:
        c = json.load(open(ctx.replay)).get("case", {})
        if "lineup" in c:
            jobs.append(dict(lineup=c["lineup"], start=c.get("start", []), seq=c["seq"], dec_at=c.get("dec_at", 0), layout=c.get("layout", "C")))
    if jobs:
        check_histories(ctx, jobs, 1)

    # ---- persistence by file name: corpus families first, then the fixed ones, then drawn ones
    fams = []
    for path in sorted(glob.glob(os.path.join(VERIF, "corpus", "C15", "*.json"))):
        fams += json.load(open(path)).get("name_families", [])
    fams += NAME_FAMILIES
    for _ in range(ctx.n(6, 60)):
        stem = "".join(rng.choice("abcxyz_0123456789") for _ in range(rng.randint(1, 6)))
        sep = rng.choice([".", ".", ".v", "_", ".0", "-"])
        ext = rng.choice(["", "", ".pkl", ".p", ".pickle"])
        sub = rng.choice(["", "", "d1/", "d.2/", "deep/er/"])
        fams.append(list(dict.fromkeys(sub + stem + sep + str(rng.randrange(1, 30)) + ext for _ in range(3))))
    check_persistence(ctx, [f for f in fams if len(f) >= 2])
    # ---- persistence of every setup class; forms of fs (corpus cases first)
    pcases, fcases = [], []
    for path in sorted(glob.glob(os.path.join(VERIF, "corpus", "C15", "*.json"))):
        doc = json.load(open(path))
        pcases += [(c["setup"], c["classes"], c.get("merged", False)) for c in doc.get("persist_cases", [])]
        fcases += [(c["setup"], c["fs_form"], c["classes"], c["calls"]) for c in doc.get("fs_cases", [])]
    mergeable = ["EFDD", "FSDD", "SSIcov", "SSIdat", "pLSCF"]  # FDD results have no Xi: merge_results cannot merge them
    for merged in (False, True):
        for _ in range(ctx.n(2, 8)):
            pcases.append(("poser", rng.sample(mergeable, rng.randint(1, 2)), merged))
    pcases.append(("poser", ["FDD", rng.choice(mergeable)], False))
    for _ in range(ctx.n(1, 4)):
        pcases.append(("single", rng.sample(FS_CLASSES["single"], 2), False))
        pcases.append(("preger", rng.sample(FS_CLASSES["preger"], 2), False))
    check_persistence_classes(ctx, pcases)
    for kind in ("single", "preger"):
        for form in FS_FORMS:
            for t, template in enumerate(FS_TEMPLATES):
                if ctx.quick() and (t + len(form) + len(kind)) % 2 and t != 0:
                    continue
                fcases.append((kind, form, rng.sample(FS_CLASSES[kind], 2), template))
    check_fs_forms(ctx, fcases)

    # ---- line-ups
    names = list(CLASSES)

    def entry(cn, k=None, none=False):
        return [cn, None if none else (rng.randrange(2) if k is None else k), rng.randrange(2)]

    lineups = []
    if ctx.quick():
        a, b, d, e, f = rng.sample(names, 5)
        ka, kd = rng.randrange(2), rng.randrange(2)
        lineups.append(([entry(a, k=ka), entry(b), entry(a, k=1 - ka)], 3))  # a class twice, different parameters
        lineups.append(([[d, kd, 0], [d, kd, 1]], 3))  # two instances with equal parameters: nothing may be shared
        lineups.append(([entry(e), entry(f)], 3))
    else:
        trip = list(itertools.combinations(names, 3))
        rng.shuffle(trip)
        for n, t in enumerate(trip[:8]):
            t = list(t)
            rng.shuffle(t)
            lineups.append(([entry(x) for x in t], 3))  # length 4 is exhaustive on the two-instance line-ups below
        for x in names:  # every class twice: different parameters / equal parameters
            y = rng.choice([z for z in names if z != x])
            lineups.append(([entry(x, k=0), entry(y), entry(x, k=1)], 3))
            kx = rng.randrange(2)
            lineups.append(([[x, kx, 0], [x, kx, 1]], 4 if CID[x] % 2 else 3))
        pairs = list(itertools.permutations(names, 2))
        rng.shuffle(pairs)
        for (x, y) in pairs[:2]:
            lineups.append(([entry(x), entry(y)], 4))
    jobs = []
    turn = rng.randrange(3)

    def enumerate_lineup(lu, maxlen, layouts, sampled, starts=([], [["addall"]]), mpe=True):
        nonlocal turn
        alpha = alphabet(lu, mpe=mpe)
        ctx.hist("line-up", "/".join("%s%s" % (e[0], "" if e[1] is None else "#%d" % e[1]) for e in lu))
        for start in starts:
            dec_at = rng.randrange(2)
            layout = layouts[turn % len(layouts)]
            turn += 1
            for L in range(1, maxlen + 1):
                for seq in itertools.product(alpha, repeat=L):
                    jobs.append(dict(lineup=lu, start=start, seq=[list(s) for s in seq], dec_at=dec_at, layout=layout))
            # sampled longer histories
            for L in (maxlen + 1, maxlen + 2):
                for _ in range(sampled):
                    jobs.append(dict(lineup=lu, start=start, seq=[list(rng.choice(alpha)) for _ in range(L)], dec_at=dec_at, layout=layout))

    for lu, maxlen in lineups:  # the record's memory layout rotates over C-ordered / column-major / strided view
        enumerate_lineup(lu, maxlen, ("C", "F", "S"), ctx.n(150, 800))
    # ---- every layout with a spectral class (FDD family) next to a mean-sensitive one (SSI on all channels), and the
    # single-channel record with the classes that run on it (no modes there): a working copy that is really a view
    spectral = ["FDD", "EFDD", "FSDD"]
    for lay_ in ("F", "S"):
        for x in (rng.sample(spectral, 1) if ctx.quick() else spectral):
            for y in ([rng.choice(["SSIcov", "SSIdat"])] if ctx.quick() else ["SSIcov", "SSIdat"]):
                lu = [entry(x), [y, 0, rng.randrange(2)]]
                if rng.random() < 0.5:
                    lu.reverse()
                enumerate_lineup(lu, ctx.n(2, 3), (lay_,), ctx.n(120, 300))
    ones = [c for c in single_ok if c[0] in spectral]
    for rep_ in range(ctx.n(1, 3)):
        if ones:
            pick = [list(rng.choice(ones)) + [0] for _ in range(2)] + [list(c) + [0] for c in single_ok if c[0] not in spectral][:1]
            rng.shuffle(pick)
            enumerate_lineup(pick, ctx.n(2, 3), ("1",), ctx.n(100, 300), mpe=False)
    # ---- malformed stream: no data / no fs / unknown names / an algorithm built without run parameters
    mal = []
    x, y = rng.sample(names, 2)
    mal.append([entry(x), entry(y, none=True)])
    if not ctx.quick():
        for x in names:
            y = rng.choice(names)
            mal.append([entry(x), entry(y, none=True)] if rng.random() < 0.5 else [entry(y, none=True), entry(x)])
    for lu in mal:
        alpha = alphabet(lu, malformed=True)
        for start in ([], [["addall"]]):
            for L in range(1, 4):
                for seq in itertools.product(alpha, repeat=L):
                    jobs.append(dict(lineup=lu, start=start, seq=[list(s) for s in seq], dec_at=0))
            for _ in range(ctx.n(100, 800)):
                jobs.append(dict(lineup=lu, start=start, seq=[list(rng.choice(alpha)) for _ in range(rng.randint(4, 5))], dec_at=0))
    # ---- the gate of mpe_from_plot (before a run only: after a run it opens a GUI)
    for cn in names:
        jobs.append(dict(lineup=[entry(cn)], start=[], seq=[["add", 0], ["mpeplot", 0]], dec_at=0))
    ctx.hist("histories", len(jobs))
    T["calibration+corpus"] = [round(float(x), 1) for x in clock() - t0]
    t0 = clock()
    recs = check_histories(ctx, jobs, nproc)
    T["histories"] = [round(float(x), 1) for x in clock() - t0]
    t0 = clock()
    for r in recs[:2]:
        ctx.sample(dict(lineup=r["case"]["lineup"], start=r["case"]["start"], seq=r["case"]["seq"], raised=r["raised"], state=r["state"]))

    # ---- instance machine (M_orch2.v) on SingleSetup and MultiSetup_PreGER: corpus cases first
    W2["single"], W2["preger"] = World2("single"), World2("preger")
    ijobs = []
    for path in sorted(glob.glob(os.path.join(VERIF, "corpus", "C15", "*.json"))):
        ijobs += [dict(kind=c["kind"], lineup=c["lineup"], seq=c["seq"]) for c in json.load(open(path)).get("instance_cases", [])]
    if ctx.replay:
        c = json.load(open(ctx.replay)).get("case", {})
        if str(c.get("kind", "")).startswith("instances/"):
            ijobs.append(dict(kind=c["kind"].split("/")[1], lineup=c["lineup"], seq=c["seq"]))
    if ijobs:
        check_instances(ctx, ijobs, 1)
    ijobs = []
    msn = list(MS_BASE)
    for rep_ in range(ctx.n(1, 4)):
        # two instances of different classes under ONE name + an instance built without run parameters under another name
        x, y = rng.sample(names, 2)
        ijobs += instance_jobs(ctx, "single", [[x, rng.randrange(2), rng.randrange(2), 0], [y, rng.randrange(2), rng.randrange(2), 0],
                                              [x, None, rng.randrange(2), 1]], ctx.n(2, 3) if rep_ == 0 else 2, ctx.n(90, 600))
        x, y = rng.sample(msn, 2)
        ijobs += instance_jobs(ctx, "preger", [[x, rng.randrange(2), rng.randrange(2), 0], [y, rng.randrange(2), rng.randrange(2), 0],
                                              [x, None, rng.randrange(2), 1]], ctx.n(1, 2), ctx.n(90, 600))
        x, y = rng.sample(names, 2)
        ijobs += instance_jobs(ctx, "single", [[x, rng.randrange(2), rng.randrange(2), 0], [y, None, rng.randrange(2), 1],
                                              [y, rng.randrange(2), rng.randrange(2), 1]], ctx.n(1, 2), ctx.n(60, 600), malformed=True)
    check_call_forms(ctx)
    ctx.hist("instance-machine histories", len(ijobs))
    check_instances(ctx, ijobs, nproc)
    T["instance machine"] = [round(float(x), 1) for x in clock() - t0]
    t0 = clock()

    # ---- PoSER
    # (superclass, subclass) pairs first: type EQUALITY is required, a subclass in the same position is a different type
    fam = [("EFDD", "FSDD"), ("SSIdat", "SSIcov"), ("FDD", "EFDD"), ("FDD", "FSDD")]
    others = [("FDD", "pLSCF"), ("SSIcov", "pLSCF"), ("pLSCF", "SSIdat")]

    def pool_order(x, y):
        return [[x, y], [y, x], [x]]

    def pool_sub(sup, sub):
        z = rng.choice([c for c in names if c not in (sup, sub)])
        return [[sup, z], [sub, z], [sub]]

    def pool_len(x, y):
        return [[x, x], [x, y], [y]]

    if ctx.quick():
        f0, f1 = rng.sample(fam, 2)
        pools = [pool_order(*f0), pool_sub(*f1), pool_sub(*f0)[:2] + [[f0[0]]], pool_len(*rng.choice(others))]
    else:
        pools = [pool_order(*f) for f in fam] + [pool_sub(*f) for f in fam] + [pool_len(*o) for o in others]
    explicit = []
    for path in sorted(glob.glob(os.path.join(VERIF, "corpus", "C15", "*.json"))):
        explicit += [(c["setups"], c["names"]) for c in json.load(open(path)).get("poser_cases", [])]
    check_poser_configs(ctx, pools, explicit)
    T["poser configurations"] = [round(float(x), 1) for x in clock() - t0]
    t0 = clock()
    plu = [[[x, 0, 0], [y, 0, 0]] for (x, y) in (fam[:1] if ctx.quick() else fam[:3])]
    plu += [[l[1], l[0]] for l in plu[:1]] + [[l[1], l[1]] for l in plu[:1]]  # reversed order; subclass in the superclass's place
    check_poser_histories(ctx, plu)
    T["poser on histories"] = [round(float(x), 1) for x in clock() - t0]
    if os.environ.get("C15_KEYS_OUT"):  # development aid: histogram of failure keys (used when testing mutants)
        import collections
        json.dump(collections.Counter("%s %s" % (f["kind"], f["key"]) for f in ctx.failures), open(os.environ["C15_KEYS_OUT"], "w"), indent=1)
