"""C03 - PreGER multi-setup SSI identifies the global system exactly on noise-free data; the reference/roving split
keeps every channel intact and ordered.
Models: coq/Model/M_split.v, coq/Model/M_multi_ssi.v; theorems: coq/Properties/C03.v."""
import glob
import itertools
import json
import os
from fractions import Fraction

import numpy as np
from scipy import signal

from common import VERIF, clist, parse_mat, qc_mat
from pyoma2.algorithms import SSIcov_MS, SSIdat_MS
from pyoma2.algorithms.data.run_params import SSIRunParams
from pyoma2.functions import gen, ssi
from pyoma2.setup import MultiSetup_PreGER

HEADER = "From PyOMA.Model Require Import M_split M_multi_ssi."
TOL = 1e-8  # computed quantities, relative to the scale of the expected array
TOL_E2E = 1e-6
WBITS = 40  # witness bases are passed to Coq as 40-bit fixed-point integers (perturbation 1e-12 of the column space)


# ----------------------------------------------------------------------------------------------------------------
# the property text, written independently of the implementation and of the model
# ----------------------------------------------------------------------------------------------------------------
def oracle_split(y, refs):
    """references in the listed order, the other channels in ascending order, every record unchanged (channels x samples)."""
    n = y.shape[1]
    ref = np.stack([y[:, r].copy() for r in refs]) if len(refs) else np.zeros((0, y.shape[0]))
    rov = [c for c in range(n) if c not in set(refs)]
    mov = np.stack([y[:, c].copy() for c in rov]) if rov else np.zeros((0, y.shape[0]))
    return ref, mov


def valid_refs(n, refs):
    return (len(refs) > 0 and len(set(refs)) == len(refs) and all(isinstance(r, (int, np.integer)) and 0 <= r < n for r in refs)
            and len(refs) < n)


def same_array(a, b):
    a = np.asarray(a)
    b = np.asarray(b)
    return a.shape == b.shape and bool(np.all(a == b))


def mac(a, b):
    return abs(np.vdot(a, b)) ** 2 / (np.vdot(a, a).real * np.vdot(b, b).real)


# ----------------------------------------------------------------------------------------------------------------
# generic input forms: read-only arrays, NumPy-scalar option values, storage dtypes
# (established on the unchanged tree: every form below is accepted by every entry point it is used with; NOT accepted and
#  therefore not used: a NumPy integer as the int `order` of mpe - SSI_mpe tests isinstance(order, int))
# ----------------------------------------------------------------------------------------------------------------
INT_FORMS = ("int", "np.int64", "np.int32", "arange-element", "0-d array")
FLOAT_FORMS = ("float", "np.float64", "0-d array", "np.float32")
BOOL_FORMS = ("bool", "int", "np.bool_")


def int_form(v, i):
    f = INT_FORMS[i % len(INT_FORMS)]
    v = int(v)
    return {"int": v, "np.int64": np.int64(v), "np.int32": np.int32(v), "arange-element": np.arange(v + 1)[v], "0-d array": np.array(v)}[f]


def float_form(v, i):
    f = FLOAT_FORMS[i % len(FLOAT_FORMS)]
    v = float(v)
    if f == "np.float32" and float(np.float32(v)) != v:  # only the same value in another form
        f = "np.float64"
    return {"float": v, "np.float64": np.float64(v), "0-d array": np.array(v), "np.float32": np.float32(v)}[f]


def fs_form(v, i):
    """the sampling frequency of a setup object: Python float / np.float64 / np.float32 (a 0-d array is refused by scipy.signal.butter
    inside filter_data, also on the unchanged tree, so it is not an accepted form there)"""
    return float_form(v, i + 1 if i % 4 == 2 else i)


def bool_form(v, i):
    f = BOOL_FORMS[i % len(BOOL_FORMS)]
    return {"bool": bool(v), "int": int(bool(v)), "np.bool_": np.bool_(v)}[f]


def readonly(a):
    """the harness' own copy, presented read-only (as np.load(mmap_mode='r') / np.broadcast_to would)"""
    a = np.array(a, copy=True)
    a.setflags(write=False)
    return a


INT_DTYPES = ("int32", "int64", "uint16", "int16", "uint8")


# ----------------------------------------------------------------------------------------------------------------
# (i) the split
# ----------------------------------------------------------------------------------------------------------------
def coq_nat_list(xs):
    return clist(["%d%%nat" % x for x in xs])


def zmat(M):
    return clist([clist(["(%d)%%Z" % int(x) for x in r]) for r in M])


def coq_z_list(xs):
    return clist(["(%d)%%Z" % x for x in xs])


def coq_dataset(y):
    return "(%d%%nat, %s)" % (y.shape[1], qc_mat(y.tolist()) if y.shape[0] else "[]")


def split_expr(datasets, reflists):
    return "showSplit (pre_multisetup QcOps %s %s)" % (clist([coq_dataset(y) for y in datasets]), clist([coq_z_list(r) for r in reflists]))


def parse_split(s):
    """-> ('ok', [(ref, mov)]) | ('ValueError',) | ('IndexError',)"""
    if not s.startswith("Ok#") and s != "Ok#":
        return (s,)
    body = s[3:]
    out = []
    if body:
        for part in body.split("#"):
            a, b = part.split("|")
            out.append((np.array([[float(x) for x in r] for r in parse_mat(a)]), np.array([[float(x) for x in r] for r in parse_mat(b)])))
    return ("ok", out)


REF_FORMS = ("lists", "arrays", "tuples", "ndarray2d", "int32", "np.int64-elements")


def as_form(reflists, form):
    """the reference index lists in one of the container forms the implementation accepts (None: form not applicable)."""
    rl = [[int(x) for x in r] for r in reflists]
    if form == "lists":
        return rl
    if form == "arrays":
        return [np.array(r, dtype=np.int64) for r in rl]
    if form == "tuples":
        return tuple(tuple(r) for r in rl)
    if form == "int32":
        return [np.array(r, dtype=np.int32) for r in rl]
    if form == "np.int64-elements":  # Python lists whose elements are NumPy integers (elements of np.arange)
        return [[np.arange(x + 1)[x] for x in r] for r in rl]
    if form == "ndarray2d":
        if not rl or len(set(len(r) for r in rl)) != 1 or len(rl[0]) == 0:
            return None
        return np.array(rl, dtype=np.int64)
    raise ValueError(form)


def refs_intact(given, reflists):
    try:
        return len(given) == len(reflists) and all([int(x) for x in g] == [int(x) for x in r] for g, r in zip(given, reflists))
    except Exception:  # noqa: BLE001
        return False


def run_impl_split(datasets, reflists, form="lists", ro=False):
    """-> (result, arguments intact after the call).  ro: every array argument is presented read-only."""
    given_d, given_r = [readonly(d) if ro else d.copy() for d in datasets], as_form(reflists, form)
    if ro:
        if isinstance(given_r, np.ndarray):
            given_r.setflags(write=False)
        else:
            for g in given_r:
                if isinstance(g, np.ndarray):
                    g.setflags(write=False)
    try:
        Y = gen.pre_multisetup(given_d, given_r)
        out = ("ok", [(np.array(s["ref"]), np.array(s["mov"])) for s in Y])
    except Exception as e:  # noqa: BLE001 - the kind is part of what is compared
        out = (type(e).__name__,)
    intact = (len(given_d) == len(datasets) and all(same_array(a, b) for a, b in zip(given_d, datasets)) and refs_intact(given_r, reflists))
    return out, intact


def check_split_case(ctx, case, datasets, reflists, impl, model):
    """impl/model: results as above.  Oracle = property text on valid inputs."""
    allvalid = len(reflists) >= len(datasets) and all(valid_refs(d.shape[1], r) for d, r in zip(datasets, reflists))
    if allvalid:
        if impl[0] != "ok":
            ctx.fail("oracle", "pre_multisetup raises %s on a valid reference list" % impl[0], case, key="C03:pre_multisetup:raises")
            return
        if len(impl[1]) != len(datasets):
            ctx.fail("oracle", "pre_multisetup returns %d setups for %d datasets" % (len(impl[1]), len(datasets)), case, key="C03:pre_multisetup:nsetup")
            return
        for k, (d, r) in enumerate(zip(datasets, reflists)):
            ref, mov = oracle_split(d, r)
            if not same_array(impl[1][k][0], ref):
                ctx.fail("oracle", "pre_multisetup: 'ref' of setup %d is not the listed reference channels, in the listed order, unchanged" % k,
                         case, key="C03:pre_multisetup:ref")
                return
            if not same_array(impl[1][k][1], mov):
                ctx.fail("oracle", "pre_multisetup: 'mov' of setup %d is not the remaining channels in ascending order, unchanged" % k,
                         case, key="C03:pre_multisetup:mov")
                return
    # correspondence with the model
    if model[0] == "ok":
        ok = impl[0] == "ok" and len(impl[1]) == len(model[1]) and all(
            same_array(a[0], b[0]) and same_array(a[1], b[1]) for a, b in zip(impl[1], model[1]))
        if not ok:
            ctx.fail("correspondence", "pre_multisetup differs from the model (model: a split; implementation: %s)" % impl[0], case,
                     key="C03:pre_multisetup:corr")
    else:
        if allvalid:
            ctx.fail("correspondence", "model says %s on a valid input" % model[0], case, key="C03:pre_multisetup:model-err")
        elif impl[0] == "ok":
            # invalid reference list (outside the property's quantifier): the model raises, the implementation returns a value
            ctx.note("pre_multisetup returns a value on an invalid reference list where the model raises %s (not constrained by the property)" % model[0])
            ctx.hist("malformed_disagreement", "returns-value")
        elif impl[0] != model[0]:
            ctx.note("pre_multisetup raises %s where the model says %s on an invalid reference list (exception kind not constrained by the property)"
                     % (impl[0], model[0]))
            ctx.hist("malformed_disagreement", "%s-vs-%s" % (impl[0], model[0]))


# ----------------------------------------------------------------------------------------------------------------
# positional call forms.  The parameter ORDER below is the one of the signatures the property was written against and is
# hard-coded here (never read from the tree under test):
#   gen.pre_multisetup(dataList, reflist)
#   gen.filter_data(data, fs, Wn, order=4, btype="lowpass")
#   ssi.SSI_multi_setup(Y, fs, br, ordmax, method_hank, step=1)
#   ssi.SSI_mpe(freq_ref, Fn_pol, Xi_pol, Phi_pol, order, Lab=None, rtol=5e-2, Fn_cov=None, Xi_cov=None, Phi_cov=None)
#   MultiSetup_PreGER(fs, ref_ind, datasets);  .decimate_data(q, **kw);  .filter_data(Wn, order=8, btype="lowpass")
#   MultiSetup_PreGER.mpe(name, sel_freq, order="find_min", rtol=5e-2)  (= SSIdat_MS.mpe(sel_freq, order, rtol) after the name)
#   SSIdat_MS / SSIcov_MS(run_params=None, name=None)
# Every call is made fully positionally with a non-default value in every position and must give (a) what the keyword call gives
# and (b) what the property says.
# ----------------------------------------------------------------------------------------------------------------
def outcome(f):
    try:
        return ("ok", f())
    except Exception as e:  # noqa: BLE001
        return (type(e).__name__, None)


def same_value(a, b):
    """bit-equality of two results (None / scalars / arrays / sequences of those; NaN equals NaN)"""
    if a is None or b is None:
        return a is None and b is None
    if isinstance(a, (list, tuple)) and isinstance(b, (list, tuple)):
        return len(a) == len(b) and all(same_value(x, y) for x, y in zip(a, b))
    a, b = np.asarray(a), np.asarray(b)
    if a.shape != b.shape:
        return False
    if a.dtype.kind in "fc" and b.dtype.kind in "fc":
        return bool(np.array_equal(a, b, equal_nan=True))
    return bool(np.all(a == b))


def positional_split(ctx, case, ds, rl, impl):
    """pre_multisetup is driven positionally above (impl, judged by the oracle there); the keyword call gives the same split"""
    ctx.hist("positional_call", "gen.pre_multisetup")
    kw = outcome(lambda: [(np.array(s["ref"]), np.array(s["mov"])) for s in
                          gen.pre_multisetup(dataList=[d.copy() for d in ds], reflist=[list(r) for r in rl])])
    if kw[0] != impl[0] or (kw[0] == "ok" and not same_value([list(t) for t in kw[1]], [list(t) for t in impl[1]])):
        ctx.fail("oracle", "pre_multisetup(datasets, reference lists) called positionally (%s) differs from pre_multisetup(dataList=, reflist=) (%s)"
                 % (impl[0], kw[0]), dict(case, call="positional"), key="C03:pre_multisetup:positional-call")


def positional_ssi(ctx, case, Y, spec, method, Phi, tol, Al1):
    """SSI_multi_setup(Y, fs, br, ordmax, method_hank, step) with step = 2: orders 0, 2, ..., 2m; the last one is the global system;
    the list is every second entry of the step-1 list Al1 of the same records."""
    m, nref, nmovs, br, fs = spec["m"], spec["nref"], spec["nmovs"], spec["br"], spec["fs"]
    n, nD = 2 * m, nref + sum(nmovs)
    case = dict(case, call="positional", step=2)
    ctx.hist("positional_call", "ssi.SSI_multi_setup")
    ctx.count(dict(case, part="positional-ssi"))
    pos = outcome(lambda: ssi.SSI_multi_setup(Y, float(fs), int(br), n, method, 2))
    kw = outcome(lambda: ssi.SSI_multi_setup(Y=Y, fs=float(fs), br=int(br), ordmax=n, method_hank=method, step=2))
    if pos[0] != "ok" or kw[0] != "ok":
        ctx.fail("oracle", "SSI_multi_setup(Y, fs, br, 2m, %r, 2): positional call -> %s, keyword call -> %s" % (method, pos[0], kw[0]), case,
                 key="C03:SSI_multi_setup:positional-call")
        return
    (Op, Ap, Cp), (Ok, Ak, Ck) = pos[1], kw[1]
    if not (same_value(Op, Ok) and same_value(list(Ap), list(Ak)) and same_value(list(Cp), list(Ck))):
        ctx.fail("oracle", "SSI_multi_setup(Y, fs, br, 2m, %r, 2) called positionally differs from the same call by keywords "
                 "(Y=, fs=, br=, ordmax=, method_hank=, step=)" % method, case, key="C03:SSI_multi_setup:positional-call")
        return
    shapes_ok = len(Ap) == m + 1 and len(Cp) == m + 1 and all(np.shape(Ap[k]) == (2 * k, 2 * k) and np.shape(Cp[k]) == (nD, 2 * k) for k in range(m + 1))
    if not shapes_ok or np.shape(Op) != (br * nD, n):
        ctx.fail("oracle", "SSI_multi_setup(Y, fs, br=%d, ordmax=%d, %r, step=2) called positionally: %d system matrices of sizes %s, Obs_all %s "
                 "(expected the orders 0, 2, ..., %d and Obs_all %s)" % (br, n, method, len(Ap), [np.shape(a)[0] for a in Ap], np.shape(Op), n, (br * nD, n)),
                 case, key="C03:SSI_multi_setup:positional-call")
        return
    if len(Al1) == n + 1 and any(np.abs(np.asarray(Ap[k]) - np.asarray(Al1[2 * k])).max(initial=0.0) > 1e-9 * max(1.0, np.abs(np.asarray(Al1[2 * k])).max(initial=0.0))
                                  for k in range(m + 1)):
        ctx.fail("oracle", "SSI_multi_setup(..., step=2) called positionally: the system matrices are not those of the orders 0, 2, ..., 2m of the "
                 "step-1 identification of the same records", case, key="C03:SSI_multi_setup:positional-call")
        return
    if tol <= TOL_CAP:
        bad = modal_oracle(np.asarray(Ap[-1]), np.asarray(Cp[-1]), spec, Phi, tol)
        if bad:
            ctx.fail("oracle", "SSI_multi_setup(Y, fs, br, 2m, %r, 2) called positionally does not return the global system: %s" % (method, bad), case,
                     key="C03:SSI_multi_setup:positional-call")


def positional_class(ctx):
    """MultiSetup_PreGER(fs, ref_ind, datasets), .decimate_data(q), .filter_data(Wn, order, btype), gen.filter_data(data, fs, Wn, order, btype):
    a keyword-driven object and a positionally driven one go through the same steps; they must hold the same records bit for bit,
    and the records must be the reference/roving split of the processed datasets."""
    rng = ctx.np_rng
    seqs = [[("decimate", 2), ("filter", [3.0, 3, "highpass"]), ("filter", [[2.0, 6.0], 2, "bandstop"])],
            [("filter", [[3.0, 9.0], 3, "bandpass"]), ("decimate", 2), ("filter", [2.5, 5, "highpass"])],
            [("filter", [5.0, 3, "highpass"]), ("decimate", 4)]]
    for j, ops in enumerate(seqs):
        fs, ndat = 64.0, 256
        ns, nref = 2 + j % 2, 1 + j % 2
        ds, rl = [], []
        for s in range(ns):
            n = nref + int(rng.integers(1, 4))
            t = np.arange(ndat) / fs
            base = np.stack([np.sin(2 * np.pi * (2.0 + c + s) * t + c) * (1 + c) + 0.05 * c * t + 0.3 * c for c in range(n)], axis=1)
            ds.append(base + rng.integers(-64, 65, size=(ndat, n)) / 256.0)
            rl.append([int(x) for x in rng.permutation(n)[:nref]])
        case = dict(kind="class-data", call="positional", datasets=[d.tolist() for d in ds], refs=rl, ops=[list(o) for o in ops], fs=fs)
        ctx.count(dict(case, datasets=None, digest=[float(d.sum()) for d in ds]))
        ctx.hist("positional_call", "MultiSetup_PreGER(...) + preprocessing")
        built = outcome(lambda: (MultiSetup_PreGER(fs=fs, ref_ind=[list(r) for r in rl], datasets=[d.copy() for d in ds]),
                                 MultiSetup_PreGER(fs, [list(r) for r in rl], [d.copy() for d in ds])))
        if built[0] != "ok":
            ctx.fail("oracle", "MultiSetup_PreGER(fs, ref_ind, datasets) raises %s on valid input" % built[0], case, key="C03:PreGER.data:positional-call")
            continue
        mk, mp = built[1]
        cur, curfs = [d.copy() for d in ds], fs
        for (o, arg) in [("init", None)] + ops:
            a = arg
            if o == "decimate":
                res = outcome(lambda: (mk.decimate_data(q=arg), mp.decimate_data(arg)))
            elif o == "filter":
                wn = tuple(arg[0]) if isinstance(arg[0], list) else arg[0]
                res = outcome(lambda: (mk.filter_data(Wn=wn, order=arg[1], btype=arg[2]), mp.filter_data(wn, arg[1], arg[2])))
                a = [wn, arg[1], arg[2]]
            else:
                res = ("ok", None)
            if res[0] != "ok":
                ctx.fail("oracle", "MultiSetup_PreGER.%s_data raises %s (keyword call, then the same call positionally)" % (o, res[0]), case,
                         key="C03:PreGER.data:positional-call")
                break
            if o != "init":
                nxt = [expected_op(o, a, d, curfs) for d in cur]
                cur, curfs = [x for x, _ in nxt], nxt[0][1]
            same = (same_value(float(mk.fs), float(mp.fs)) and len(mk.datasets) == len(mp.datasets) == len(mk.data) == len(mp.data) == len(ds)
                    and all(same_value(x, y) for x, y in zip(mk.datasets, mp.datasets))
                    and all(same_value(x["ref"], y["ref"]) and same_value(x["mov"], y["mov"]) for x, y in zip(mk.data, mp.data)))
            if not same:
                ctx.fail("oracle", "after %s%s the positionally driven MultiSetup_PreGER does not hold the records of the keyword-driven one"
                         % (o, "" if arg is None else " %s" % (a,)), case, key="C03:PreGER.data:positional-call")
                break
            bad = abs(float(mp.fs) - curfs) > 1e-12 * curfs
            for k2, (d, r) in enumerate(zip(cur, rl)):
                ref, mov = oracle_split(d, r)
                got_r, got_m = np.asarray(mp.data[k2]["ref"]), np.asarray(mp.data[k2]["mov"])
                sc = max(1.0, np.abs(d).max())
                bad = bad or got_r.shape != ref.shape or got_m.shape != mov.shape or not np.allclose(got_r, ref, rtol=0, atol=1e-9 * sc) \
                    or not np.allclose(got_m, mov, rtol=0, atol=1e-9 * sc)
            if bad:
                ctx.fail("oracle", "MultiSetup_PreGER driven positionally: .data / .fs after %s%s is not the reference/roving split of the processed records "
                         "at the processed sampling frequency" % (o, "" if arg is None else " %s" % (a,)), case, key="C03:PreGER.data:positional-call")
                break
        # the plain function behind filter_data
        ctx.hist("positional_call", "gen.filter_data")
        d0 = ds[0]
        wn, od, bt = ((2.0, 7.0), 3, "bandpass") if j % 2 else (4.5, 3, "highpass")
        fp = outcome(lambda: gen.filter_data(d0.copy(), fs, wn, od, bt))
        fk = outcome(lambda: gen.filter_data(data=d0.copy(), fs=fs, Wn=wn, order=od, btype=bt))
        exp = expected_op("filter", [wn, od, bt], d0, fs)[0]
        if fp[0] != "ok" or fk[0] != "ok" or not same_value(fp[1], fk[1]) or np.shape(fp[1]) != exp.shape \
                or not np.allclose(fp[1], exp, rtol=0, atol=1e-9 * max(1.0, np.abs(d0).max())):
            ctx.fail("oracle", "gen.filter_data(data, fs, %s, %d, %r) called positionally (%s) differs from the keyword call (%s) or from the "
                     "zero-phase Butterworth filter of that order and type" % (wn, od, bt, fp[0], fk[0]), dict(case, filter=[list(np.atleast_1d(wn)), od, bt]),
                     key="C03:filter_data:positional-call")


def gen_values(rng, shape, k):
    if k % 2 == 0:
        return rng.integers(-4096, 4097, size=shape) / 64.0
    return rng.standard_normal(shape)  # full 53-bit mantissas: moved values must survive bit for bit


def part_split(ctx, corpus):
    rng = ctx.np_rng
    cases = []  # (case-dict, datasets, reflists)
    for c in corpus:
        if c.get("kind") == "split":
            ds = [np.array(d, dtype=float) for d in c["datasets"]]
            cases.append((dict(c), ds, [list(r) for r in c["refs"]]))
            ctx.hist("split_stream", "corpus")
    nmax = ctx.n(5, 6)
    k = 0
    for n in range(1, nmax + 1):
        for size in range(0, n + 1):
            for refs in itertools.permutations(range(n), size):
                k += 1
                ndat = 2 + k % 3
                y = gen_values(rng, (ndat, n), k)
                cases.append((dict(kind="split", stream="exhaustive", datasets=[y.tolist()], refs=[list(refs)]), [y], [list(refs)]))
                ctx.hist("split_stream", "exhaustive n=%d" % n)
                ctx.hist("split_nref", size)
    # malformed stream: repeated, out-of-range, negative indices; too few reference lists
    for j in range(ctx.n(60, 300)):
        n = int(rng.integers(1, 6))
        size = int(rng.integers(1, n + 2))
        refs = [int(x) for x in rng.integers(-2, n + 2, size=size)]
        y = gen_values(rng, (3, n), j)
        cases.append((dict(kind="split", stream="malformed", datasets=[y.tolist()], refs=[refs]), [y], [refs]))
        ctx.hist("split_stream", "malformed" if not valid_refs(n, refs) else "random-valid")
    for j in range(ctx.n(6, 20)):
        n = int(rng.integers(2, 5))
        y = gen_values(rng, (2, n), j)
        cases.append((dict(kind="split", stream="short-reflist", datasets=[y.tolist(), y.tolist()], refs=[[0]]), [y, y], [[0]]))
        ctx.hist("split_stream", "short-reflist")
    # several setups in one call: different channel and sample counts, setup order must be kept
    for j in range(ctx.n(40, 200)):
        ns = int(rng.integers(2, 5))
        ds, rl = [], []
        for s in range(ns):
            n = int(rng.integers(2, 7))
            nref = int(rng.integers(1, n))
            ds.append(gen_values(rng, (int(rng.integers(1, 5)), n), j + s))
            rl.append([int(x) for x in rng.permutation(n)[:nref]])
        if j % 5 == 0:
            rl.append([0])  # more reference lists than datasets: ignored
        cases.append((dict(kind="split", stream="multi", datasets=[d.tolist() for d in ds], refs=rl), ds, rl))
        ctx.hist("split_stream", "multi")
    exprs = [split_expr(ds, rl) for _, ds, rl in cases]
    res = ctx.coq_eval(HEADER, exprs, shard=40)
    for ci, ((case, ds, rl), s) in enumerate(zip(cases, res)):
        ro0 = ci % 2 == 1 or bool(case.get("readonly"))
        if ro0:
            case = dict(case, readonly=True)
        ctx.hist("split_readonly", ro0)
        impl, intact = run_impl_split(ds, rl, ro=ro0)
        if not intact:
            ctx.fail("oracle", "pre_multisetup changes the datasets / reference lists it is given", case, key="C03:pre_multisetup:mutates-input")
        model = parse_split(s)
        nontrivial = all(d.shape[1] >= 2 for d in ds) and model[0] == "ok"
        ctx.count(case, nontrivial=nontrivial)
        ctx.hist("split_result", model[0])
        check_split_case(ctx, case, ds, rl, impl, model)
        if ci % 5 == 0 and len(rl) >= len(ds) and all(valid_refs(d.shape[1], r) for d, r in zip(ds, rl)):
            positional_split(ctx, case, ds, rl, impl)
        # the same reference lists in every other accepted container form: the same split
        if len(rl) >= len(ds) and all(valid_refs(d.shape[1], r) for d, r in zip(ds, rl)):
            for fi, form in enumerate(REF_FORMS[1:]):
                if as_form(rl, form) is None:
                    continue
                ro_f = (ci + fi) % 2 == 0
                case_f = dict(case, ref_form=form, readonly=ro_f)
                impl_f, intact_f = run_impl_split(ds, rl, form, ro=ro_f)
                ctx.count(case_f, nontrivial=nontrivial)
                ctx.hist("split_ref_form", form)
                if not intact_f:
                    ctx.fail("oracle", "pre_multisetup changes the datasets / reference lists it is given (reference lists as %s)" % form, case_f,
                             key="C03:pre_multisetup:mutates-input")
                check_split_case(ctx, case_f, ds, rl, impl_f, model)
            # storage dtypes the property does not restrict: the records as integer counts / float32 - the same samples moved
            dts = ([case["dtype"]] if case.get("dtype") else []) + [INT_DTYPES[ci % len(INT_DTYPES)], "float32"][:1 + ci % 2]
            for dt in dts:
                if dt == "float32":
                    dsn = [d.astype(np.float32) for d in ds]
                else:
                    dsn = [(np.floor(np.abs(d) * 8 + np.arange(d.shape[1])[None, :] * 7 + np.arange(d.shape[0])[:, None]) % 250).astype(dt) for d in ds]
                case_d = dict(case, dtype=dt, readonly=ci % 3 == 0, datasets=[d.tolist() for d in dsn])
                impl_d, intact_d = run_impl_split(dsn, rl, REF_FORMS[ci % 3], ro=ci % 3 == 0)
                ctx.count(case_d, nontrivial=nontrivial)
                ctx.hist("split_dtype", dt)
                if not intact_d:
                    ctx.fail("oracle", "pre_multisetup changes the %s datasets it is given" % dt, case_d, key="C03:pre_multisetup:mutates-input")
                if impl_d[0] != "ok":
                    ctx.fail("oracle", "pre_multisetup raises %s on %s records" % (impl_d[0], dt), case_d, key="C03:pre_multisetup:dtype-raises")
                    continue
                for k2, (d, r) in enumerate(zip(dsn, rl)):
                    ref, mov = oracle_split(d.astype(np.float64), r)
                    if not (same_array(np.asarray(impl_d[1][k2][0], dtype=np.float64), ref) and same_array(np.asarray(impl_d[1][k2][1], dtype=np.float64), mov)):
                        ctx.fail("oracle", "pre_multisetup on %s records: setup %d is not the listed references / ascending roving channels, samples unchanged" % (dt, k2),
                                 case_d, key="C03:pre_multisetup:dtype")
                        break
    ctx.sample(dict(kind="split", datasets=cases[-1][0]["datasets"], refs=cases[-1][0]["refs"]))


# ----------------------------------------------------------------------------------------------------------------
# (i') MultiSetup_PreGER.data after construction and after every preprocessing method
# ----------------------------------------------------------------------------------------------------------------
def expected_op(op, arg, data, fs):
    if op == "decimate":
        return signal.decimate(data, arg, axis=0), fs / arg
    if op == "detrend":
        return signal.detrend(data, axis=0, type=arg), fs
    if op == "filter":
        sos = signal.butter(arg[1], arg[0], btype=arg[2], output="sos", fs=fs)
        return signal.sosfiltfilt(sos, data, axis=0), fs
    raise ValueError(op)


def part_class_data(ctx):
    rng = ctx.np_rng
    exprs, meta = [], []
    for j in range(ctx.n(12, 60)):
        ns = int(rng.integers(2, 4))
        nref = int(rng.integers(1, 3))
        fs = 64.0
        ndat = 256  # three decimations by 2 still leave more samples than the padding of scipy.signal.filtfilt (27)
        ds, rl = [], []
        for s in range(ns):
            n = nref + int(rng.integers(1, 4))
            t = np.arange(ndat) / fs
            base = np.stack([np.sin(2 * np.pi * (2.0 + c + s) * t + c) * (1 + c) + 0.05 * c * t + 0.3 * c for c in range(n)], axis=1)
            ds.append(base + rng.integers(-64, 65, size=(ndat, n)) / 256.0)
            rl.append([int(x) for x in rng.permutation(n)[:nref]])
        ops = []
        for _ in range(int(rng.integers(1, 4))):
            o = ["decimate", "detrend", "filter", "rollback"][int(rng.integers(0, 4))]
            arg = {"decimate": 2, "detrend": ["linear", "constant"][int(rng.integers(0, 2))],
                   "filter": [[4.0, 4, "lowpass"], [3.0, 4, "highpass"]][int(rng.integers(0, 2))], "rollback": None}[o]
            ops.append([o, arg])
        if j < 4:
            ops = [[["decimate", 2]], [["detrend", "linear"]], [["filter", [4.0, 4, "lowpass"]]], [["detrend", "constant"], ["rollback", None]]][j]
        case = dict(kind="class-data", datasets=[d.tolist() for d in ds], refs=rl, ops=ops, fs=fs)
        ctx.count(dict(case, datasets=None, digest=[float(d.sum()) for d in ds]))
        ctx.hist("class_ops", "+".join(o for o, _ in ops))
        orig = [d.copy() for d in ds]
        try:
            forms = [f for f in REF_FORMS if as_form(rl, f) is not None]
            form = forms[j % len(forms)]
            case["ref_form"] = form
            ctx.hist("class_ref_form", form)
            ro = j % 2 == 1
            case["readonly"], case["option_forms"] = ro, dict(fs=type(fs_form(fs, j)).__name__, ints=INT_FORMS[(j + 1) % 5], floats=FLOAT_FORMS[(j + 2) % 4])
            ms = MultiSetup_PreGER(fs=fs_form(fs, j), ref_ind=as_form(rl, form), datasets=[readonly(d) if ro else d.copy() for d in ds])
        except Exception as e:  # noqa: BLE001
            ctx.fail("oracle", "MultiSetup_PreGER construction raises %s on valid input" % type(e).__name__, case, key="C03:PreGER.data:init")
            continue
        cur, curfs = [d.copy() for d in orig], fs
        steps = [("init", None)] + [tuple(o) for o in ops]
        bad = False
        for (o, arg) in steps:
            try:
                if o == "decimate":
                    ms.decimate_data(q=int_form(arg, j + 1))
                elif o == "detrend":
                    ms.detrend_data(type=arg)
                elif o == "filter":
                    ms.filter_data(Wn=float_form(arg[0], j + 2), order=int_form(arg[1], j + 1), btype=arg[2])
                elif o == "rollback":
                    ms.rollback()
            except Exception as e:  # noqa: BLE001
                ctx.fail("oracle", "MultiSetup_PreGER.%s raises %s" % (o, type(e).__name__), case, key="C03:PreGER.data:%s" % o)
                bad = True
                break
            if o == "rollback":
                cur, curfs = [d.copy() for d in orig], fs
            elif o != "init":
                nxt = [expected_op(o, arg, d, curfs) for d in cur]
                cur, curfs = [a for a, _ in nxt], nxt[0][1]
            # the split of the PROCESSED datasets: every channel intact, references listed order, roving ascending
            if len(ms.data) != len(cur):
                ctx.fail("oracle", "MultiSetup_PreGER.data has %d setups after %s" % (len(ms.data), o), case, key="C03:PreGER.data:%s" % o)
                bad = True
                break
            for k2, (d, r) in enumerate(zip(cur, rl)):
                ref, mov = oracle_split(d, r)
                got_r, got_m = np.asarray(ms.data[k2]["ref"]), np.asarray(ms.data[k2]["mov"])
                sc = max(1.0, np.abs(d).max())
                if got_r.shape != ref.shape or got_m.shape != mov.shape or not np.allclose(got_r, ref, rtol=0, atol=1e-9 * sc) \
                        or not np.allclose(got_m, mov, rtol=0, atol=1e-9 * sc):
                    ctx.fail("oracle", "MultiSetup_PreGER.data after %s is not the reference/roving split of the processed records (setup %d)" % (o, k2),
                             case, key="C03:PreGER.data:%s" % o)
                    bad = True
                    break
                # and it is exactly the split of what the object itself holds as datasets (moved values: bit for bit)
                ref2, mov2 = oracle_split(np.asarray(ms.datasets[k2]), r)
                if not same_array(got_r, ref2) or not same_array(got_m, mov2):
                    ctx.fail("oracle", "MultiSetup_PreGER.data after %s is not the split of MultiSetup_PreGER.datasets (setup %d)" % (o, k2),
                             case, key="C03:PreGER.data:%s-stale" % o)
                    bad = True
                    break
            if bad:
                break
        if bad:
            continue
        # final state against the model (exact), on the first 12 samples of every processed dataset
        if j < ctx.n(6, 20):
            small = [np.asarray(d)[:12, :] for d in ms.datasets]
            exprs.append(split_expr(small, rl))
            meta.append((case, [(np.asarray(s["ref"])[:, :12], np.asarray(s["mov"])[:, :12]) for s in ms.data]))
    res = ctx.coq_eval(HEADER, exprs, shard=2)
    for (case, got), s in zip(meta, res):
        model = parse_split(s)
        ok = model[0] == "ok" and len(model[1]) == len(got) and all(same_array(a[0], b[0]) and same_array(a[1], b[1]) for a, b in zip(got, model[1]))
        if not ok:
            ctx.fail("correspondence", "MultiSetup_PreGER.data differs from the model's split of the processed datasets", case, key="C03:PreGER.data:corr")


# ----------------------------------------------------------------------------------------------------------------
# (ii)/(iii) noise-free records of one global system
# ----------------------------------------------------------------------------------------------------------------
def system_matrices(spec):
    m, fs = spec["m"], spec["fs"]
    A = np.zeros((2 * m, 2 * m))
    for i in range(m):
        w = 2 * np.pi * spec["fn"][i]
        a, b = -spec["xi"][i] * w, w * np.sqrt(1 - spec["xi"][i] ** 2)
        rho, th = np.exp(a / fs), b / fs
        A[2 * i:2 * i + 2, 2 * i:2 * i + 2] = rho * np.array([[np.cos(th), np.sin(th)], [-np.sin(th), np.cos(th)]])
    Cre, Cim = np.array(spec["Cre"], float), np.array(spec["Cim"], float)
    C = np.zeros((Cre.shape[0], 2 * m))
    C[:, 0::2], C[:, 1::2] = Cre, Cim
    return A, C, Cre + 1j * Cim  # global shapes (eigenvector (1, i) of each rotation block)


def build_case(spec, method=None):
    """datasets (samples x channels), reference positions, global truth.  Global sensor order: references, then each
    setup's roving sensors in setup order, inside a setup in ascending channel order.
    spec["weak"] = {setup, mode, exp: {method: e}}: in that (later) setup the initial condition of that mode is 10^-e times
    smaller - every mode is still excited, with strongly unequal modal participation."""
    A, C, Phi = system_matrices(spec)
    m, nref, nmovs, N = spec["m"], spec["nref"], spec["nmovs"], spec["N"]
    weak = spec.get("weak")
    datasets, off = [], nref
    for k, nm in enumerate(nmovs):
        r = nref + nm
        pos = spec["pos"][k]
        movpos = [c for c in range(r) if c not in pos]
        Ck = np.zeros((r, 2 * m))
        for j, p in enumerate(pos):
            Ck[p] = C[j]
        for j, p in enumerate(movpos):
            Ck[p] = C[off + j]
        off += nm
        X = np.zeros((2 * m, N))
        x = np.array(spec["x0"][k], float)
        if weak and method is not None and weak["setup"] == k:
            x[2 * weak["mode"]:2 * weak["mode"] + 2] *= 10.0 ** (-weak["exp"][method])
        for t in range(N):
            X[:, t] = x
            x = A @ x
        datasets.append((2.0 ** spec["gexp"][k]) * (Ck @ X).T)
    return datasets, A, C, Phi


def split_all(datasets, spec):
    Y = []
    for d, p in zip(datasets, spec["pos"]):
        ref, mov = oracle_split(d, p)
        Y.append({"ref": ref, "mov": mov})
    return Y


def hankel_stats(Y, br, n, nref, method):
    """per setup: (S_1 / S_n of the harness's own Hankel matrix, s_min / s_max of the reference rows of its observability basis)."""
    out = []
    for s in Y:
        H = own_hankel(np.vstack((s["ref"], s["mov"])), s["ref"], br, method)
        U, S, _ = np.linalg.svd(H)
        W = U[:, :n] * np.sqrt(S[:n])
        r = s["ref"].shape[0] + s["mov"].shape[0]
        sv = np.linalg.svd(W[[b * r + j for b in range(br) for j in range(nref)]], compute_uv=False)
        out.append((S[0] / S[n - 1], sv[-1] / sv[0]))
    return out


EPS = 2.220446049250313e-16
TOL_CAP = 2e-2  # beyond this the data do not determine the weak mode well enough in double precision: not judged


def case_tol(spec, Y, br, method):
    """tolerance of the truth oracle, scaled to conditioning: the subspace of a Hankel matrix with singular-value spread kappa is
    known to ~eps kappa (measured on the unchanged code: error <= 100 eps kappa over 800 weak-participation identifications)."""
    if not spec.get("weak"):
        return TOL_E2E
    kap = max(k for k, _ in hankel_stats(Y, br, 2 * spec["m"], spec["nref"], method))
    return max(TOL_E2E, 1000 * EPS * kap)


def add_weak(rng, spec, j):
    """one mode of a later setup 10^-e weaker.  cov_mm: e is searched so that the reference block of that setup's observability
    basis has a prescribed singular-value ratio (two of three cases 4e-6..8e-6 - the weakest the moment matrix still resolves to
    1e-2 -, otherwise 1e-5..1e-3); dat: e uniform in [3, 7]."""
    m, nref, br = spec["m"], spec["nref"], spec["br"]
    kk = int(rng.integers(1, len(spec["nmovs"])))
    mode = int(rng.integers(0, m))
    target = 10.0 ** (rng.uniform(-5.4, -5.1) if j % 3 != 2 else rng.uniform(-5.0, -3.0))
    spec = dict(spec, weak=dict(setup=kk, mode=mode, exp={"cov_mm": 2.0, "dat": float(np.round(rng.uniform(3.0, 7.0), 2))}))
    e = 2.0
    while e < 6.5:
        trial = dict(spec, weak=dict(spec["weak"], exp=dict(spec["weak"]["exp"], cov_mm=e)))
        Y = split_all(build_case(trial, "cov_mm")[0], trial)
        kap, ratio = hankel_stats(Y[kk:kk + 1], br, 2 * m, nref, "cov_mm")[0]
        if 1000 * EPS * kap > 0.5 * TOL_CAP:
            break
        spec = trial
        if ratio <= target:
            break
        e += 0.125
    return spec


def gen_spec(rng, mmax, k, mmin=1, close=False):
    """close: two of the global modes are 1-4 % apart in frequency (closer than the default rtol of mpe), different damping."""
    m = int(rng.integers(mmin, mmax + 1))
    while True:
        nset = int(rng.integers(2, 5))
        nref = int(rng.integers(1, 4))
        nmovs = [int(rng.integers(1, 5)) for _ in range(nset)]
        if k % 3 == 0:  # equal-sized roving blocks: an exchange of two blocks keeps every shape and residual size
            nmovs = [nmovs[0]] * nset
        fs = 64.0
        if m <= 3:
            fn = np.sort(rng.uniform(0.06, 0.40, m)) * fs
            if m > 1 and np.min(np.diff(fn)) < 0.05 * fs:
                continue
        else:  # a jittered grid: five well separated frequencies are rare among uniform draws
            fn = (0.06 + (0.34 / m) * (np.arange(m) + 0.6 * rng.uniform(0, 1, m))) * fs
        xi = rng.uniform(0.005, 0.03, m)
        if close:
            j = int(rng.integers(0, m - 1))
            fn = np.array(fn)
            fn[j + 1] = fn[j] * (1.0 + float(rng.uniform(0.01, 0.04)))
            if np.any(np.diff(fn) <= 0) or (m > 2 and np.sort(np.diff(fn))[1] < 0.04 * fs):
                continue
            xi[j + 1] = xi[j] * (2.0 if xi[j] < 0.0125 else 0.5)
        nglob = nref + sum(nmovs)
        Cre = rng.integers(-8, 9, size=(nglob, m)) / 4.0
        cplx = k % 4 == 3
        Cim = rng.integers(-8, 9, size=(nglob, m)) / 8.0 if cplx else np.zeros((nglob, m))
        if np.any(np.abs(Cre[:nref]).sum(axis=0) == 0) or np.any(np.abs(Cre).sum(axis=1) + np.abs(Cim).sum(axis=1) == 0):
            continue
        pos = [[int(x) for x in rng.permutation(nref + nm)[:nref]] for nm in nmovs]
        x0 = [(rng.integers(1, 9, 2 * m) / 4.0 * rng.choice([-1, 1], 2 * m)).tolist() for _ in nmovs]
        gexp = [int(rng.integers(-7, 8)) for _ in nmovs]
        if k % 5 == 1:
            gexp[0], gexp[-1] = 7, -7
        br = int(np.ceil(2 * m / nref)) + 1 + int(rng.integers(0, 3))
        while (br - 1) * nglob < 2 * m:
            br += 1
        spec = dict(kind="ssi", m=m, fs=fs, N=600, fn=fn.tolist(), xi=xi.tolist(), Cre=Cre.tolist(), Cim=Cim.tolist(), nref=nref, nmovs=nmovs,
                    pos=pos, x0=x0, gexp=gexp, br=br, cplx=bool(cplx))
        if close:
            spec["close"] = True
            if conditioning(spec) > 1000.0:  # close poles are told apart over more block rows: allow them
                spec["br"] = br = br + 4
        if conditioning(spec) <= (1000.0 if close else 200.0):
            return spec


def conditioning(spec):
    """the guards of the property's quantifier: all modes visible at the references (block rows >= observability index + 1)."""
    A, C, _ = system_matrices(spec)
    br, nref = spec["br"], spec["nref"]
    Oref = np.vstack([C[:nref] @ np.linalg.matrix_power(A, b) for b in range(br)])
    Op = np.vstack([C @ np.linalg.matrix_power(A, b) for b in range(br - 1)])
    if min(Oref.shape[0], Op.shape[0]) < 2 * spec["m"]:
        return np.inf
    return max(np.linalg.cond(Oref), np.linalg.cond(Op))


def own_hankel(Y, Yref, br, method):
    """the block Hankel matrix written from its definition (not pyoma2's)."""
    l, Ndat = Y.shape
    r = Yref.shape[0]
    p, q = br, br + 1
    N = Ndat - p - q
    Yf = np.vstack([Y[:, q + 1 + i:N + q + i] for i in range(p + 1)]) / np.sqrt(N)
    Yp = np.vstack([Yref[:, q - j:N + q - 1 - j] for j in range(q)]) / np.sqrt(N)
    if method == "cov_mm":
        return Yf @ Yp.T
    Rf = np.linalg.qr(np.vstack((Yp, Yf)).T, mode="r").T
    return Rf[r * q:, :r * q]


def modal_oracle(Ah, Ch, spec, Phi, tol):
    """the property text on a realisation (A, C) at order 2m: None, or the description of the first mode that is not the global one."""
    m, fs = spec["m"], spec["fs"]
    lam, V = np.linalg.eig(Ah)
    lc = np.log(lam.astype(complex)) * fs
    fn_hat, xi_hat = np.abs(lc) / (2 * np.pi), -lc.real / np.abs(lc)
    shapes = Ch @ V
    for i in range(m):
        j = int(np.argmin(np.abs(fn_hat - spec["fn"][i]) + 1e3 * (lc.imag < 0)))
        efn = abs(fn_hat[j] - spec["fn"][i]) / spec["fn"][i]
        exi = abs(xi_hat[j] - spec["xi"][i]) / spec["xi"][i]
        mc = mac(shapes[:, j], Phi[:, i])
        if not (efn <= tol and exi <= tol and mc >= 1 - tol):
            return "mode %d: fn %.6g -> %.6g (err %.2e), xi %.6g -> %.6g (err %.2e), 1-MAC %.2e, tolerance %.1e" % (
                i, spec["fn"][i], fn_hat[j], efn, spec["xi"][i], xi_hat[j], exi, 1 - mc, tol)
    return None


def snapshot(Y):
    return [{k: np.array(v, copy=True) for k, v in s.items()} for s in Y]


def same_split(Y, Y0):
    return len(Y) == len(Y0) and all(same_array(s["ref"], t["ref"]) and same_array(s["mov"], t["mov"]) for s, t in zip(Y, Y0))


def ssi_checks(ctx, spec, method, coq_jobs, rot=0):
    """(ii): ssi.SSI_multi_setup on the oracle split; returns nothing, records failures.
    rot selects the input forms: records read-only in every other case, fs / br / ordmax / step as Python or NumPy scalars."""
    datasets, A, C, Phi = build_case(spec, method)
    m, nref, nmovs, br, fs = spec["m"], spec["nref"], spec["nmovs"], spec["br"], spec["fs"]
    n = 2 * m
    nD = nref + sum(nmovs)
    ro = rot % 2 == 1 or bool(spec.get("readonly"))
    r = int(spec.get("opt_rot", rot))
    case = dict(spec, method=method, readonly=ro,
                option_forms=dict(fs=FLOAT_FORMS[r % 4], br=INT_FORMS[(r + 1) % 5], ordmax=INT_FORMS[(r + 2) % 5], step=INT_FORMS[(r + 3) % 5]))
    ctx.hist("ssi_readonly", ro)
    ctx.hist("ssi_option_forms", "fs %s, br %s, ordmax %s" % (FLOAT_FORMS[r % 4], INT_FORMS[(r + 1) % 5], INT_FORMS[(r + 2) % 5]))
    weak = bool(spec.get("weak"))
    Y = split_all(datasets, spec)
    Y0 = snapshot(Y)
    if ro:
        Y = [{k: readonly(v) for k, v in s.items()} for s in Y]
    tol = case_tol(spec, Y0, br, method)
    try:
        Obs, Al, Cl = ssi.SSI_multi_setup(Y, float_form(fs, r), int_form(br, r + 1), int_form(n, r + 2), method, step=int_form(1, r + 3))
    except Exception as e:  # noqa: BLE001
        ctx.fail("oracle", "SSI_multi_setup raises %s on noise-free records within the property's quantifier" % type(e).__name__, case,
                 key="C03:SSI_multi_setup:raises")
        return
    Obs, Ah, Ch = np.asarray(Obs), np.asarray(Al[-1]), np.asarray(Cl[-1])
    # ---- oracle: the samples handed in are intact after the call
    if not same_split(Y, Y0):
        ctx.fail("oracle", "SSI_multi_setup(%s) changes the reference/roving records it is given (samples not intact after the call)" % method,
                 case, key="C03:SSI_multi_setup:mutates-input")
    # ---- oracle: the property text on the returned realisation (poles and shapes at order 2m)
    if Ah.shape != (n, n) or Ch.shape != (nD, n):
        ctx.fail("oracle", "SSI_multi_setup: A, C at order 2m have shapes %s, %s (expected %s, %s)" % (Ah.shape, Ch.shape, (n, n), (nD, n)), case,
                 key="C03:SSI_multi_setup:shape")
        return
    if tol > TOL_CAP:
        ctx.not_judged += 1
    else:
        bad = modal_oracle(Ah, Ch, spec, Phi, tol)
        if bad:
            ctx.fail("oracle", "SSI_multi_setup(%s): the returned (A, C) at order 2m is not the global system over references + roving sensors "
                     "in setup order: %s" % (method, bad), case, key="C03:SSI_multi_setup:modes")
    # ---- the fully positional call (one case in three), step = 2
    if rot % 3 == 0:
        positional_ssi(ctx, case, Y, spec, method, Phi, tol, Al)
    # ---- oracle: a second identification on the SAME split records (one more block row; the other method unless the
    #      participation is method specific) meets the truth as well
    m2 = method if weak else ("dat" if method == "cov_mm" else "cov_mm")
    case2 = dict(case, repeat=dict(br=br + 1, method=m2))
    tol2 = case_tol(spec, Y0, br + 1, m2)
    try:
        Y1 = snapshot(Y)
        _, Al2, Cl2 = ssi.SSI_multi_setup(Y, float_form(fs, r + 1), int_form(br + 1, r + 2), int_form(n, r + 3), m2, step=int_form(1, r + 4))
        if not same_split(Y, Y1):
            ctx.fail("oracle", "SSI_multi_setup(%s) changes the reference/roving records it is given (second call)" % m2, case2,
                     key="C03:SSI_multi_setup:mutates-input")
        if tol2 > TOL_CAP:
            ctx.not_judged += 1
        else:
            bad = modal_oracle(np.asarray(Al2[-1]), np.asarray(Cl2[-1]), spec, Phi, tol2)
            if bad:
                ctx.fail("oracle", "SSI_multi_setup(%s, br+1) called after SSI_multi_setup(%s) on the same records does not return the global system: %s"
                         % (m2, method, bad), case2, key="C03:SSI_multi_setup:modes-repeat")
    except Exception as e:  # noqa: BLE001
        ctx.fail("oracle", "second SSI_multi_setup call on the same records raises %s" % type(e).__name__, case2, key="C03:SSI_multi_setup:raises")
    tolb = max(TOL, tol) if weak else TOL
    # ---- (b) against the truth the theorem predicts: T from the reference rows only, every row = O_global T
    if Obs.shape != (br * nD, n):
        ctx.fail("correspondence", "Obs_all has shape %s, the model says %s" % (Obs.shape, (br * nD, n)), case, key="C03:SSI_multi_setup:obs-shape")
        return
    Og = np.vstack([C @ np.linalg.matrix_power(A, b) for b in range(br)])
    refrows = np.array([b * nD + j for b in range(br) for j in range(nref)])
    T = np.linalg.lstsq(Og[refrows], Obs[refrows], rcond=None)[0]
    sc = np.abs(Obs).max()
    if tolb > TOL_CAP:
        return
    if np.abs(Og @ T - Obs).max() > tolb * sc:
        rowerr = np.abs(Og @ T - Obs).max(axis=1)
        ctx.fail("correspondence", "Obs_all is not O_global T_0 with T_0 solved from the reference rows (theorem C03_identifies_global_partial); "
                 "worst row %d (block %d, position %d)" % (int(rowerr.argmax()), int(rowerr.argmax()) // nD, int(rowerr.argmax()) % nD),
                 case, key="C03:SSI_multi_setup:truth-obs")
    elif np.abs(T @ Ah - A @ T).max() > tolb * max(1.0, np.abs(T).max()) * 10 or np.abs(Ch - C @ T).max() > tolb * sc:
        ctx.fail("correspondence", "A_hat, C_hat are not T_0^-1 A T_0, C_global T_0", case, key="C03:SSI_multi_setup:truth-AC")
    # ---- (a) model on witnesses (own Hankel + own SVD), evaluated exactly (integers) in Coq
    if coq_jobs is not None and not weak:
        wit = []
        for s in Y0:
            H = own_hankel(np.vstack((s["ref"], s["mov"])), s["ref"], br, method)
            U, S, _ = np.linalg.svd(H)
            W = U[:, :n] * np.sqrt(S[:n])
            # a basis of the column space, any scaling (T_k is arbitrary): integers = 40-bit fixed point of the normalised basis
            wit.append(np.round(W / np.abs(W).max() * 2.0 ** WBITS))
        obsl = clist([zmat(w) for w in wit])
        args = "%d %d %s %d %s" % (br, nref, coq_nat_list(nmovs), n, obsl)
        exprs = ["showMs %d %s (ms_run ZOps (Z.eqb 0) %s) ++ \"@\" ++ showLayout %d %d %s"
                 % (nref, coq_nat_list(nmovs), args, br, nref, coq_nat_list(nmovs))]
        mks = [k for k, nm in enumerate(nmovs) if br * nm * br * nref <= 500]
        exprs += ["showMk (ms_transm_k ZOps (Z.eqb 0) %s %d%%nat)" % (args, k) for k in mks]
        coq_jobs.append((exprs, mks, case, Obs, Ah, Ch))


def fix_mat(s, sh):
    return np.array([[float(Fraction(int(x), 2 ** sh)) for x in r.split(" ")] for r in s.split(";")])


def compare_with_model(ctx, outs, mks, case, Obs, Ah, Ch):
    nref, nmovs, br = case["nref"], case["nmovs"], case["br"]
    nD = nref + sum(nmovs)
    body, layout = outs[0].split("@")
    if body == "singular" or any(o == "singular" for o in outs[1:]):
        ctx.fail("correspondence", "model: a reference block of the witness observability matrices is rank deficient", case, key="C03:model:singular")
        return
    cert, so = body.split("|")
    if cert != "T" or any(o.split("|")[0] != "T" for o in outs[1:]):
        ctx.fail("correspondence", "model: scaled-left-inverse certificate failed (exact arithmetic)", case, key="C03:model:cert")
        return
    Om = fix_mat(so, 24)
    rows = [tuple(t.split(" ")) for t in layout.split(";")]
    refrows = [i for i, t in enumerate(rows) if t[0] == "r"]
    if Om.shape != Obs.shape:
        ctx.fail("correspondence", "Obs_all has shape %s, the model says %s" % (Obs.shape, Om.shape), case, key="C03:SSI_multi_setup:obs-shape")
        return
    sc = np.abs(Obs).max()
    # per-setup transmissibility, block row by block row: Obs_all[roving rows of k] = M_k Obs_all[reference rows]
    Oref = Obs[refrows]
    for k, o in zip(mks, outs[1:]):
        nm = nmovs[k]
        Mk = fix_mat(o.split("|")[1], 64)
        rk = [None] * (br * nm)
        for i, t in enumerate(rows):
            if t[0] == "m" and int(t[2]) == k:
                rk[int(t[1]) * nm + int(t[3])] = i
        if any(x is None for x in rk):
            ctx.fail("correspondence", "model layout does not cover setup %d" % k, case, key="C03:model:layout")
            return
        if Mk.shape != (br * nm, len(refrows)) or np.abs(Obs[rk] - Mk @ Oref).max() > TOL * sc:
            ctx.fail("correspondence", "Obs_all[roving rows of setup %d] is not M_k Obs_all[reference rows] (M_k = O_mov pinv(O_ref) of the witness, exact)" % k,
                     case, key="C03:SSI_multi_setup:transmissibility")
            return
    # the whole matrix, basis aligned on the reference rows only
    T = np.linalg.lstsq(Om[refrows], Obs[refrows], rcond=None)[0]
    if np.abs(Om @ T - Obs).max() > TOL * sc:
        ctx.fail("correspondence", "Obs_all differs from the model's Obs_all (basis aligned on the reference rows)", case, key="C03:SSI_multi_setup:model-obs")
        return
    # A, C through the shift structure of the (model-aligned) observability matrix: O_down = O_up A, C = first block row
    Oa = Om @ T
    if np.abs(Oa[nD:] - Oa[:-nD] @ Ah).max() > 10 * TOL * sc:
        ctx.fail("correspondence", "A at order 2m is not the shift operator of the model's Obs_all (O_down = O_up A)", case,
                 key="C03:SSI_multi_setup:model-A")
    if np.abs(Ch - Oa[:nD]).max() > TOL * sc:
        ctx.fail("correspondence", "C at order 2m is not the first block row of the model's Obs_all", case, key="C03:SSI_multi_setup:model-C")


def modes_of(Ah, Ch, spec):
    lam, V = np.linalg.eig(np.asarray(Ah))
    lc = np.log(lam.astype(complex)) * spec["fs"]
    idx = [int(np.argmin(np.abs(np.abs(lc) / (2 * np.pi) - f) + 1e3 * (lc.imag < 0))) for f in spec["fn"]]
    return np.abs(lc[idx]) / (2 * np.pi), -lc[idx].real / np.abs(lc[idx]), (np.asarray(Ch) @ V)[:, idx]


def dtype_checks(ctx, spec, rot):
    """storage dtypes the property does not restrict: the same records stored as integer counts (int32/int64/int16) or as float32
    must give the result of their float64 image - exactly for integers (measured on the unchanged tree: identical), to the
    precision float32 allows (measured: <= 2.3e-5 over 30 systems; judged at 2e-3) otherwise."""
    datasets, A, C, Phi = build_case(spec)
    m, br, fs = spec["m"], spec["br"], spec["fs"]
    wanted = ([spec["dtype"]] if spec.get("dtype") else []) + [("int32", "int64", "int16")[rot % 3], "float32"]
    for dt in wanted:
        if dt == "float32":
            dn = [d.astype(np.float32) for d in datasets]
            tol = 2e-3
        else:
            bits = 14 if dt == "int16" else 20
            dn = [np.round(d / np.abs(d).max() * 2 ** bits).astype(dt) for d in datasets]
            tol = 1e-9
        d64 = [d.astype(np.float64) for d in dn]
        case = dict(spec, kind="dtype", dtype=dt)
        for method in ("cov_mm", "dat"):
            ctx.count(dict(case, method=method))
            ctx.hist("ssi_dtype", dt)
            try:
                Yn = [{k: readonly(v) for k, v in s.items()} for s in split_all(dn, spec)]
                _, Al, Cl = ssi.SSI_multi_setup(Yn, fs, br, 2 * m, method)
                _, Bl, Dl = ssi.SSI_multi_setup(split_all(d64, spec), fs, br, 2 * m, method)
                f1, x1, s1 = modes_of(Al[-1], Cl[-1], spec)
                f2, x2, s2 = modes_of(Bl[-1], Dl[-1], spec)
            except Exception as e:  # noqa: BLE001
                ctx.fail("oracle", "SSI_multi_setup(%s) raises %s on records stored as %s" % (method, type(e).__name__, dt), dict(case, method=method),
                         key="C03:SSI_multi_setup:dtype-raises")
                continue
            err = max(np.max(np.abs(f1 - f2) / f2), np.max(np.abs(x1 - x2) / np.abs(x2)), max(1 - mac(s1[:, i], s2[:, i]) for i in range(m)))
            if not err <= tol:
                ctx.fail("oracle", "SSI_multi_setup(%s) on records stored as %s differs from the same samples stored as float64: worst fn/xi/MAC "
                         "deviation %.2e (tolerance %.0e)" % (method, dt, err, tol), dict(case, method=method), key="C03:SSI_multi_setup:dtype")
        # class level, one method: MultiSetup_PreGER on the narrow records vs on their float64 image
        method = ("cov_mm", "dat")[rot % 2]
        res = []
        try:
            for dd in (dn, d64):
                ms = MultiSetup_PreGER(fs=fs, ref_ind=[list(p) for p in spec["pos"]], datasets=[readonly(d) for d in dd])
                kw = dict(name="a", br=br, ordmax=2 * m, ordmin=0, step=1, hc=HC_LOOSE)
                alg = SSIcov_MS(method="cov_mm", **kw) if method == "cov_mm" else SSIdat_MS(**kw)
                ms.add_algorithms(alg)
                ms.run_all()
                ms.mpe("a", sel_freq=[float(f) for f in spec["fn"]], order=2 * m)
                res.append((np.asarray(alg.result.Fn), np.asarray(alg.result.Xi), np.asarray(alg.result.Phi)))
                if not all(same_array(np.asarray(s["ref"], dtype=np.float64), t["ref"]) and same_array(np.asarray(s["mov"], dtype=np.float64), t["mov"])
                           for s, t in zip(ms.data, split_all(d64, spec))):
                    ctx.fail("oracle", "MultiSetup_PreGER.data on %s records is not the reference/roving split of the samples" % dd[0].dtype,
                             dict(case, method=method), key="C03:e2e:dtype-data")
            (f1, x1, s1), (f2, x2, s2) = res
            ok = f1.shape == f2.shape == (m,) and s1.shape == s2.shape
            err = max(np.max(np.abs(f1 - f2) / f2), np.max(np.abs(x1 - x2) / np.abs(x2)), max(1 - mac(s1[:, i], s2[:, i]) for i in range(m))) if ok else np.inf
            ctx.count(dict(case, method=method, part="class"))
            if not err <= tol:
                ctx.fail("oracle", "MultiSetup_PreGER + %s_MS on records stored as %s differs from the same samples stored as float64: worst fn/xi/MAC "
                         "deviation %.2e (tolerance %.0e)" % ("SSIcov" if method == "cov_mm" else "SSIdat", dt, err, tol), dict(case, method=method),
                         key="C03:e2e:dtype")
        except Exception as e:  # noqa: BLE001
            ctx.fail("oracle", "MultiSetup_PreGER + _MS algorithm raises %s on records stored as %s" % (type(e).__name__, dt), dict(case, method=method),
                     key="C03:e2e:dtype-raises")


HC_LOOSE = dict(conj=True, xi_max=0.5, mpc_lim=0.0, mpd_lim=10.0, cov_max=1e9)  # hard criteria loosened: true poles must not be wiped


def offset_request(spec):
    """requested frequencies 7 % off the true ones - outside the default rtol (5e-2) of mpe, inside rtol = 0.1 -, in descending mode order,
    only for the modes that are still by far the nearest global mode to their request: -> (mode indices, requested frequencies)"""
    perm, sel = [], []
    for i in range(spec["m"] - 1, -1, -1):
        for sgn in (1.0, -1.0):
            f = spec["fn"][i] * (1.0 + sgn * 0.07)
            d = [abs(f - g) for g in spec["fn"]]
            if all(dd > 2.0 * d[i] for q, dd in enumerate(d) if q != i):
                perm.append(i)
                sel.append(float(f))
                break
    return perm, sel


def triples_meet_truth(Fn, Xi, Ph, perm, spec, Phi, tol):
    Fn, Xi, Ph = np.asarray(Fn), np.asarray(Xi), np.asarray(Ph)
    if Fn.shape != (len(perm),) or Xi.shape != (len(perm),) or Ph.shape != (Phi.shape[0], len(perm)):
        return False
    return all(abs(Fn[k] - spec["fn"][i]) <= tol * spec["fn"][i] and abs(Xi[k] - spec["xi"][i]) <= tol * spec["xi"][i]
               and mac(Ph[:, k], Phi[:, i]) >= 1 - tol for k, i in enumerate(perm))


def positional_mpe(ctx, case, spec, ms, alg, method, tol, Phi):
    """MultiSetup_PreGER.mpe(name, sel_freq, order, rtol), SSIdat_MS.mpe(sel_freq, order, rtol) and
    ssi.SSI_mpe(freq_ref, Fn_pol, Xi_pol, Phi_pol, order, Lab, rtol, Fn_cov, Xi_cov, Phi_cov), each by keywords and fully positionally
    on the run of `alg` (named "a"), with requests that are only met with the non-default rtol at the non-default order 2m."""
    m = spec["m"]
    perm, sel = offset_request(spec)
    if not perm:
        ctx.hist("positional_call", "mpe: no unambiguous 7 % request (skipped)")
        return
    cs = dict(case, step="positional mpe", call="positional", mpe_order=perm, sel_freq=sel, rtol=0.1)
    ctx.hist("positional_call", "MultiSetup_PreGER.mpe / SSIdat_MS.mpe / ssi.SSI_mpe")
    ctx.count(dict(cs, part="positional-mpe"))
    key = "C03:mpe:positional-call"

    def got():
        R = alg.result
        return [np.array(R.Fn, copy=True), np.array(R.Xi, copy=True), np.array(R.Phi, copy=True), R.order_out]

    p1, p2 = (perm, sel), (perm[::-1], sel[::-1])
    calls = [("setup.mpe('a', sel_freq=, order=2m, rtol=0.1)", p1, lambda s: ms.mpe("a", sel_freq=list(s), order=2 * m, rtol=0.1)),
             ("setup.mpe('a', sel_freq, 2m, 0.1)", p2, lambda s: ms.mpe("a", list(s), 2 * m, 0.1)),
             ("algorithm.mpe(sel_freq=, order=2m, rtol=0.1)", p2, lambda s: alg.mpe(sel_freq=list(s), order=2 * m, rtol=0.1)),
             ("algorithm.mpe(sel_freq, 2m, 0.1)", p1, lambda s: alg.mpe(list(s), 2 * m, 0.1))]
    res = []
    for what, (pp, ss), f in calls:
        o = outcome(lambda: f(ss))
        if o[0] != "ok":
            ctx.fail("oracle", "%s raises %s (global modes %s requested 7 %% off their frequencies)" % (what, o[0], pp), cs, key=key)
            return
        res.append(got())
    for (ik, ip) in ((0, 3), (2, 1)):
        what, (pp, ss), _ = calls[ip]
        if not same_value(res[ik], res[ip]):
            ctx.fail("oracle", "%s does not give the result of %s (global modes %s requested 7 %% off their frequencies: met only at order 2m with rtol 0.1)"
                     % (what, calls[ik][0], pp), cs, key=key)
            return
        if tol <= TOL_CAP and not triples_meet_truth(res[ip][0], res[ip][1], res[ip][2], pp, spec, Phi, tol):
            ctx.fail("oracle", "%s: result.Fn/Xi/Phi are not the global modes %s in the requested order (Fn %s for requests %s)"
                     % (what, pp, np.asarray(res[ip][0]).tolist(), ss), cs, key=key)
            return
    # the plain function on the pole tables of the run; distinguishable stand-ins for the three covariance tables
    R = alg.result
    Fp, Xp, Pp, Lab = np.asarray(R.Fn_poles), np.asarray(R.Xi_poles), np.asarray(R.Phi_poles), np.asarray(R.Lab)
    Fc, Xc, Pc = Fp + 1000.0, Xp + 2000.0, np.abs(Pp) + 3000.0
    op = outcome(lambda: ssi.SSI_mpe(list(sel), Fp, Xp, Pp, 2 * m, Lab, 0.1, Fc, Xc, Pc))
    ok = outcome(lambda: ssi.SSI_mpe(freq_ref=list(sel), Fn_pol=Fp, Xi_pol=Xp, Phi_pol=Pp, order=2 * m, Lab=Lab, rtol=0.1, Fn_cov=Fc, Xi_cov=Xc, Phi_cov=Pc))
    key = "C03:SSI_mpe:positional-call"
    if op[0] != "ok" or ok[0] != "ok" or not same_value(list(op[1]), list(ok[1])):
        ctx.fail("oracle", "SSI_mpe(freq_ref, Fn_pol, Xi_pol, Phi_pol, 2m, Lab, 0.1, Fn_cov, Xi_cov, Phi_cov) called positionally (%s) differs from "
                 "the same call by keywords (%s)" % (op[0], ok[0]), cs, key=key)
        return
    out = list(op[1])
    if len(out) != 7 or not same_value(out[:3], res[3][:3]) or out[3] != 2 * m or not same_value(out[4], np.asarray(out[0]) + 1000.0) \
            or not same_value(out[5], np.asarray(out[1]) + 2000.0) or not same_value(out[6], np.abs(np.asarray(out[2])) + 3000.0):
        ctx.fail("oracle", "SSI_mpe called positionally on the pole tables of the run: Fn/Xi/Phi are not those of algorithm.mpe for the same request, "
                 "or the order / the covariance entries returned are not those of the selected poles", cs, key=key)
        return
    # order = "find_min" (Lab and the ABSOLUTE window rtol matter): all poles labelled stable, requests 0.15 Hz off, window 0.25 Hz
    fa = sorted(float(f) for f in spec["fn"])
    if m == 1 or min(np.diff(fa)) >= 1.0:
        req, Lab1 = [f + 0.15 for f in fa], np.ones(Fp.shape)
        fp = outcome(lambda: ssi.SSI_mpe(req, Fp, Xp, Pp, "find_min", Lab1, 0.25))
        fk = outcome(lambda: ssi.SSI_mpe(freq_ref=req, Fn_pol=Fp, Xi_pol=Xp, Phi_pol=Pp, order="find_min", Lab=Lab1, rtol=0.25))
        found = fp[0] == "ok" and fp[1][3] is not None
        ctx.hist("positional_find_min", "found" if found else "not found")
        if fp[0] != "ok" or fk[0] != "ok" or not same_value(list(fp[1]), list(fk[1])):
            ctx.fail("oracle", "SSI_mpe(freq_ref, Fn_pol, Xi_pol, Phi_pol, 'find_min', Lab, 0.25) called positionally (%s) differs from the same call "
                     "by keywords (%s)" % (fp[0], fk[0]), dict(cs, sel_freq=req, rtol=0.25, order="find_min"), key=key)
        elif found and tol <= TOL_CAP and not (np.shape(fp[1][0]) == (m,) and np.allclose(fp[1][0], fa, rtol=tol, atol=0)):
            ctx.fail("oracle", "SSI_mpe(..., 'find_min', Lab, 0.25) called positionally: the frequencies found (%s) are not the global ones"
                     % np.asarray(fp[1][0]).tolist(), dict(cs, sel_freq=req, rtol=0.25, order="find_min"), key=key)


def e2e_object(ctx, spec, methods, order_k):
    """(iii): ONE MultiSetup_PreGER object, several identifications on the same split data: the listed _MS algorithms through
    add_algorithms/run_all/mpe, then one more algorithm with another number of block rows, then the first algorithm run again.
    Every result must meet the generator's truth, and the inputs, .data and .datasets stay bit-equal throughout."""
    method0 = methods[0] if spec.get("weak") else None
    datasets, A, C, Phi = build_case(spec, method0)
    m, br = spec["m"], spec["br"]
    case = dict(spec, kind="e2e", methods=methods)
    cls_of = {"cov_mm": "SSIcov_MS", "dat": "SSIdat_MS"}
    Y0 = split_all(datasets, spec)
    given = [d.copy() for d in datasets]
    ro = order_k % 2 == 1 or bool(spec.get("readonly"))
    r = int(spec.get("opt_rot", order_k))
    if ro:  # the records are presented read-only (the harness keeps `given` to compare with)
        datasets = [readonly(d) for d in datasets]
    case["readonly"] = ro
    case["option_forms"] = dict(fs=type(fs_form(spec["fs"], r)).__name__, br=INT_FORMS[(r + 1) % 5], ordmax=INT_FORMS[(r + 2) % 5], ordmin=INT_FORMS[(r + 3) % 5],
                                step=INT_FORMS[(r + 4) % 5], hc_conj=BOOL_FORMS[r % 3], hc_limits=FLOAT_FORMS[(r + 1) % 4])
    ctx.hist("e2e_readonly", ro)
    ctx.hist("e2e_option_forms", "br %s, hc.conj %s" % (INT_FORMS[(r + 1) % 5], BOOL_FORMS[r % 3]))

    def make(name, method, brr):
        hc = {k: (bool_form(v, r) if k == "conj" else float_form(v, r + 1)) for k, v in HC_LOOSE.items()}
        kw = dict(name=name, br=int_form(brr, r + 1), ordmax=int_form(2 * m, r + 2), ordmin=int_form(0, r + 3), step=int_form(1, r + 4), hc=hc)
        return SSIcov_MS(method="cov_mm", **kw) if method == "cov_mm" else SSIdat_MS(**kw)

    def intact(ms, step):
        ok = True
        if not all(same_array(g, d) for g, d in zip(given, datasets)):
            ctx.fail("oracle", "the datasets handed to MultiSetup_PreGER are changed after %s (samples not intact)" % step, dict(case, step=step),
                     key="C03:e2e:mutates-input")
            ok = False
        if len(ms.datasets) != len(datasets) or not all(same_array(np.asarray(g), d) for g, d in zip(ms.datasets, datasets)):
            ctx.fail("oracle", "MultiSetup_PreGER.datasets changed after %s (samples not intact)" % step, dict(case, step=step),
                     key="C03:e2e:mutates-datasets")
            ok = False
        if not same_split(ms.data, Y0):
            ctx.fail("oracle", "MultiSetup_PreGER.data is no longer the reference/roving split of the records after %s (samples not intact)" % step,
                     dict(case, step=step), key="C03:e2e:mutates-data")
            ok = False
        return ok

    def judge(alg, name, method, brr, what, perm):
        """triple k of the result must be ONE global mode: the one requested at position k (perm[k])."""
        r = alg.result
        Fn, Xi, Ph = np.asarray(r.Fn), np.asarray(r.Xi), np.asarray(r.Phi)
        cs = dict(case, step=what, mpe_order=perm)
        nq = len(perm)
        if Fn.shape != (nq,) or Xi.shape != (nq,) or Ph.shape != (Phi.shape[0], nq):
            ctx.fail("oracle", "%s, global modes %s requested: result.Fn/Xi/Phi have shapes %s %s %s for %d requested modes and %d sensors"
                     % (what, perm, Fn.shape, Xi.shape, Ph.shape, nq, Phi.shape[0]), cs, key="C03:e2e:shape")
            return
        tol = case_tol(spec, Y0, brr, method)
        if tol > TOL_CAP:
            ctx.not_judged += 1
            return
        for k, i in enumerate(perm):
            efn = abs(Fn[k] - spec["fn"][i]) / spec["fn"][i]
            exi = abs(Xi[k] - spec["xi"][i]) / spec["xi"][i]
            mc = mac(Ph[:, k], Phi[:, i])
            if not (efn <= tol and exi <= tol and mc >= 1 - tol):
                f_of = int(np.argmin([abs(Fn[k] - f) for f in spec["fn"]]))
                s_of = int(np.argmax([mac(Ph[:, k], Phi[:, q]) for q in range(m)]))
                mixed = f_of != s_of and abs(Fn[k] - spec["fn"][f_of]) / spec["fn"][f_of] <= 1e-3 and mac(Ph[:, k], Phi[:, s_of]) >= 1 - 1e-3
                ctx.fail("oracle", "%s, modes requested in the order %s: position %d (global mode %d requested): fn %.6g -> %.6g (err %.2e), xi %.6g -> %.6g "
                         "(err %.2e), 1-MAC %.2e against the global system (gains 2^%s, tolerance %.1e)%s"
                         % (what, perm, k, i, spec["fn"][i], Fn[k], efn, spec["xi"][i], Xi[k], exi, 1 - mc, spec["gexp"], tol,
                            "; Fn[k] is global mode %d but Phi[:, k] is global mode %d: the triple mixes two modes" % (f_of, s_of) if mixed else ""),
                         cs, key="C03:e2e:modes-mixed" if mixed else ("C03:e2e:modes" if what.startswith("first") else "C03:e2e:modes-repeat"))
                return

    # request orders: ascending, descending, rotated, zig-zag (identical for one mode)
    asc = list(range(m))
    rev = asc[::-1]
    rot = asc[1:] + asc[:1]
    zig = [x for pair in zip(rev, asc) for x in pair][:m]
    first_order = [int(x) for x in spec["mpe_order"]] if spec.get("mpe_order") else (asc if order_k % 2 == 0 else rev)
    orders = [first_order, rev if first_order == asc else rot]

    nreq = [0]
    POLES = ("Fn_poles", "Xi_poles", "Phi_poles", "Lab", "Lambds")

    def request(nm, perm, alg=None, what=""):
        """alternately with the default rtol (as a user would call it) and with a tight one; every third request gives the order as a
        list; the stored pole tables of the run must be bit-unchanged by the extraction"""
        q = nreq[0] + r
        kw = {} if nreq[0] % 2 == 0 else {"rtol": float_form(1e-3, q)}
        # the int form of `order` must be a Python int (SSI_mpe rejects NumPy integers there, also on the unchanged tree)
        order = 2 * m if nreq[0] % 3 != 2 else [int_form(2 * m, q + j) for j in range(len(perm))]
        nreq[0] += 1
        fl = [float(spec["fn"][i]) for i in perm]
        sel = [fl, [np.float64(f) for f in fl], np.array(fl), tuple(fl), [np.array(f) for f in fl]][q % 5]
        ctx.hist("mpe_sel_freq_form", ("list of float", "list of np.float64", "ndarray", "tuple", "list of 0-d arrays")[q % 5])
        ctx.hist("mpe_rtol", "default" if not kw else "1e-3")
        ctx.hist("mpe_request", "all modes" if len(perm) == m else "%d of %d modes" % (len(perm), m))
        before = {a: np.array(getattr(alg.result, a), copy=True) for a in POLES if alg is not None and getattr(alg.result, a, None) is not None}
        ms.mpe(nm, sel_freq=sel, order=order, **kw)
        for a, v in before.items():
            now = np.asarray(getattr(alg.result, a))
            if now.shape != v.shape or now.dtype != v.dtype or not np.array_equal(now, v, equal_nan=True):
                ctx.fail("oracle", "%s: mpe(global modes %s, order=%s) changes result.%s of the run (%d entries differ): a later extraction on the same run "
                         "no longer sees the identified poles" % (what, perm, order, a,
                                                                  int(np.sum(~((now == v) | (np.isnan(now) & np.isnan(v))))) if now.shape == v.shape else -1),
                         dict(case, step=what, mpe_order=perm), key="C03:e2e:mpe-mutates-poles")
                break

    def extract(alg, nm, me, brr, what, perms):
        """a sequence of extractions with DIFFERENT requests on the same run, each judged against the truth"""
        for q, perm in enumerate(perms):
            wq = "%s, extraction %d of %d on this run" % (what, q + 1, len(perms))
            request(nm, perm, alg, wq)
            intact(ms, wq)
            ctx.hist("mpe_order", "ascending" if perm == sorted(perm) else "non-ascending")
            judge(alg, nm, me, brr, wq, perm)

    forms = [f for f in REF_FORMS if as_form(spec["pos"], f) is not None]
    form = forms[order_k % len(forms)]
    case["ref_form"] = form
    ctx.hist("e2e_ref_form", form)
    step = "construction"
    try:
        ms = MultiSetup_PreGER(fs=fs_form(spec["fs"], r), ref_ind=as_form(spec["pos"], form), datasets=datasets)
        intact(ms, step)
        names = ["a", "b"][:len(methods)]
        algs = {nm: make(nm, me, br) for nm, me in zip(names, methods)}
        step = "add_algorithms"
        ms.add_algorithms(*[algs[nm] for nm in (names if order_k % 2 == 0 else names[::-1])])
        intact(ms, step)
        step = "run_all"
        ms.run_all()
        intact(ms, step)
        first = (names if order_k % 2 == 0 else names[::-1])[0]
        j0 = order_k % m
        drop = [i for i in rev if i != (order_k + 1) % m] or rev
        seqs = [[[j0], orders[0]],            # a single mode, then all modes
                [orders[1], drop]]            # all modes, then a subset in descending order
        if spec.get("mpe_sequence"):
            seqs[0] = [[int(x) for x in q] for q in spec["mpe_sequence"]]
        for nm, me, perms in zip(names, methods, seqs):
            step = "mpe(%s)" % cls_of[me]
            extract(algs[nm], nm, me, br, "%s identification on the object: %s, br=%d" % ("first" if nm == first else "second", cls_of[me], br), perms)
        # another identification on the same object and the same split data: one more block row
        me3 = methods[-1] if order_k % 2 == 0 else methods[0]
        step = "run_by_name(%s, br+1)" % cls_of[me3]
        c = make("c", me3, br + 1)
        if order_k % 2 == 0:  # the algorithm built as Class(run_params, name): the same algorithm as Class(name=, **run parameters)
            ctx.hist("positional_call", "SSIdat_MS / SSIcov_MS(run_params, name)")
            kwc = dict(br=br + 1, ordmax=2 * m, ordmin=0, step=1, hc=dict(HC_LOOSE), **({"method": "cov_mm"} if me3 == "cov_mm" else {}))
            cls3 = SSIcov_MS if me3 == "cov_mm" else SSIdat_MS
            twin, c = cls3(name="c", **kwc), cls3(SSIRunParams(**kwc), "c")
            if c.name != "c" or twin.name != "c" or c.run_params != twin.run_params:
                ctx.fail("oracle", "%s(run_params, 'c') is not the algorithm %s(name='c', **run parameters): name %r, run parameters %s"
                         % (cls_of[me3], cls_of[me3], c.name, "equal" if c.run_params == twin.run_params else "differ"),
                         dict(case, step=step, call="positional"), key="C03:algorithm-constructor:positional-call")
        ms.add_algorithms(c)
        ms.run_by_name("c")
        extract(c, "c", me3, br + 1, "later identification on the same object: %s, br=%d" % (cls_of[me3], br + 1), [rev[:2], rot])
        # and the first algorithm once more
        step = "re-run(%s)" % cls_of[methods[0]]
        ms.run_by_name("a")
        extract(algs["a"], "a", methods[0], br, "re-run on the same object: %s, br=%d" % (cls_of[methods[0]], br), [zig, [(j0 + 1) % m]])
        # the extraction called fully positionally (every other object)
        if order_k % 2 == 0:
            step = "positional mpe(%s)" % cls_of[methods[0]]
            positional_mpe(ctx, case, spec, ms, algs["a"], methods[0], case_tol(spec, Y0, br, methods[0]), Phi)
            intact(ms, step)
    except Exception as e:  # noqa: BLE001
        ctx.fail("oracle", "MultiSetup_PreGER + %s: %s raises %s on noise-free records" % ("/".join(cls_of[x] for x in methods), step, type(e).__name__),
                 dict(case, step=step), key="C03:e2e:raises")


def load_corpus():
    out = []
    for path in sorted(glob.glob(os.path.join(VERIF, "corpus", "C03", "*.json"))):
        c = json.load(open(path))
        c["corpus"] = os.path.basename(path)
        out.append(c)
    return out


def run(ctx):
    ctx.extra["rule"] = ("split: every ordered reference subset of every channel count (exhaustive) + malformed lists + multi-setup calls, "
                         "non-trivial = valid list on >= 2 channels; SSI: one global system (modes, shapes, x0, gains 2^k, reference positions) "
                         "per case, both methods, every case identified repeatedly on the same split data / the same object (inputs must stay bit-equal), "
                         "one case in four with one mode 10^-2..10^-6 weaker in a later setup (tolerance 1000 eps kappa(H), not judged above 2e-2); "
                         "reference index lists in every accepted container form (lists, int64/int32 arrays, tuples, 2-D array); mpe requests in ascending, "
                         "descending, rotated and zig-zag order (triple k = the mode requested at position k), default and tight rtol, sequences of "
                         "different request subsets on one run (single mode then all, all then a subset; pole tables bit-unchanged); every other case with all "
                         "array inputs read-only; scalar options rotating through Python / NumPy-scalar / 0-d forms; records also as int16/32/64, "
                         "uint8/16, float32 (same result as the float64 image); one case in four "
                         "with two global modes 1-4 % apart; a share of the cases calls every entry point (pre_multisetup, filter_data, SSI_multi_setup, "
                         "SSI_mpe, MultiSetup_PreGER and its preprocessing, setup/algorithm mpe, the algorithm constructor) by keywords AND fully "
                         "positionally in the documented parameter order with non-default values (same answer, same oracle); "
                         "non-trivial = always (>= 2 setups, gains differ); distinct by hash of the full spec")
    ctx.assumptions += [
        "oracle contracts (hypotheses of C03_identifies_global_partial): np.linalg.svd per setup delivers Obs_k = O_k T_k with T_k right-invertible "
        "(single-setup realisation step, property C01); np.linalg.pinv returns a left inverse of a full-column-rank reference block; "
        "np.linalg.qr returns Q R = O_p with Q^T Q = I and np.linalg.inv a left inverse of R",
        "the executable model replaces pinv / QR by an exact Gauss-Jordan left inverse whose defining identity L O = I is re-checked in Qc on every case",
        "witness observability matrices: the harness's own Hankel construction and np.linalg.svd (float images, exact rationals in Coq)",
        "np.linalg.pinv's singular-value cut-off is not modelled: cases run at ordmax = 2m on noise-free data (full numerical column rank)",
    ]
    corpus = load_corpus()
    if not corpus:
        ctx.fail("correspondence", "corpus/C03 is empty", key="C03:corpus:missing")
    rng = ctx.np_rng
    # ---- (i)
    part_split(ctx, corpus)
    part_class_data(ctx)
    # ---- (ii), (iii)
    mmax = ctx.n(3, 5)
    specs = [dict(c) for c in corpus if c.get("kind") == "ssi"]
    for s in specs:
        ctx.hist("ssi_stream", "corpus")
    nssi = ctx.n(20, 120)
    nweak = 0
    for k in range(nssi):
        if k % 4 == 1:  # two global modes 1-4 % apart: closer than mpe's default rtol, every request must still get its own mode
            specs.append(gen_spec(rng, max(mmax, 2), k, mmin=2, close=True))
            ctx.hist("ssi_stream", "generated-close-modes")
        elif k % 4 == 2:  # strongly unequal modal participation in a later setup
            sp = gen_spec(rng, max(mmax, 2), k, mmin=2)
            specs.append(add_weak(rng, sp, nweak))
            nweak += 1
            ctx.hist("ssi_stream", "generated-weak-participation")
        else:
            specs.append(gen_spec(rng, mmax, k))
            ctx.hist("ssi_stream", "generated")
    coq_jobs = []
    ncoq = ctx.n(14, 60)
    for k, spec in enumerate(specs):
        spec = {kk: v for kk, v in spec.items() if kk not in ("corpus", "comment")}
        weak = spec.get("weak")
        ctx.hist("ssi_shape", "m=%d nset=%d nref=%d" % (spec["m"], len(spec["nmovs"]), spec["nref"]))
        ctx.hist("ssi_br", spec["br"])
        if weak:
            ctx.hist("weak_exp_cov_mm", round(weak["exp"]["cov_mm"] * 2) / 2)
        for method in ("cov_mm", "dat"):
            ctx.count(dict(spec, method=method, part="ssi"))
            ctx.count(dict(spec, method=method, part="ssi-repeat"))
            small = spec["m"] <= 4 and spec["br"] * (spec["nref"] + sum(spec["nmovs"])) * 2 * spec["m"] <= 1000  # exact evaluation cost ~ n^4
            ssi_checks(ctx, spec, method, coq_jobs if (len(coq_jobs) < ncoq and small and (k + (method == "dat")) % 2 == 0) else None,
                       rot=k + (method == "dat"))
        if spec.get("dtype") or (not weak and k % 5 == 0):
            dtype_checks(ctx, spec, k)
        if weak:  # the participation is method specific: one object per method
            for method in ("cov_mm", "dat"):
                ctx.count(dict(spec, methods=[method], part="e2e"))
                e2e_object(ctx, spec, [method], k)
        else:
            ctx.count(dict(spec, methods=["cov_mm", "dat"], part="e2e"))
            e2e_object(ctx, spec, ["cov_mm", "dat"], k)
    ctx.sample({kk: v for kk, v in specs[-1].items() if kk not in ("Cre", "Cim", "x0")})
    flat = [e for j in coq_jobs for e in j[0]]
    res = ctx.coq_eval(HEADER, flat, shard=1)
    ctx.extra["model_evaluations_ssi"] = len(coq_jobs)
    pos = 0
    for (exprs, mks, case, Obs, Ah, Ch) in coq_jobs:
        compare_with_model(ctx, res[pos:pos + len(exprs)], mks, case, Obs, Ah, Ch)
        pos += len(exprs)
    # ---- positional call forms of the setup class and its preprocessing (last: draws from the generator after everything else)
    positional_class(ctx)
