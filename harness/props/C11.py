"""C11 - modal parameter extraction returns the requested pole, whole and only if close.
Model: coq/Model/M_mpe.v; theorems: coq/Properties/C11.v.

Correspondence: ssi.SSI_mpe / plscf.pLSCF_mpe (order = int, list of int, 'find_min') and the classes' mpe through
SingleSetup against the Gallina model on the same tables.  All outputs are MOVED values: the payload tables (Xi, Phi,
covariances) carry a unique identifier per cell, every returned component is traced back to the cell it was copied from
and the (frequency, cell) pairs are compared exactly.
Oracle: the property text written in NumPy (independent of the model and of the model's glue).

Class level (coq/Model/M_mpe_class.v, theorems C11_class_* / C11_setup_mpe_frame): SSIcov, SSIcov(calc_unc), SSIdat, SSIcov_MS,
SSIdat_MS, pLSCF, pLSCF_MS through setup.mpe.  ssi.SSI_mpe / plscf.pLSCF_mpe are wrapped while the class runs: the recorded
hand-over (requests, order, rtol, deltaf, which table sits in which slot) is compared with the model's ssi_args / plscf_args, and
the object after the call (run_params.sel_freq / order_in / rtol, ordmin / ordmax / step, result.Fn / Xi / Phi / order_out /
Fn_cov / Xi_cov / Phi_cov, field by field and cell by cell) with the model's ssi_class_mpe / plscf_class_mpe; run parameters
ordmin and step are varied (they must not enter), covariance tables are put into every SSI class; the other algorithms of the
setup must keep what they hold; an algorithm that was not run and an unknown name must be refused.
Call forms: SSI_mpe, pLSCF_mpe, <class>.mpe and setup.mpe(name, ...) are also called fully positionally in the PRISTINE parameter
order (hard-coded above) with non-default tolerances; the answer must be that of the keyword call.
"""
import glob
import json
import os
from fractions import Fraction

import numpy as np

from common import VERIF, clist, fq
from pyoma2.functions import plscf, ssi

HEADER = (
    "From PyOMA.Model Require Import M_mpe.\n"
    "Definition sq (n:Z) (d:positive) : option Q := Some (Qmake n d).\n"
    "Definition Qm (n:Z) (d:positive) : Q := Qmake n d.\n"
)
HEADER_CLASS = (
    "From PyOMA.Model Require Import M_mpe M_mpe_class.\n"
    "Definition sq (n:Z) (d:positive) : option Q := Some (Qmake n d).\n"
    "Definition Qm (n:Z) (d:positive) : Q := Qmake n d.\n"
)
KNOWN_KEY = "C11:pLSCF_mpe:find_min-Lab7"
# PRISTINE positional parameter orders (read from /repo/src once and fixed here: a changed tree must not redefine them)
SSI_MPE_ORDER = ("freq_ref", "Fn_pol", "Xi_pol", "Phi_pol", "order", "Lab", "rtol", "Fn_cov", "Xi_cov", "Phi_cov")
SSI_MPE_DEFAULTS = dict(Lab=None, rtol=5e-2, Fn_cov=None, Xi_cov=None, Phi_cov=None)
PLSCF_MPE_ORDER = ("sel_freq", "Fn_pol", "Xi_pol", "Phi_pol", "order", "Lab", "deltaf", "rtol")
PLSCF_MPE_DEFAULTS = dict(order="find_min", Lab=None, deltaf=0.05, rtol=1e-2)
CLASS_MPE_ORDER = ("sel_freq", "order", "rtol")  # SSIdat.mpe and pLSCF.mpe (inherited by every other class); setup.mpe(name, *these)
# pLSCF_mpe has an explicit search band deltaf: a pole outside the REQUESTED band is not "within tolerance" whatever rtol says
PL_READ = ("band", "count")
ATOL = 1e-8
NCH = 3
GRID = 1024


# ------------------------------------------------------------------------------------------------------------
# tables
def nan_tab(rows):
    return np.array([[np.nan if x is None else float(x) for x in r] for r in rows], dtype=float)


def tab_json(Fn):
    return [[None if x != x else float(x) for x in r] for r in np.asarray(Fn).tolist()]


def payload(n, m):
    """Unique identifier r*m+c in every component of every moved table."""
    ids = (np.arange(n * m).reshape(n, m)).astype(float)
    Xi = 1000.0 + ids
    Phi = np.zeros((n, m, NCH), dtype=complex)
    Phic = np.zeros((n, m, NCH))
    for k in range(NCH):
        Phi[:, :, k] = (ids * 4 + k) + 1j * (ids + 0.5)
        Phic[:, :, k] = 40000.0 + ids * 4 + k
    return dict(Xi=Xi, Phi=Phi, Fn_cov=20000.0 + ids, Xi_cov=30000.0 + ids, Phi_cov=Phic)


def eqv(a, b):
    a = np.asarray(a)
    b = np.asarray(b)
    return a.shape == b.shape and bool(np.all((a == b) | ((a != a) & (b != b))))


def locate(tabs, comps, columns=None):
    """Cells (r,c) whose moved content equals every returned component (comps: name -> value)."""
    n, m = tabs["Xi"].shape
    out = []
    for r in range(n):
        for c in (range(m) if columns is None else columns):
            if all(eqv(tabs[k][r, c], v) for k, v in comps.items()):
                out.append((r, c))
    return out


def split_outputs(out, has_cov):
    """SSI_mpe / pLSCF_mpe return value -> list of per-mode component dicts + order_out; None if malformed."""
    Fn, Xi, Phi, oo = out[0], out[1], out[2], out[3]
    Fn = np.asarray(Fn).reshape(-1)
    Xi = np.asarray(Xi).reshape(-1)
    Phi = np.asarray(Phi)
    k = len(Xi)
    if Phi.size == 0:
        Phi = np.zeros((NCH, 0))
    if Phi.ndim != 2 or Phi.shape[1] != k:
        return None, Fn, oo
    modes = [dict(Xi=Xi[j], Phi=Phi[:, j]) for j in range(k)]
    if has_cov:
        Fc, Xc, Pc = np.asarray(out[4]).reshape(-1), np.asarray(out[5]).reshape(-1), np.asarray(out[6])
        if Pc.size == 0:
            Pc = np.zeros((NCH, 0))
        if len(Fc) != k or len(Xc) != k or Pc.ndim != 2 or Pc.shape[1] != k:
            return None, Fn, oo
        for j in range(k):
            modes[j].update(Fn_cov=Fc[j], Xi_cov=Xc[j], Phi_cov=Pc[:, j])
    return modes, Fn, oo


def canon_oo(oo, nreq):
    if oo is None:
        return []
    a = np.asarray(oo)
    if a.ndim == 0:
        return [int(a)]
    return [int(x) for x in a.reshape(-1)[:nreq]]


def call(fn, *a, **kw):
    try:
        return fn(*a, **kw), None
    except Exception as e:  # noqa: BLE001
        call.last = "%s: %s" % (type(e).__name__, str(e)[:200])
        return None, type(e).__name__


def canon_impl(out, err, tabs, nreq, has_cov):
    """-> ('E', kind) | ('O', [(Fraction fn, id|None)], order_out list, modes, Fn array)."""
    if err:
        return ("E", err)
    modes, Fn, oo = split_outputs(out, has_cov)
    m = tabs["Xi"].shape[1]
    if modes is None or len(Fn) != len(modes):
        return ("O", None, canon_oo(oo, nreq), modes, Fn)
    vals = []
    for j, comp in enumerate(modes):
        cells = locate(tabs, comp)
        vals.append((fq(Fn[j]) if Fn[j] == Fn[j] else None, frozenset(r * m + c for r, c in cells)))
    return ("O", vals, canon_oo(oo, nreq), modes, Fn)


# ------------------------------------------------------------------------------------------------------------
# Coq side
def coq_q(x):
    f = fq(x)
    return "(Qm (%d) %d)" % (f.numerator, f.denominator)


def coq_tab(Fn):
    rows = []
    for r in np.asarray(Fn):
        rows.append(clist(["None" if x != x else "(sq (%d) %d)" % (fq(x).numerator, fq(x).denominator) for x in r]))
    return clist(rows)


def coq_lab(Lab):
    return clist([clist(["(%d)%%Z" % int(x) for x in r]) for r in np.asarray(Lab)])


def coq_freq(freq):
    return clist([coq_q(f) for f in freq])


def coq_nats(l):
    return clist(["%d%%nat" % int(x) for x in l])


def parse_vals(s):
    s = s.strip()
    out = []
    if s:
        for t in s.split(" "):
            v, i = t.split("@")
            n, d = v.split("/")
            out.append((Fraction(int(n), int(d)), int(i)))
    return out


def parse_res(s):
    if s.startswith("E "):
        return ("E", s[2:])
    body, oo = s[2:].rsplit("|", 1)
    oo = oo.strip()
    if oo == "N":
        ol = []
    elif oo.startswith("I "):
        ol = [int(oo[2:])]
    else:
        ol = [int(x) for x in oo[1:].split()]
    return ("O", parse_vals(body), ol)


def parse_present(s):
    if s.startswith("E "):
        return ("E", s[2:])
    us, ids, z = s[2:].split("|")
    usl = []
    for t in us.split():
        n, d = t.split("/")
        usl.append(Fraction(int(n), int(d)))
    return ("O", usl, [int(x) for x in ids.split()], int(z))


# ------------------------------------------------------------------------------------------------------------
# are all threshold decisions of this case the same in floating point and in exact arithmetic?  (DESIGN 3.5: near-threshold
# cases are not judged).  Own evaluation of the documented formulas, independent of the implementation.
def judged_explicit(Fn, freq, cols, rtol):
    r_ex = fq(rtol)
    for f, c in zip(freq, cols):
        if c is None or not (0 <= c < Fn.shape[1]):
            continue
        col = Fn[:, c]
        if np.all(np.isnan(col)):
            continue
        dfl = np.abs(col - f)
        dex = [None if x != x else abs(fq(x) - fq(f)) for x in col]
        i_fl = int(np.nanargmin(dfl))
        best = min(d for d in dex if d is not None)
        i_ex = next(i for i, d in enumerate(dex) if d == best)
        if i_fl != i_ex:
            return False
        p = col[i_ex]
        c_fl = bool(abs(p - f) <= ATOL + rtol * abs(f))
        c_ex = abs(fq(p) - fq(f)) <= Fraction(1, 10**8) + r_ex * abs(fq(f))
        if c_fl != c_ex:
            return False
        if abs(abs(fq(p) - fq(f)) - r_ex * abs(fq(f))) <= Fraction(2, 10**8):
            return False  # exactly on the tolerance edge: the property does not say whether the edge is inside
    return True


def judged_findmin(Fn, Lab, lv, freq, band, strict, rtol):
    b_ex, r_ex = fq(band), fq(rtol)
    st = Fn[(Lab == lv) & ~np.isnan(Fn)]
    for p in np.unique(st):
        acc_fl, acc_ex = 0.0, Fraction(0)
        for f in freq:  # the aggregated value is a SUM when bands overlap (outside the property's domain): judged only if it is exact
            if ((p > f - band and p < f + band) if strict else (p >= f - band and p <= f + band)):
                acc_fl += p
                acc_ex += fq(p)
        if fq(acc_fl) != acc_ex:
            return False
        for f in freq:
            lo, hi = f - band, f + band
            in_fl = (p > lo and p < hi) if strict else (p >= lo and p <= hi)
            lo_e, hi_e = fq(f) - b_ex, fq(f) + b_ex
            in_ex = (fq(p) > lo_e and fq(p) < hi_e) if strict else (fq(p) >= lo_e and fq(p) <= hi_e)
            if in_fl != in_ex or abs(fq(p) - fq(f)) == b_ex:
                return False  # float/exact disagree, or exactly on the band edge (inclusive in SSI_mpe, exclusive in pLSCF_mpe: not pinned)
            if abs(abs(fq(p) - fq(f)) - r_ex * abs(fq(f))) <= Fraction(2, 10**8):
                return False
            c_fl = bool(abs(p - f) <= ATOL + rtol * abs(f))
            c_ex = abs(fq(p) - fq(f)) <= Fraction(1, 10**8) + r_ex * abs(fq(f))
            if c_fl != c_ex:
                return False
    return True


# ------------------------------------------------------------------------------------------------------------
# ORACLE: the property text in NumPy
def near(x, y):
    return abs(x - y) <= 1e-9 * max(abs(x), abs(y), 1e-300)


def oracle_explicit(Fn, tabs, freq, cols, rtol, impl):
    """-> None (holds) | 'skip' (outside the property's domain / not judged) | (what, detail)."""
    n, m = Fn.shape
    if impl[0] == "E":
        return "skip"
    exp = []
    for f, c in zip(freq, cols):
        col = Fn[:, c]
        ok = ~np.isnan(col)
        if not ok.any():
            return "skip"  # the property quantifies over orders that contain at least one retained pole
        d = np.abs(col - f)
        dmin = np.nanmin(d)
        thr = rtol * abs(f)
        if near(dmin, thr) or near(dmin, thr + ATOL) or thr < dmin <= thr + ATOL:
            return "skip"  # margin within relative 1e-9 of the tolerance (or inside numpy's absolute 1e-8): not judged
        rows = [r for r in range(n) if ok[r] and (d[r] == dmin or near(d[r], dmin))]
        if dmin <= thr:
            exp.append((f, c, rows))
    _, vals, oo, modes, FnOut = impl
    if vals is None:
        return ("malformed-output", "returned arrays have inconsistent lengths")
    got = []
    for j, comp in enumerate(modes):
        cells = [rc for rc in locate(tabs, comp) if eqv(Fn[rc], FnOut[j])]
        if len(cells) == 0:
            return ("mixed-pole", "returned mode %d (fn=%r) is not the content of one pole (row, order) of the tables" % (j, float(FnOut[j])))
        got.append(cells)
    if len(got) > len(exp):
        return ("far-pole-returned", "%d poles returned, only %d requests have their closest pole within rtol" % (len(got), len(exp)))
    if len(got) < len(exp):
        return ("close-pole-dropped", "%d poles returned, %d requests have their closest pole within rtol" % (len(got), len(exp)))
    if oo != ([cols[0]] if len(oo) == 1 and len(set(cols)) == 1 else list(cols)):
        return ("order_out", "order_out=%s, the orders used are %s" % (oo, list(cols)))
    for (f, c, rows), cells in zip(exp, got):
        if all(cc != c for _, cc in cells):
            return ("wrong-order", "request %r answered from order %s, asked at order %d" % (f, sorted(set(cc for _, cc in cells)), c))
        if not any(cc == c and r in rows for r, cc in cells):
            return ("not-closest", "request %r at order %d answered by cell %s, closest retained pole is row %s" % (f, c, cells, rows))
    return None


def oracle_findmin_expect(Fn, Lab, lv, freq, band, strict, rtol, reading):
    """Lowest order at which every request has exactly one (distinct) stable pole within tolerance.
    reading 'close': |p-f| <= rtol|f| (+1e-8);  'band': inside the absolute search band and close;
    'count': exactly one inside the band, and that one close."""
    n, m = Fn.shape
    for c in range(m):
        picks = []
        for f in freq:
            st = [(r, Fn[r, c]) for r in range(n) if Lab[r, c] == lv and Fn[r, c] == Fn[r, c]]
            inb = lambda p: (abs(p - f) < band) if strict else (abs(p - f) <= band)  # noqa: E731
            cl = lambda p: abs(p - f) <= ATOL + rtol * abs(f)  # noqa: E731
            if reading == "close":
                vs = sorted(set(p for _, p in st if cl(p)))
            elif reading == "band":
                vs = sorted(set(p for _, p in st if inb(p) and cl(p)))
            else:
                vs = sorted(set(p for _, p in st if inb(p) and p != 0))
                if len(vs) == 1 and not cl(vs[0]):
                    vs = []
            if len(vs) != 1:
                picks = None
                break
            picks.append([(r, c) for r, p in st if p == vs[0]])
        if picks is not None:
            return c, picks
    return None, []


def present_loop_decides(Fn, Lab, lv, freq, band, rtol, order):
    """Label-7 stream of pLSCF_mpe only.  The present loop has three further deviations that are recorded separately (final report /
    model plscf_find_min_lab: acceptance by ANY close pole, exit at the last column, not-found path) and are pinned by correspondence.
    The oracle judges a label-7 table only when none of them can influence the outcome: a qualifying order exists, it is not the last
    column, and no earlier column has as many distinct in-band stable poles as requests with at least one of them close."""
    n, m = Fn.shape
    if order is None or order >= m - 1:
        return False
    for c in range(order):
        vals = sorted(set(float(Fn[r, c]) for r in range(n) if Lab[r, c] == lv and Fn[r, c] == Fn[r, c] and Fn[r, c] != 0
                          and any(abs(Fn[r, c] - f) < band for f in freq)))
        if len(vals) == len(freq) and any(abs(v - f) <= ATOL + rtol * abs(f) for v, f in zip(vals, freq)):
            return False
    return True


def oracle_findmin(Fn, Lab, lv, tabs, freq, band, strict, rtol, impl, readings=("close", "band", "count"), present_loop=False):
    if impl[0] == "E":
        return "skip"
    st = Fn[(Lab == lv) & ~np.isnan(Fn)]
    for p in st:
        for f in freq:
            d = abs(p - f)
            if near(d, band) or near(d, rtol * abs(f)) or near(d, rtol * abs(f) + ATOL) or rtol * abs(f) < d <= rtol * abs(f) + ATOL:
                return "skip"
    e = [oracle_findmin_expect(Fn, Lab, lv, freq, band, strict, rtol, rd) for rd in readings]
    if any(x != e[0] for x in e):
        return "skip"  # the readings of "within tolerance" disagree on this table: not judged
    order, picks = e[0]
    if present_loop and not present_loop_decides(Fn, Lab, lv, freq, band, rtol, order):
        return "skip"
    _, vals, oo, modes, FnOut = impl
    if vals is None:
        return ("malformed-output", "returned arrays have inconsistent lengths")
    if order is None:
        if len(modes) or len(FnOut):
            return ("pole-returned-without-order", "no order has exactly one stable pole per request, yet %d poles are returned" % max(len(modes), len(FnOut)))
        return None
    if len(modes) == 0:
        return ("no-pole-returned", "order %d is the lowest with exactly one stable pole per request; nothing is returned (order_out=%s)" % (order, oo))
    if oo != [order]:
        return ("wrong-order", "order_out=%s, the lowest order with exactly one stable pole per request is %d" % (oo, order))
    if len(modes) != len(freq):
        return ("count", "%d poles returned for %d requests" % (len(modes), len(freq)))
    for j, comp in enumerate(modes):
        cells = [rc for rc in locate(tabs, comp) if eqv(Fn[rc], FnOut[j])]
        if len(cells) == 0:
            return ("mixed-pole", "returned mode %d is not the content of one pole of the tables" % j)
        if not any(rc in picks[j] for rc in cells):
            return ("other-pole", "request %r answered by cell %s, its stable pole at order %d is %s" % (freq[j], cells, order, picks[j]))
    return None


# ------------------------------------------------------------------------------------------------------------
# generator
def snap(x):
    return round(x * GRID) / GRID


def gen_case(rng, malformed):
    nm = int(rng.integers(1, 5))
    base = float(rng.choice([0.5, 0.75, 1.5, 2.5, 4.0]))
    gaps = [float(g) for g in rng.choice([1.5, 2.25, 3.0, 4.75, 6.5], size=nm)]
    modes = [base + sum(gaps[:j]) for j in range(nm)]
    m = int(rng.integers(2, 8))
    n = nm + int(rng.integers(1, 4))
    if n == m:
        n += 1
    rtol = float(rng.choice([1 / 8, 1 / 16, 1 / 32, 3 / 64, 0.05, 0.01, 0.02]))
    deltaf = float(rng.choice([0.01, 0.05, 0.2, 1 / 16, rtol]))
    Fn = np.full((n, m), np.nan)
    Lab = np.zeros((n, m), dtype=int)
    for c in range(m):
        rows = [int(x) for x in rng.permutation(n)]
        pst = 0.25 + 0.75 * (c / max(1, m - 1))
        for j, f in enumerate(modes):
            tl = [rtol, rtol * f, deltaf]
            tmin, tmax = min(tl), max(tl)
            if rows and rng.random() < 0.5 + 0.5 * (c + 1) / m:
                u = rng.random()
                if u < 0.2:
                    d = 0.0
                elif u < 0.62:
                    d = snap(float(rng.choice([0.3, 0.6, 0.85])) * tmin)
                elif u < 0.65:
                    d = float(rng.choice(tl))
                elif u < 0.72:
                    d = -rtol * f * (1 - rtol / 2)  # just inside the request-relative tolerance, outside a pole-relative one
                elif u < 0.80:
                    d = snap(0.5 * (tmin + tmax))
                else:
                    d = snap(float(rng.choice([1.15, 1.6, 3.0])) * tmax) + 1 / GRID
                p = f + d * (1 if (rng.random() < 0.5 or d < 0) else -1)
                r = rows.pop()
                Fn[r, c] = p
                Lab[r, c] = int(rng.random() < pst)
                if rows and rng.random() < 0.12:  # the same pole value in a second row
                    r2 = rows.pop()
                    Fn[r2, c] = p
                    Lab[r2, c] = int(rng.random() < 0.6)
                if rows and rng.random() < 0.10:  # a second, different pole inside the same band
                    r2 = rows.pop()
                    Fn[r2, c] = f + snap(float(rng.choice([-0.5, 0.4, 0.7])) * tmin)
                    Lab[r2, c] = int(rng.random() < 0.7)
        for r in rows:
            if rng.random() < 0.4:  # spurious pole
                Fn[r, c] = snap(float(rng.uniform(0.25, modes[-1] + 3.0)))
                Lab[r, c] = int(rng.random() < 0.25)
    freq = []
    for j, f in enumerate(modes):
        u = rng.random()
        if u < 0.7:
            freq.append(f)
        elif u < 0.85:
            freq.append(f + snap(0.4 * min(rtol, rtol * f)) * (1 if rng.random() < 0.5 else -1))
        if rng.random() < 0.07:
            freq.append(f + gaps[j] / 2)  # a request where no mode is
    if not freq:
        freq = [modes[0]]
    kind = "valid"
    o_int = int(rng.integers(0, m))
    o_list = [int(x) for x in rng.integers(0, m, size=len(freq))]
    if not malformed and rng.random() < 0.3:
        # two retained poles on opposite sides of one request at nearly equal distance: the LOWER one is closer in |p - f|,
        # the UPPER one is "closer" under a pole-relative metric |1 - f/p| (or f/p); decisive margins (>= 0.5 rtol relative)
        k = int(rng.integers(0, len(freq)))
        f = freq[k]
        rt2 = float(rng.choice([0.05, 0.02, 1 / 32, 0.01, 1 / 16]))
        c = int(rng.integers(0, m))
        if rng.random() < 0.5:  # both inside the tolerance: the lower pole must be returned
            a = 0.8 * rt2 * f
            b = a * (1 + 0.8 * rt2)
        else:  # lower pole inside, upper pole outside: the lower pole must be returned (a wrong metric returns nothing)
            a = (1 - rt2 / 2) * rt2 * f
            b = (1 + rt2 / 2) * rt2 * f
        if f - a > 0 and (b - a) * f < 2 * a * b:
            rtol = rt2
            col = Fn[:, c]
            col[np.abs(col - f) < 4 * max(rtol * f, rtol, deltaf)] = np.nan
            rows = [int(x) for x in rng.permutation(n)[:2]]
            Fn[rows[0], c], Fn[rows[1], c] = f + b, f - a
            Lab[rows[0], c], Lab[rows[1], c] = int(rng.random() < 0.5), int(rng.random() < 0.5)
            o_int = c
            o_list[k] = c
            kind = "valid"
    if not malformed and m >= 3 and rng.random() < 0.3:
        # deltaf decides which order qualifies: order c1 has one pole at distance dbig from its request, order c2 > c1 has all poles
        # very near; requested band 0.01 / 0.05 / 0.2 against dbig 0.015 / 0.1 (rtol chosen so that np.isclose is not the deciding test)
        freq = list(modes)
        rtol = float(rng.choice([1 / 16, 0.05]))
        deltaf = float(rng.choice([0.01, 0.05, 0.2]))
        dbig = float(rng.choice([0.015, 0.1]))
        c1 = int(rng.integers(0, m - 2))
        c2 = int(rng.integers(c1 + 1, m - 1))
        jb = int(rng.integers(0, nm))
        for c in range(m):
            col = Fn[:, c]
            for f in modes:
                col[np.abs(col - f) < 0.5] = np.nan
            Lab[np.isnan(col), c] = 0
            if c in (c1, c2) or rng.random() < 0.4:
                rows = [int(x) for x in rng.permutation(n)[:nm]]
                for j, f in enumerate(modes):
                    d = (dbig if j == jb else 0.002) if c == c1 else float(rng.choice([0.004, 0.002, 0.0]))
                    Fn[rows[j], c] = f + d * (1 if rng.random() < 0.5 else -1)
                    Lab[rows[j], c] = 1 if c in (c1, c2) else int(rng.random() < 0.5 and j > 0)
        o_int = c2
        o_list = [int(rng.choice([c1, c2])) for _ in freq]
    if rng.random() < 0.4:  # label codes beyond 0/1 (e.g. the 0..7 codes of the repo's own test data): only code 1 means stable
        codes = rng.integers(2, 8, size=Lab.shape)
        Lab = np.where((Lab == 0) & (rng.random(Lab.shape) < 0.6), codes, Lab)
    if malformed:
        kind = str(rng.choice(["unsorted", "overlap", "nan-column", "order-out-of-range", "short-list", "duplicate-request"]))
        if kind == "unsorted":
            freq = freq[::-1] if len(freq) > 1 else freq + [freq[0] - 1.0]
            o_list = [int(x) for x in rng.integers(0, m, size=len(freq))]
        elif kind == "overlap":
            rtol = 4.0
            deltaf = 4.0
        elif kind == "nan-column":
            Fn[:, o_int] = np.nan
            o_list[int(rng.integers(0, len(o_list)))] = o_int
        elif kind == "order-out-of-range":
            o_int = m + int(rng.integers(0, 2))
            o_list[int(rng.integers(0, len(o_list)))] = o_int
        elif kind == "short-list":
            o_list = o_list[:-1]
        elif kind == "duplicate-request":
            freq = sorted(freq + [freq[0]])
            o_list = [int(x) for x in rng.integers(0, m, size=len(freq))]
    return dict(kind=kind, Fn=tab_json(Fn), Lab=Lab.tolist(), freq=[float(f) for f in freq], rtol=rtol, deltaf=deltaf,
                o_int=o_int, o_list=o_list)


def gen_int_case(rng):
    """Integer-valued frequencies without NaN (so the table can also be stored as an integer array)."""
    modes = [2.0, 5.0, 9.0, 14.0][: int(rng.integers(2, 5))]
    m = int(rng.integers(2, 5))
    n = len(modes) + 1
    Fn = np.zeros((n, m))
    Lab = np.zeros((n, m), dtype=int)
    for c in range(m):
        vals = modes + [float(rng.choice([12.0, 7.0, 20.0, modes[0]]))]
        if rng.random() < 0.3:
            vals[int(rng.integers(0, len(modes)))] = 30.0  # a mode missing at this order
        perm = rng.permutation(n)
        for r, v in zip(perm, vals):
            Fn[r, c] = v
            Lab[r, c] = int(rng.random() < 0.4 + 0.6 * c / max(1, m - 1))
    freq = [f for f in modes if rng.random() < 0.8] or [modes[0]]
    return dict(kind="valid", present="int", Fn=tab_json(Fn), Lab=Lab.tolist(), freq=freq, rtol=0.05, deltaf=0.05,
                o_int=int(rng.integers(0, m)), o_list=[int(x) for x in rng.integers(0, m, size=len(freq))])


def in_domain(case):
    """ascending requests with non-overlapping tolerance bands (the property's quantifier)."""
    f = case["freq"]
    w = max(case["rtol"], case["deltaf"])
    return all(f[i] + w + (ATOL + case["rtol"] * abs(f[i])) < f[i + 1] - w - (ATOL + case["rtol"] * abs(f[i + 1])) for i in range(len(f) - 1))


# ------------------------------------------------------------------------------------------------------------
# calls on private copies (inputs must come back bit-identical) and call sequences on shared tables
def fresh(P):
    return {k: (None if v is None else np.array(v, copy=True)) for k, v in P.items()}


def changed(W, P):
    return [k for k in P if P[k] is not None and not (W[k] is not None and W[k].dtype == P[k].dtype and eqv(W[k], P[k]))]


F_FORMS = ("float", "np.float64", "0-d array")
I_FORMS = ("int", "np.int64", "np.int32", "np.arange element")


def as_float(x, form):
    return float(x) if form == "float" else np.float64(x) if form == "np.float64" else np.array(float(x))


def as_int(i, form):
    return int(i) if form == "int" else np.int64(i) if form == "np.int64" else np.int32(i) if form == "np.int32" else np.arange(int(i) + 1)[int(i)]


def present_args(rnd, freq, order, rtol, deltaf):
    """The same option values in the other forms the unchanged routines accept (established on the unchanged tree: requests as
    list / tuple / ndarray of float, np.float64 or 0-d arrays; tolerances as float, np.float64 or 0-d array; the entries of an order
    list as int, np.int64, np.int32 or np.arange elements; 'find_min' as str or np.str_.  A scalar order must be a Python int:
    NumPy integers are rejected by the unchanged code, so they are not part of the accepted forms)."""
    forms = [rnd.choice(F_FORMS) for _ in freq]
    cont = rnd.choice(["list", "tuple", "ndarray"])
    if cont == "ndarray":
        fr, forms = np.array([float(f) for f in freq]), ["ndarray"]
    else:
        fr = [as_float(f, fm) for f, fm in zip(freq, forms)]
        fr = tuple(fr) if cont == "tuple" else fr
    if isinstance(order, list):
        oforms = [rnd.choice(I_FORMS) for _ in order]
        od = [as_int(o, fm) for o, fm in zip(order, oforms)]
    elif order == "find_min":
        oforms = rnd.choice(["str", "np.str_"])
        od = "find_min" if oforms == "str" else np.str_("find_min")
    else:
        oforms, od = "int", order
    rf, dfm = rnd.choice(F_FORMS), rnd.choice(F_FORMS)
    return fr, od, as_float(rtol, rf), as_float(deltaf, dfm), dict(sel_freq=cont + " of " + "/".join(sorted(set(forms))), order=oforms, rtol=rf, deltaf=dfm)


def f32_exact(P, freq):
    """float32 storage is only presented when every frequency of the table, every request and the payload are exactly
    representable in float32 (then no decision can move: nothing is judged tighter than the narrower type allows)."""
    Fn = P["Fn"]
    v = Fn[~np.isnan(Fn)]
    X = np.asarray(P["Xi"], dtype=float)
    return (bool(np.all(v.astype(np.float32).astype(float) == v)) and all(float(np.float32(f)) == f for f in freq)
            and bool(np.all((X.astype(np.float32).astype(float) == X) | (X != X))))


def int_table(P):
    Fn = P["Fn"]
    return bool(not np.isnan(Fn).any() and np.all(Fn == np.round(Fn)) and Fn.min() >= 0 and Fn.max() < 60000)


def present_tables(W, kind, rnd):
    """Another storage of the same values: read-only arrays / float32+complex64 tables / another label dtype / integer frequencies."""
    how = "every array argument read-only (setflags(write=False))" if kind == "ro" else kind
    if kind == "ro":
        for v in W.values():
            if v is not None:
                v.setflags(write=False)
    elif kind == "f32":
        for k, v in list(W.items()):
            if v is None:
                continue
            W[k] = v.astype(np.float32) if v.dtype == np.float64 else v.astype(np.complex64) if v.dtype == np.complex128 else v.astype(np.int32)
        how = "float32 / complex64 tables, int32 labels"
    elif kind == "lab":
        L = W["Lab"]
        dts = [np.int8, np.uint8, np.int32, np.int64, np.float64, np.float32, np.uint16] + ([np.bool_] if set(np.unique(L)) <= {0, 1} else [])
        dt = dts[rnd.randrange(len(dts))]
        for k in ("Lab", "LabP"):
            if W.get(k) is not None:
                W[k] = W[k].astype(dt)
        how = "labels stored as %s" % np.dtype(dt).name
    elif kind == "int":
        dts = [np.int64, np.int32, np.uint16] + ([np.uint8] if W["Fn"].max() < 256 else [])
        dt = dts[rnd.randrange(len(dts))]
        W["Fn"] = W["Fn"].astype(dt)
        how = "integer-valued frequencies stored as %s" % np.dtype(dt).name
    return how


PRESENT_KEY = dict(ro="read-only-input", forms="option-form", f32="storage-dtype", lab="storage-dtype", int="storage-dtype", pos="positional-call")


def raw_call(routine, W, freq, order, cov, rtol, deltaf, formed=False):
    if formed:
        fr, od = freq, order
    else:
        fr = list(freq)
        od = list(order) if isinstance(order, list) else order
    if routine == "ssi":
        kw = dict(Lab=W["Lab"], rtol=rtol)
        if cov:
            kw.update(Fn_cov=W["Fn_cov"], Xi_cov=W["Xi_cov"], Phi_cov=W["Phi_cov"])
        out, err = call(ssi.SSI_mpe, fr, W["Fn"], W["Xi"], W["Phi"], od, **kw)
    else:
        out, err = call(plscf.pLSCF_mpe, fr, W["Fn"], W["Xi"], W["Phi"], od, Lab=W.get("LabP", W["Lab"]), deltaf=deltaf, rtol=rtol)
    args_changed = [] if formed else ([] if fr == list(freq) else ["sel_freq"]) + ([] if od == order else ["order"])
    return out, err, args_changed


def pos_call(routine, W, freq, order, cov, rtol, deltaf):
    """The same call made fully positionally, in the pristine parameter order."""
    fr = list(freq)
    od = list(order) if isinstance(order, list) else order
    if routine == "ssi":  # SSI_MPE_ORDER
        covs = (W["Fn_cov"], W["Xi_cov"], W["Phi_cov"]) if cov else (None, None, None)
        return call(ssi.SSI_mpe, fr, W["Fn"], W["Xi"], W["Phi"], od, W["Lab"], rtol, *covs)
    return call(plscf.pLSCF_mpe, fr, W["Fn"], W["Xi"], W["Phi"], od, W.get("LabP", W["Lab"]), deltaf, rtol)  # PLSCF_MPE_ORDER


def non_default(rtol, deltaf):
    """Tolerances that differ from every default of the signatures (0.05, 0.01) and from each other."""
    rt2 = rtol if rtol not in (0.05, 0.01) else 3 / 64
    df2 = deltaf if (deltaf not in (0.05, 0.01) and deltaf != rt2) else 0.07
    return rt2, df2


def same_out(a, b):
    (oa, ea), (ob, eb) = a, b
    if ea or eb:
        return ea == eb
    if len(oa) != len(ob):
        return False
    for x, y in zip(oa, ob):
        if (x is None) != (y is None):
            return False
        if x is not None and not eqv(np.asarray(x), np.asarray(y)):
            return False
    return True


def brief(o):
    out, err = o
    if err:
        return err
    return "Fn=%s Xi=%s order_out=%s" % (np.asarray(out[0]).tolist(), np.asarray(out[1]).tolist(), None if out[3] is None else np.asarray(out[3]).tolist())


class Runner:
    def __init__(self, ctx):
        self.ctx = ctx
        self.exprs = []
        self.meta = []
        self.lab7 = None
        self._specs = []

    def icall(self, site, routine, order, cov, P, freq, rtol, deltaf, case, lab=None, record=True):
        """One implementation call on private copies of every array argument; oracle clause: the arguments are unchanged."""
        Q = P if lab is None else dict(P, **{("LabP" if routine == "plscf" else "Lab"): lab})
        W = fresh(Q)
        out, err, ach = raw_call(routine, W, freq, order, cov, rtol, deltaf)
        ch = changed(W, Q) + ach
        if ch:
            self.ctx.fail("oracle", "%s(order=%s) modified its input %s in place (a later extraction on the same tables then sees other poles)"
                          % (site, order if not isinstance(order, list) else "list", ch), dict(case, site=site, order=order, mutated=ch),
                          key="C11:%s:input-mutated" % site)
        if record:
            self._specs.append((site, routine, order, cov, (out, err)))
        return out, err

    def variants(self, case, P, freq, rtol, deltaf):
        """Every entry point once more with the SAME values presented differently (read-only arrays, other option forms, other storage
        dtypes): the result must be the one obtained from the plain float64 / Python-scalar presentation (which the model and the oracle judge)."""
        rnd = self.ctx.rng
        kinds = ["ro", "ro", "forms", "forms", "lab", "pos", "pos"] + (["f32", "f32"] if f32_exact(P, freq) else []) + (["int", "int", "int"] if int_table(P) else [])
        forced = case.get("present")
        for site, routine, order, cov, ref in self._specs:
            kind = forced if forced in kinds else rnd.choice(kinds)
            W = fresh(P)
            how = present_tables(W, kind, rnd)
            if kind == "pos":
                # every argument by position (pristine order), tolerances away from every default; reference = the keyword call with those values
                rt2, df2 = non_default(rtol, deltaf)
                how = "every argument passed by position (rtol=%r, deltaf=%r)" % (rt2, df2)
                if (rt2, df2) != (rtol, deltaf):
                    ref = raw_call(routine, fresh(P), freq, order, cov, rt2, df2)[:2]
                out, err = pos_call(routine, W, freq, order, cov, rt2, df2)
                Fn0 = P["Fn"]
                cols = ([order] * len(freq)) if isinstance(order, int) else (order if isinstance(order, list) else None)
                if (cols is not None and len(cols) >= len(freq) and all(0 <= c < Fn0.shape[1] for c in cols[: len(freq)])
                        and case.get("kind", "valid") in ("valid", "corpus") and in_domain(dict(freq=freq, rtol=rt2, deltaf=df2))
                        and judged_explicit(Fn0, freq, cols[: len(freq)], rt2)):
                    self.report(site + ":positional", oracle_explicit(Fn0, P, freq, cols[: len(freq)], rt2, canon_impl(out, err, P, len(freq), cov)),
                                case, dict(order=order, call="positional", rtol_used=rt2))
            elif kind == "forms":
                fr, od, rt, df, how = present_args(rnd, freq, order, rtol, deltaf)
                out, err, _ = raw_call(routine, W, fr, od, cov, rt, df, formed=True)
            else:
                out, err, _ = raw_call(routine, W, freq, order, cov, rtol, deltaf)
            self.ctx.count(dict(case, site=site, order=order, cov=cov, presentation=str(how)), nontrivial=True)
            self.ctx.hist("presentation", kind)
            if kind == "forms" and err in ("TypeError", "ValueError") and ref[1] != err:
                # a NumPy scalar / 0-d array / nested-array form of a value refused by input validation while the plain Python form is accepted (or fails later, otherwise):
                # the property does not say which exotic spellings of a number must be accepted - only that an accepted one means the same
                self.ctx.hist("presentation", "forms: refused by input validation")
                self.ctx.not_judged += 1
            elif not same_out((out, err), ref):
                self.ctx.fail("oracle", "%s(order=%s) with %s returns %s; %s it returns %s"
                              % (site, order, how, (getattr(call, "last", err) if err else brief((out, err))),
                                 "called with keywords and the same values" if kind == "pos" else "with writable float64 tables and Python scalars", brief(ref)),
                              dict(case, site=site, order=order, presentation=how), key="C11:%s:%s" % (site, PRESENT_KEY[kind]))

    def sequences(self, case, P, freq, rtol, deltaf):
        """Several extractions on the SAME arrays: every call must return what it returns on fresh copies."""
        specs, self._specs = self._specs, []
        if not specs:
            return
        rnd = self.ctx.rng
        seq = specs[:]
        rnd.shuffle(seq)
        fm = [x for x in specs if x[2] == "find_min" and x[1] == "ssi"]
        if fm and rnd.random() < 0.6:
            seq = [fm[0]] + seq
        seq = seq + [rnd.choice(specs), rnd.choice(specs)]
        W = fresh(P)
        ro = rnd.random() < 0.5
        if ro:
            present_tables(W, "ro", rnd)
        done = ["(tables read-only)"] if ro else []
        for site, routine, order, cov, ref in seq:
            out, err, _ = raw_call(routine, W, freq, order, cov, rtol, deltaf)
            self.ctx.count(dict(case, site=site, order=order, cov=cov, after=[d for d in done]), nontrivial=True)
            self.ctx.hist("sequence", "call %d on the same tables" % min(len(done) + 1, 9))
            if not same_out((out, err), ref):
                self.ctx.fail("oracle", "%s(order=%s) after %s on the same tables returns %s; on fresh copies of the tables it returns %s"
                              % (site, order if not isinstance(order, list) else order, done, brief((out, err)), brief(ref)),
                              dict(case, site=site, order=order, calls_before=done), key="C11:%s:call-sequence" % site)
                break
            done.append("%s(%s)" % (site, order if not isinstance(order, list) else order))

    def report(self, site, res, case, extra=None):
        if res is None or res == "skip":
            return res
        what, detail = res
        self.ctx.fail("oracle", "%s: %s" % (site, detail), dict(case, site=site, **(extra or {})), key="C11:%s:%s" % (site, what))
        return res

    # -------- the Coq witness of C11_plscf_find_min_refuted replayed on the implementation
    def probe_lab7(self):
        Fn = nan_tab([[5.0, 5.0, 5.0], [None, 9.0, None]])
        Lab = np.array([[1, 1, 1], [0, 0, 0]])
        tabs = payload(2, 3)
        case = dict(kind="witness", Fn=tab_json(Fn), Lab=Lab.tolist(), freq=[5.0], rtol=0.01, deltaf=0.05)
        out, err = call(plscf.pLSCF_mpe, [5.0], Fn.copy(), tabs["Xi"].copy(), tabs["Phi"].copy(), "find_min", Lab=Lab.copy(), deltaf=0.05, rtol=0.01)
        impl = canon_impl(out, err, tabs, 1, False)
        res = oracle_findmin(Fn, Lab, 1, tabs, [5.0], 0.05, True, 0.01, impl)
        out7, err7 = call(plscf.pLSCF_mpe, [5.0], Fn.copy(), tabs["Xi"].copy(), tabs["Phi"].copy(), "find_min", Lab=np.where(Lab == 1, 7, Lab), deltaf=0.05, rtol=0.01)
        impl7 = canon_impl(out7, err7, tabs, 1, False)
        self.lab7 = bool(impl7[0] == "O" and impl7[1] == [(Fraction(5), frozenset([0]))] and impl7[2] == [0])
        self.ctx.count(case)
        self.ctx.extra["witness_replay"] = dict(labelled_0_1=repr(out if not err else err), stable_relabelled_7=repr(out7 if not err7 else err7),
                                                selects_label_7=self.lab7)
        if res not in (None, "skip"):
            blind = impl[0] == "O" and impl[3] is not None and len(impl[3]) == 0
            key = KNOWN_KEY if (self.lab7 and blind) else "C11:pLSCF_mpe:find_min:%s" % res[0]
            self.ctx.fail("oracle", "pLSCF_mpe find_min (witness of C11_plscf_find_min_refuted): %s" % res[1], case, key=key)

    # -------- one table through every entry point
    def add_case(self, case, src="gen"):
        ctx = self.ctx
        Fn = nan_tab(case["Fn"])
        Lab = np.array(case["Lab"], dtype=int)
        n, m = Fn.shape
        freq = [float(f) for f in case["freq"]]
        rtol, deltaf = float(case["rtol"]), float(case.get("deltaf", 0.05))
        tabs = payload(n, m)
        # label codes beyond 0/1 are legal input (stable = exactly 1).  pLSCF_mpe gets the same table with code 7 written as 6, because the
        # present pLSCF code reads 7 as "stable" (the known finding): its attribution must not depend on which other codes occur
        LabP = np.where(Lab == 7, 6, Lab)
        P = dict(tabs, Fn=Fn, Lab=Lab, LabP=LabP)  # pristine tables: the implementation only ever gets copies
        ctx.hist("label codes", "0/1 only" if set(np.unique(Lab)) <= {0, 1} else "0..7")
        self._specs = []
        dom = in_domain(dict(case, deltaf=deltaf)) and case.get("kind", "valid") in ("valid", "corpus")
        nontriv = bool(np.isnan(Fn).any() and n > 1 and m > 1)
        ctx.hist("kind", case.get("kind", "valid"))
        ctx.hist("shape", "%dx%d" % (n, m))
        ctx.hist("requests", len(freq))
        ctx.sample(case)
        let = "let Fn := %s in let Lab := %s in let LabP := %s in let Pay := id_tab %d %d in let fr := %s in let rt := %s in let df := %s in " % (
            coq_tab(Fn), coq_lab(Lab), coq_lab(np.where(Lab == 7, 6, Lab)), n, m, coq_freq(freq), coq_q(rtol), coq_q(deltaf))
        parts, metas = [], []
        # ---- explicit orders (the same model function for SSI_mpe and pLSCF_mpe)
        for oname in ("int", "list"):
            if oname == "int":
                order, cols = int(case["o_int"]), [int(case["o_int"])] * len(freq)
                parts.append("showRes (mpe_explicit Fn Pay fr (OInt %d%%nat) rt)" % order)
            else:
                order = [int(x) for x in case["o_list"]]
                cols = order[: len(freq)] + [None] * max(0, len(freq) - len(order))
                parts.append("showRes (mpe_explicit Fn Pay fr (OList %s) rt)" % coq_nats(order))
            jd = judged_explicit(Fn, freq, cols, rtol)
            runs = []
            for site, cov in (("SSI_mpe", False), ("SSI_mpe", True), ("pLSCF_mpe", False)):
                out, err = self.icall(site + (".cov" if cov else ""), "ssi" if site == "SSI_mpe" else "plscf", order, cov, P, freq, rtol, deltaf, case)
                impl = canon_impl(out, err, tabs, len(freq), cov)
                ctx.count(dict(case, site=site, order=order, cov=cov), nontrivial=nontriv)
                ctx.hist("order", "%s:%s" % (site, oname))
                if not jd:
                    ctx.not_judged += 1
                    continue
                if dom and all(c is not None and 0 <= c < m for c in cols):
                    r = self.report(site + (".cov" if cov else ""), oracle_explicit(Fn, tabs, freq, cols, rtol, impl), case, dict(order=order))
                    if r == "skip":
                        ctx.hist("oracle", "explicit:not-judged")
                    else:
                        ctx.hist("oracle", "explicit:judged")
                runs.append((site + (".cov" if cov else ""), impl, order))
            metas.append(("explicit", runs))
        # ---- find_min, SSI
        parts.append("showRes (ssi_mpe Fn Pay Lab fr FindMin rt)")
        jd = judged_findmin(Fn, Lab, 1, freq, rtol, False, rtol)
        runs = []
        for cov in (False, True):
            site = "SSI_mpe" + (".cov" if cov else "")
            out, err = self.icall(site, "ssi", "find_min", cov, P, freq, rtol, deltaf, case)
            impl = canon_impl(out, err, tabs, len(freq), cov)
            ctx.count(dict(case, site=site, order="find_min"), nontrivial=nontriv)
            ctx.hist("order", "SSI_mpe:find_min")
            if not jd:
                ctx.not_judged += 1
                continue
            if dom:
                r = self.report(site, oracle_findmin(Fn, Lab, 1, tabs, freq, rtol, False, rtol, impl), case, dict(order="find_min"))
                ctx.hist("oracle", "find_min:not-judged" if r == "skip" else "find_min:judged")
            if impl[0] == "O" and impl[2]:
                ctx.hist("find_min order_out", impl[2][0])
            elif impl[0] == "O":
                ctx.hist("find_min order_out", "none")
            runs.append((site, impl, "find_min"))
        metas.append(("ssi_find_min", runs))
        # ---- find_min, pLSCF: the present code (Lab == 7) on the table as labelled (0/1) and with stable relabelled 7
        parts.append("showPresent (plscf_find_min_present Fn Pay LabP fr df rt)")
        parts.append("showPresent (plscf_find_min_lab 1%Z Fn Pay LabP fr df rt)")
        jd = judged_findmin(Fn, LabP, 1, freq, deltaf, True, rtol)
        runs = []
        for lname, L in (("0/1", LabP), ("7", np.where(LabP == 1, 7, LabP))):
            out, err = self.icall("pLSCF_mpe", "plscf", "find_min", False, P, freq, rtol, deltaf, case, lab=(None if lname == "0/1" else L), record=(lname == "0/1"))
            ctx.count(dict(case, site="pLSCF_mpe", order="find_min", labels=lname), nontrivial=nontriv)
            ctx.hist("order", "pLSCF_mpe:find_min(labels %s)" % lname)
            if not jd:
                ctx.not_judged += 1
                runs.append(None)
                continue
            runs.append((out, err))
            if lname == "0/1" and dom:
                impl = canon_impl(out, err, tabs, len(freq), False)
                res = oracle_findmin(Fn, Lab, 1, tabs, freq, deltaf, True, rtol, impl, readings=PL_READ)
                if res not in (None, "skip"):
                    out0, err0 = self.icall("pLSCF_mpe", "plscf", "find_min", False, P, freq, rtol, deltaf, case, lab=np.zeros_like(Lab), record=False)
                    blind = (err is None and err0 is None and res[0] == "no-pole-returned"
                             and all(eqv(a, b) for a, b in zip(out[:3], out0[:3])) and canon_oo(out[3], 1) == canon_oo(out0[3], 1))
                    key = KNOWN_KEY if (self.lab7 and blind) else "C11:pLSCF_mpe:find_min:%s" % res[0]
                    ctx.fail("oracle", "pLSCF_mpe find_min: %s" % res[1], dict(case, site="pLSCF_mpe", order="find_min"), key=key)
                    ctx.hist("oracle", "plscf find_min:known-finding" if key == KNOWN_KEY else "plscf find_min:violation")
                else:
                    ctx.hist("oracle", "plscf find_min:" + ("not-judged" if res == "skip" else "holds (no qualifying order)"))
            if lname == "7" and dom:
                # stable written as 7 (what the present code reads): here the property text decides order and poles wherever the
                # recorded deviations of the present loop cannot interfere - in particular the REQUESTED band deltaf must be used
                impl = canon_impl(out, err, tabs, len(freq), False)
                res = oracle_findmin(Fn, L, 7, tabs, freq, deltaf, True, rtol, impl, readings=PL_READ, present_loop=True)
                ctx.hist("oracle", "plscf find_min (stable=7):" + ("not-judged" if res == "skip" else "judged"))
                ctx.hist("deltaf", deltaf)
                if res not in (None, "skip"):
                    ctx.fail("oracle", "pLSCF_mpe find_min (stable poles labelled 7, deltaf=%r): %s" % (deltaf, res[1]),
                             dict(case, site="pLSCF_mpe", order="find_min", labels="stable relabelled 7"), key="C11:pLSCF_mpe:find_min-label7:%s" % res[0])
        metas.append(("plscf_find_min", runs))
        # ---- the conforming pLSCF function against the oracle's expectation (ties the proved spec to the property text)
        parts.append("showRes (plscf_find_min_conforming Fn Pay LabP fr df rt)")
        exp = None
        if dom and jd:
            e = [oracle_findmin_expect(Fn, Lab, 1, freq, deltaf, True, rtol, rd) for rd in PL_READ]
            if all(x == e[0] for x in e):
                exp = e[0]
        metas.append(("conforming", exp))
        self.exprs.append(let + ' ++ "#" ++ '.join(parts))
        self.meta.append((case, tabs, metas, src))
        self.variants(case, P, freq, rtol, deltaf)
        self.sequences(case, P, freq, rtol, deltaf)

    # -------- compare with the model
    def finish(self):
        ctx = self.ctx
        res = ctx.coq_eval(HEADER, self.exprs, shard=max(20, len(self.exprs) // 12 + 1))
        for (case, tabs, metas, src), s in zip(self.meta, res):
            outs = s.split("#")
            m = tabs["Xi"].shape[1]
            nreq = len(case["freq"])
            k = 0
            for kind, runs in metas:
                if kind in ("explicit", "ssi_find_min"):
                    mod = parse_res(outs[k])
                    k += 1
                    for site, impl, order in runs:
                        self.cmp(site, order, mod, impl, case, nreq)
                elif kind == "plscf_find_min":
                    for (lname, runs_k) in zip(("0/1", "7"), runs):
                        mod = parse_present(outs[k])
                        k += 1
                        if runs_k is None:
                            continue
                        self.cmp_present(lname, mod, runs_k, tabs, case)
                else:
                    mod = parse_res(outs[k])
                    k += 1
                    if runs is not None and mod[0] == "O":
                        order, picks = runs
                        ok = (mod[2] == ([] if order is None else [order]) and len(mod[1]) == len(picks)
                              and all((i // m, i % m) in pk for (_, i), pk in zip(mod[1], picks)))
                        if not ok:
                            ctx.fail("correspondence", "harness self-check: NumPy oracle and plscf_find_min_conforming disagree (model %s, oracle %s)" % (mod[1:], runs),
                                     case, key="C11:selfcheck:oracle-vs-conforming-model")

    @staticmethod
    def exact_tie(case, ids, mi):
        """the implementation's cell(s) and the model's cell lie in the same order column and are EXACTLY equally far from a requested
        frequency (duplicate frequencies in a column, or one pole on either side of the request at the same distance)"""
        try:
            Fn = case["Fn"]
            m = len(Fn[0])
            col = mi % m
            fm = Fn[mi // m][col]
            if fm is None or not ids:
                return False
            for i in ids:
                i = int(i)
                if i % m != col:
                    return False
                fi = Fn[i // m][col]
                if fi is None:
                    return False
                if not (fi == fm or any(abs(fi - r) == abs(fm - r) for r in case.get("freq", []))):
                    return False
            return True
        except Exception:
            return False

    def cmp(self, site, order, mod, impl, case, nreq):
        ctx = self.ctx
        what = None
        if mod[0] == "E" or impl[0] == "E":
            if mod[0] != impl[0]:
                what = "model %s, implementation %s" % (mod[:2], impl[:2])
        else:
            mo = mod[2][:nreq] if isinstance(order, list) else mod[2]
            if impl[1] is not None and len(impl[1]) == len(mod[1]):
                pairs = []
                for (v, ids), (mv, mi) in zip(impl[1], mod[1]):
                    if (v != mv or mi not in ids) and self.exact_tie(case, ids, mi):
                        ctx.not_judged += 1   # two retained poles of the order exactly equally close: the property leaves the choice open
                        continue
                    pairs.append(((v, ids), (mv, mi)))
            else:
                pairs = None
            if pairs is None or any(v != mv or mi not in ids for (v, ids), (mv, mi) in pairs):
                what = "returned (frequency, cell) pairs differ: model %s, implementation %s" % (
                    [(str(v), i) for v, i in mod[1]], None if impl[1] is None else [(str(v), sorted(i)) for v, i in impl[1]])
            elif impl[2] != mo:
                what = "order_out differs: model %s, implementation %s" % (mo, impl[2])
        if what:
            ctx.fail("correspondence", "%s(order=%s) differs from the model: %s" % (site, order if not isinstance(order, list) else "list", what),
                     dict(case, site=site, order=order), key="C11:%s:corr-%s" % (site, "find_min" if order == "find_min" else "explicit"))

    def cmp_present(self, lname, mod, run, tabs, case):
        ctx = self.ctx
        out, err = run
        m = tabs["Xi"].shape[1]
        what = None
        if err or mod[0] == "E":
            if bool(err) != (mod[0] == "E"):
                what = "model %s, implementation %s" % (mod[:2], err or "returns")
        else:
            Fn, Xi, Phi, oo = out
            Fn = np.asarray(Fn).reshape(-1)
            Xi = np.asarray(Xi).reshape(-1)
            Phi = np.asarray(Phi)
            ids = []
            for j in range(len(Xi)):
                cells = locate(tabs, dict(Xi=Xi[j], Phi=Phi[:, j])) if Phi.ndim == 2 and Phi.shape[1] == len(Xi) else []
                ids.append(sorted(r * m + c for r, c in cells))
            got = ([fq(x) for x in Fn], ids, int(np.asarray(oo).reshape(-1)[0]) if np.asarray(oo).size else None)
            if got[0] != mod[1] or got[2] != mod[3] or len(ids) != len(mod[2]) or any(mi not in s_ for s_, mi in zip(ids, mod[2])):
                what = "model (Fn, cells, order_out) = %s, implementation %s" % (([str(x) for x in mod[1]], mod[2], mod[3]), ([str(x) for x in got[0]], got[1], got[2]))
        if what:
            ctx.fail("correspondence", "pLSCF_mpe(order=find_min, stable label %s) differs from the model of the present code: %s" % (lname, what),
                     dict(case, site="pLSCF_mpe", order="find_min", labels=lname), key="C11:pLSCF_mpe:corr-find_min")


# ------------------------------------------------------------------------------------------------------------
# class level: SSIcov / SSIdat / pLSCF .mpe through SingleSetup
def simulate(rng, nch=3, N=1500, fs=20.0):
    """Response of a 3-dof chain to white noise (modal superposition, exact discretisation per mode)."""
    fns = np.array([1.3, 3.1, 4.4]) * (1 + 0.05 * rng.standard_normal(3))
    xis = np.array([0.02, 0.015, 0.02])
    shapes = np.array([[0.33, 0.74, 0.59], [0.59, 0.33, -0.74], [0.74, -0.59, 0.33]]).T
    dt = 1 / fs
    y = np.zeros((N, nch))
    for k in range(3):
        w, z = 2 * np.pi * fns[k], xis[k]
        wd = w * np.sqrt(1 - z * z)
        lam = np.exp((-z * w + 1j * wd) * dt)
        u = rng.standard_normal(N)
        q = np.zeros(N, dtype=complex)
        for t in range(1, N):
            q[t] = lam * q[t - 1] + u[t]
        y += np.outer(q.imag, shapes[:, k])
    return y + 0.02 * rng.standard_normal((N, nch)) * y.std(), fns


class Capture:
    """Records what the class hands over to ssi.SSI_mpe / plscf.pLSCF_mpe (the module attributes the classes call through)."""

    def __init__(self):
        self.calls = []

    def __enter__(self):
        self.orig = (ssi.SSI_mpe, plscf.pLSCF_mpe)

        def w_ssi(*a, **k):
            self.calls.append(("ssi", a, k))
            return self.orig[0](*a, **k)

        def w_pl(*a, **k):
            self.calls.append(("plscf", a, k))
            return self.orig[1](*a, **k)

        ssi.SSI_mpe, plscf.pLSCF_mpe = w_ssi, w_pl
        return self

    def __exit__(self, *exc):
        ssi.SSI_mpe, plscf.pLSCF_mpe = self.orig
        return False

    def bound(self):
        """The single recorded call bound to the pristine parameter names; None when the hand-over could not be observed that way."""
        if len(self.calls) != 1:
            return None
        which, a, k = self.calls[0]
        names, defaults = (SSI_MPE_ORDER, SSI_MPE_DEFAULTS) if which == "ssi" else (PLSCF_MPE_ORDER, PLSCF_MPE_DEFAULTS)
        if len(a) > len(names) or any(x not in names for x in k) or any(x in names[: len(a)] for x in k):
            return None
        d = dict(defaults)
        d.update(zip(names, a))
        d.update(k)
        if any(x not in d for x in names):
            return None
        d["_routine"] = which
        return d


def coq_order(order):
    if isinstance(order, list):
        return "(Explicit (OList %s))" % coq_nats(order)
    if order == "find_min":
        return "FindMin"
    return "(Explicit (OInt %d%%nat))" % int(order)


def show_order(order):
    if isinstance(order, (list, tuple, np.ndarray)):
        return "L " + " ".join(str(int(x)) for x in order)
    if isinstance(order, str):
        return str(order)
    return "I %d" % int(order)


def fracs(txt):
    out = []
    for t in txt.split():
        n, d = t.split("/")
        out.append(Fraction(int(n), int(d)))
    return out


TAGS = (("Xi", 1), ("Phi", 2), ("Fn_cov", 3), ("Xi_cov", 4), ("Phi_cov", 5))


def slot_tag(x, tb, want):
    """Which of the object's moved tables sits in this argument slot (the expected one when it matches)."""
    if x is None:
        return "N"
    if tb.get(want) is not None and eqv(np.asarray(x), tb[want]):
        return str(dict(TAGS)[want])
    for k, t in TAGS:
        if tb.get(k) is not None and eqv(np.asarray(x), tb[k]):
            return str(t)
    return "?"


def shape_of(x, ref):
    a = np.asarray(x)
    return "%dx%d" % (a.shape[0], a.shape[1]) if (a.ndim == 2 and eqv(a.astype(float), np.asarray(ref, dtype=float))) else "?"


class ClassRunner(Runner):
    def run_classes(self):
        ctx = self.ctx
        rng = ctx.np_rng
        from pyoma2.algorithms import SSIcov, SSIcov_MS, SSIdat, SSIdat_MS, pLSCF, pLSCF_MS
        from pyoma2.setup import MultiSetup_PreGER, SingleSetup

        self.exprs2, self.meta2 = [], []

        nsets = ctx.n(1, 3)
        for s in range(nsets):
            data, fns = simulate(rng)
            data2, _ = simulate(rng)
            ss = SingleSetup(data, fs=20.0)
            ms = MultiSetup_PreGER(fs=20.0, ref_ind=[[0, 1], [0, 1]], datasets=[data, data2])
            # run parameter ordmin in {0, 2, 4, 6}: the tables keep ALL orders (ordmin only affects the labels), so result.order_out
            # is a column index of the full table whatever ordmin is
            om = [0, 2, 4, 6] if s % 2 == 0 else [4, 0, 6, 2]
            algs = [("SSIcov", ss, SSIcov(name="SSIcov", br=8, ordmax=10, ordmin=om[0]), om[0]),
                    ("SSIcov_unc", ss, SSIcov(name="SSIcov_unc", br=8, ordmax=10, ordmin=om[1], calc_unc=True, nb=6), om[1]),
                    ("SSIdat", ss, SSIdat(name="SSIdat", br=8, ordmax=10, ordmin=om[2]), om[2]),
                    ("SSIcov_MS", ms, SSIcov_MS(name="SSIcov_MS", br=8, ordmax=10, ordmin=om[3]), om[3]),
                    ("pLSCF", ss, pLSCF(name="pLSCF", ordmax=8, nxseg=256), 0),
                    ("SSIdat_MS", ms, SSIdat_MS(name="SSIdat_MS", br=6, ordmax=7, ordmin=om[1]), om[1]),
                    ("pLSCF_MS", ms, pLSCF_MS(name="pLSCF_MS", ordmax=6, nxseg=256), 0)]
            light = ("SSIdat_MS", "pLSCF_MS")  # the two remaining classes: fewer cases each (they inherit the same two methods)
            if s == 0:
                for k, cc in enumerate(self.class_corpus):
                    cls = dict(SSIcov=SSIcov, SSIdat=SSIdat, SSIcov_MS=SSIcov_MS, SSIdat_MS=SSIdat_MS, pLSCF=pLSCF, pLSCF_MS=pLSCF_MS)[cc["cls"]]
                    obj = (cls(name="corpus%d" % k, ordmax=8, nxseg=256) if cc["cls"].startswith("pLSCF")
                           else cls(name="corpus%d" % k, br=8, ordmax=10, ordmin=int(cc["ordmin"])))
                    algs.append(("%s" % cc["cls"], ms if cc["cls"].endswith("_MS") else ss, obj, int(cc["ordmin"]), cc))
            ss.add_algorithms(*[a[2] for a in algs if a[1] is ss])
            ms.add_algorithms(*[a[2] for a in algs if a[1] is ms])
            if s == 0:
                self.probe_setup_errors(ss, lambda: SSIcov(name="never run", br=8, ordmax=10), lambda: pLSCF(name="never run either", ordmax=8, nxseg=256))
            for ent in algs:
                name, setup, alg, ordmin = ent[:4]
                setup.run_by_name(alg.name)
                ctx.hist("class ordmin", "%s ordmin=%d" % (name, ordmin))
                is_ssi = not name.startswith("pLSCF")
                has_cov = name == "SSIcov_unc"
                if is_ssi and len(ent) == 4:
                    # the run parameter step does not take part in the extraction (the order handed over is a column index): any value
                    # recorded in the object must leave the answer where it is
                    alg.run_params.step = int(rng.choice([1, 2, 3]))
                    ctx.hist("class step", alg.run_params.step)
                if len(ent) == 5:  # corpus case: its table injected into a freshly run object with that ordmin
                    cc = ent[4]
                    Fn = nan_tab(cc["Fn"])
                    tb = payload(*Fn.shape)
                    tb.update(Fn=Fn, Lab=np.array(cc["Lab"], dtype=int), Fn_cov=None, Xi_cov=None, Phi_cov=None)
                    self.class_case(setup, name, alg, is_ssi, False, tb, dict(kind="corpus", freq=cc["freq"], rtol=cc["rtol"], o_int=cc["o_int"], o_list=cc["o_list"]),
                                    extra=dict(ordmin=ordmin, note=cc.get("note", "")))
                    continue
                real = self.tables_of(alg.result, has_cov)
                # (a) the algorithm's own tables; (b) synthetic tables put into the result object (exercises the glue with unique payloads)
                variants = [("own", real, has_cov)]
                for _ in range(ctx.n(2, 4) if name in light else ctx.n(3, 8)):
                    case = gen_case(rng, False)
                    Fn = nan_tab(case["Fn"])
                    tb = payload(*Fn.shape)
                    L = np.array(case["Lab"], dtype=int)
                    if not is_ssi:
                        L = np.where(L == 7, 6, L)  # see add_case: code 7 is what the present pLSCF code reads as stable
                    elif ordmin and rng.random() < 0.5:
                        L[:, :ordmin] = 0  # as a run with this ordmin would label: nothing stable below ordmin
                    tb.update(Fn=Fn, Lab=L)
                    # covariance tables in the result object of ANY SSI class (the method hands over whatever the object holds)
                    inj_cov = has_cov or (is_ssi and rng.random() < 0.5)
                    if not inj_cov:
                        tb.update(Fn_cov=None, Xi_cov=None, Phi_cov=None)
                    variants.append((case, tb, inj_cov))
                for tag, tb, has_cov in variants:
                    self.set_tables(alg.result, fresh(tb), is_ssi)
                    Fn, Lab = tb["Fn"], tb["Lab"]
                    n, m = Fn.shape
                    if tag == "own":
                        cols_ok = [c for c in range(m) if not np.all(np.isnan(Fn[:, c]))]
                        if not cols_ok:
                            ctx.note("class %s: the simulated run left no retained pole; own-table variant skipped" % name)
                            continue
                        reqs = []
                        for rep in range(ctx.n(1, 2) if name in light else ctx.n(3, 6)):
                            fr = sorted(float(f) for f in fns[: int(rng.integers(1, 4))] * (1 + 0.004 * rng.standard_normal()))
                            o_int = int(rng.choice(cols_ok))
                            o_list = [int(x) for x in rng.choice(cols_ok, size=len(fr))]
                            reqs.append(dict(kind="own", freq=fr, rtol=float(rng.choice([0.05, 0.02, 1 / 16])), o_int=o_int, o_list=o_list))
                    else:
                        reqs = [dict(kind="injected", freq=tag["freq"], rtol=tag["rtol"], o_int=tag["o_int"], o_list=tag["o_list"])]
                    for rq in reqs:
                        self.class_case(setup, name, alg, is_ssi, has_cov, tb, rq, extra=dict(ordmin=ordmin))

    @staticmethod
    def tables_of(res, has_cov):
        tb = dict(Fn=np.array(res.Fn_poles, dtype=float), Xi=np.array(res.Xi_poles), Phi=np.array(res.Phi_poles), Lab=np.array(res.Lab))
        tb["Lab"] = np.where(np.isnan(tb["Lab"].astype(float)), -1, tb["Lab"]).astype(int)
        if has_cov:
            tb.update(Fn_cov=np.array(res.Fn_poles_cov), Xi_cov=np.array(res.Xi_poles_cov), Phi_cov=np.array(res.Phi_poles_cov))
        else:
            tb.update(Fn_cov=None, Xi_cov=None, Phi_cov=None)
        return tb

    @staticmethod
    def set_tables(res, tb, is_ssi):
        res.Fn_poles, res.Xi_poles, res.Phi_poles, res.Lab = tb["Fn"], tb["Xi"], tb["Phi"], tb["Lab"]
        if is_ssi:
            res.Fn_poles_cov, res.Xi_poles_cov, res.Phi_poles_cov = tb["Fn_cov"], tb["Xi_cov"], tb["Phi_cov"]

    def class_case(self, ss, name, alg, is_ssi, has_cov, tb, rq, extra=None):
        ctx = self.ctx
        Fn, Lab = tb["Fn"], tb["Lab"]
        n, m = Fn.shape
        freq, rtol = rq["freq"], rq["rtol"]
        tabs = {k: v for k, v in tb.items() if k in ("Xi", "Phi", "Fn_cov", "Xi_cov", "Phi_cov") and v is not None}
        case = dict(kind="class-" + rq["kind"], cls=name, Fn=tab_json(Fn), Lab=Lab.tolist(), freq=freq, rtol=rtol,
                    o_int=rq["o_int"], o_list=rq["o_list"], deltaf=0.05, **(extra or {}))
        dom = in_domain(case)
        let = "let Fn := %s in let Lab := %s in let Pay := id_tab %d %d in let fr := %s in let rt := %s in let df := %s in " % (
            coq_tab(Fn), coq_lab(Lab), n, m, coq_freq(freq), coq_q(rtol), coq_q(0.05))
        parts, metas = [], []
        seq_specs = []
        for oname in ("int", "list", "find_min"):
            if oname == "int":
                order, cols = int(rq["o_int"]), [int(rq["o_int"])] * len(freq)
                expr = "showRes (mpe_explicit Fn Pay fr (OInt %d%%nat) rt)" % order
            elif oname == "list":
                order = [int(x) for x in rq["o_list"]]
                cols = order
                expr = "showRes (mpe_explicit Fn Pay fr (OList %s) rt)" % coq_nats(order)
            else:
                order, cols = "find_min", None
                expr = "showRes (ssi_mpe Fn Pay Lab fr FindMin rt)" if is_ssi else "showPresent (plscf_find_min_present Fn Pay Lab fr df rt)"
            self.set_tables(alg.result, fresh(tb), is_ssi)  # private copies of the result tables for this call
            rp0 = alg.run_params
            rp_pre = (int(rp0.ordmin), int(rp0.ordmax), int(getattr(rp0, "step", 1)))
            others = self.others_snapshot(ss, alg)
            with Capture() as cap:
                out, err = self.class_mpe(ss, alg.name, alg, is_ssi, freq, order, rtol)
            snap = None if err else self.snapshot(alg)
            moved = self.others_changed(ss, alg, others)
            if moved:
                ctx.fail("oracle", "setup.mpe(%r, order=%s) changed what is stored for OTHER algorithms of the setup: %s (their parameters are no longer those of their own extraction)"
                         % (alg.name, order if not isinstance(order, list) else "list", moved), dict(case, order=order, others=moved), key="C11:setup.mpe:other-algorithm-changed")
            ch = changed(self.cur_tables(alg.result, is_ssi), {k: v for k, v in tb.items() if is_ssi or not k.endswith("_cov")})
            if ch:
                ctx.fail("oracle", "%s.mpe(order=%s) modified the result tables %s in place (a later mpe on the same object then sees other poles)"
                         % (name, order if not isinstance(order, list) else "list", ch), dict(case, order=order, mutated=ch), key="C11:%s.mpe:input-mutated" % name)
            seq_specs.append((order, (out, err)))
            ctx.count(dict(case, order=order), nontrivial=True)
            ctx.hist("order", "%s.mpe:%s" % (name, oname))
            lv = 7 if (not is_ssi and (Lab == 7).any()) else 1  # pLSCF tables whose stable poles are written 7 (what the present routine reads)
            if oname == "find_min":
                jd = judged_findmin(Fn, Lab, lv, freq, rtol if is_ssi else 0.05, not is_ssi, rtol)
            else:
                jd = judged_explicit(Fn, freq, cols, rtol)
            # the class-level model (M_mpe_class): what is handed over to the routine, and the object after the call
            fnm = ("ssi_args", "ssi_class_mpe") if is_ssi else ("plscf_args", "plscf_class_mpe false")
            self.exprs2.append(let + "let T := mk_tables Fn Lab %d %d %s in let A := mk_algo T %d %d %d in " % ((n, m, "true" if has_cov else "false") + rp_pre)
                               + 'showArgs (%s T (a_rp A) fr %s rt) ++ "#" ++ showAlgo (%s A fr %s rt)' % (fnm[0], coq_order(order), fnm[1], coq_order(order)))
            self.meta2.append(dict(case=dict(case, order=order), name=name, is_ssi=is_ssi, tb=tb, order=order, bound=cap.bound(), ncalls=len(cap.calls),
                                   snap=snap, err=err, jd=jd, freq=freq, rtol=rtol))
            if not jd:
                ctx.not_judged += 1
                continue
            site = name + ".mpe"
            if not is_ssi and oname == "find_min":
                parts.append(expr)
                metas.append(("present", (out, err), order, site))
                if dom and lv == 7:
                    # the property text decides order and poles wherever the recorded deviations of the present loop cannot interfere; the
                    # band is the routine's default 0.05 (the class has no argument for it)
                    impl = canon_impl(out, err, tabs, len(freq), False)
                    res = oracle_findmin(Fn, Lab, 7, tabs, freq, 0.05, True, rtol, impl, readings=PL_READ, present_loop=True)
                    ctx.hist("oracle", "%s find_min (stable=7):%s" % (site, "not-judged" if res == "skip" else "judged"))
                    if res not in (None, "skip"):
                        ctx.fail("oracle", "%s find_min (stable poles labelled 7, search band 0.05): %s" % (site, res[1]), dict(case, order=order),
                                 key="C11:%s:find_min-label7:%s" % (site, res[0]))
                elif dom:
                    impl = canon_impl(out, err, tabs, len(freq), False)
                    res = oracle_findmin(Fn, Lab, 1, tabs, freq, 0.05, True, rtol, impl)
                    if res not in (None, "skip"):
                        blind = res[0] == "no-pole-returned"
                        key = KNOWN_KEY if (self.lab7 and blind) else "C11:%s:find_min:%s" % (site, res[0])
                        ctx.fail("oracle", "%s find_min: %s" % (site, res[1]), dict(case, order=order), key=key)
                continue
            impl = canon_impl(out, err, tabs, len(freq), has_cov)
            if is_ssi and not has_cov and not err and any(x is not None for x in out[4:7]):
                ctx.fail("oracle", "%s: covariances returned although none were computed" % site, dict(case, order=order), key="C11:%s:cov-from-nowhere" % site)
            if dom:
                if oname == "find_min":
                    self.report(site, oracle_findmin(Fn, Lab, 1, tabs, freq, rtol, False, rtol, impl), case, dict(order=order))
                else:
                    self.report(site, oracle_explicit(Fn, tabs, freq, cols, rtol, impl), case, dict(order=order))
            parts.append(expr)
            metas.append(("res", impl, order, site))
        if parts:
            self.exprs.append(let + ' ++ "#" ++ '.join(parts))
            self.meta.append((case, tabs, metas, "class"))
        # the same values presented differently (read-only result tables, other option forms, other storage dtypes)
        rnd = ctx.rng
        kinds = ["ro", "ro", "forms", "forms", "lab", "pos", "pos"] + (["f32", "f32"] if f32_exact(tb, freq) else [])
        for order, ref in seq_specs:
            kind = rnd.choice(kinds)
            W = fresh(tb)
            how = present_tables(W, kind, rnd)
            self.set_tables(alg.result, W, is_ssi)
            if kind == "pos":
                # CLASS_MPE_ORDER by position, through setup.mpe(name, ...) or the method itself; rtol away from the default
                rt2 = rtol if rtol != 0.05 else 3 / 64
                via = rnd.choice(["setup.mpe(name, sel_freq, order, rtol)", "algorithm.mpe(sel_freq, order, rtol)"])
                how = "every argument passed by position: %s, rtol=%r" % (via, rt2)
                if rt2 != rtol:
                    ref = self.class_mpe(ss, alg.name, alg, is_ssi, freq, order, rt2)
                    self.set_tables(alg.result, fresh(tb), is_ssi)
                od = list(order) if isinstance(order, list) else order
                _, perr = call(ss.mpe, alg.name, list(freq), od, rt2) if via.startswith("setup") else call(alg.mpe, list(freq), od, rt2)
                r = alg.result
                got = (None if perr else ((r.Fn, r.Xi, r.Phi, r.order_out, r.Fn_cov, r.Xi_cov, r.Phi_cov) if is_ssi else (r.Fn, r.Xi, r.Phi, r.order_out)), perr)
                rp = alg.run_params
                if not perr and not (rp.sel_freq is not None and list(rp.sel_freq) == list(freq) and show_order(rp.order_in) == show_order(order) and rp.rtol == rt2):
                    ctx.fail("oracle", "%s.mpe called by position (%s) records sel_freq=%r order_in=%r rtol=%r for the request sel_freq=%r order=%r rtol=%r"
                             % (name, via, rp.sel_freq, rp.order_in, rp.rtol, freq, order, rt2), dict(case, order=order, presentation=how), key="C11:%s.mpe:positional-call" % name)
                if isinstance(order, (int, list)) and rt2 != rtol and dom and judged_explicit(Fn, freq, [order] * len(freq) if isinstance(order, int) else order, rt2):
                    cols = [order] * len(freq) if isinstance(order, int) else order
                    self.report(name + ".mpe:positional", oracle_explicit(Fn, tabs, freq, cols, rt2, canon_impl(got[0], perr, tabs, len(freq), has_cov)), case, dict(order=order, call=how))
            elif kind == "forms":
                fr, od, rt, _, how = present_args(rnd, freq, order, rtol, 0.05)
                got = self.class_mpe(ss, alg.name, alg, is_ssi, fr, od, rt, formed=True)
            else:
                got = self.class_mpe(ss, alg.name, alg, is_ssi, freq, order, rtol)
            ctx.count(dict(case, order=order, presentation=str(how)), nontrivial=True)
            ctx.hist("presentation", "%s (class)" % kind)
            if kind == "forms" and got[1] in ("TypeError", "ValueError", "ValidationError") and ref[1] != got[1]:
                ctx.hist("presentation", "forms (class): refused by input validation")
                ctx.not_judged += 1
            elif not same_out(got, ref):
                ctx.fail("oracle", "%s.mpe(order=%s) with %s returns %s; %s it returns %s"
                         % (name, order, how, (getattr(call, "last", got[1]) if got[1] else brief(got)),
                            "called with keywords and the same values" if kind == "pos" else "with writable float64 tables and Python scalars", brief(ref)),
                         dict(case, order=order, presentation=how), key="C11:%s.mpe:%s" % (name, PRESENT_KEY[kind]))
        # several mpe calls on the SAME algorithm object / result tables: each must return what it returns on fresh tables
        seq = seq_specs[:]
        rnd.shuffle(seq)
        if rnd.random() < 0.6:
            seq = [x for x in seq_specs if x[0] == "find_min"] + seq
        seq = seq + [rnd.choice(seq_specs)]
        W = fresh(tb)
        ro = rnd.random() < 0.5
        if ro:
            present_tables(W, "ro", rnd)
        self.set_tables(alg.result, W, is_ssi)
        done = ["(result tables read-only)"] if ro else []
        for order, ref in seq:
            got = self.class_mpe(ss, alg.name, alg, is_ssi, freq, order, rtol)
            ctx.count(dict(case, order=order, after=list(done)), nontrivial=True)
            ctx.hist("sequence", "%s.mpe call %d on the same object" % (name, min(len(done) + 1, 9)))
            if not same_out(got, ref):
                ctx.fail("oracle", "%s.mpe(order=%s) after %s on the same object returns %s; with fresh result tables it returns %s"
                         % (name, order, done, brief(got), brief(ref)), dict(case, order=order, calls_before=done), key="C11:%s.mpe:call-sequence" % name)
                break
            done.append("mpe(%s)" % (order,))

    @staticmethod
    def class_mpe(ss, name, alg, is_ssi, freq, order, rtol, formed=False):
        if formed:
            _, err = call(ss.mpe, name, sel_freq=freq, order=order, rtol=rtol)
        else:
            _, err = call(ss.mpe, name, sel_freq=list(freq), order=(list(order) if isinstance(order, list) else order), rtol=rtol)
        r = alg.result
        out = None if err else ((r.Fn, r.Xi, r.Phi, r.order_out, r.Fn_cov, r.Xi_cov, r.Phi_cov) if is_ssi else (r.Fn, r.Xi, r.Phi, r.order_out))
        return out, err

    STORED = ("Fn", "Xi", "Phi", "order_out", "Fn_cov", "Xi_cov", "Phi_cov")

    @staticmethod
    def snapshot(alg):
        rp, r = alg.run_params, alg.result
        d = dict(sel_freq=rp.sel_freq, order_in=rp.order_in, rtol=rp.rtol, ordmin=rp.ordmin, ordmax=rp.ordmax, step=getattr(rp, "step", 1))
        d.update({k: getattr(r, k, None) for k in ClassRunner.STORED})
        return d

    @staticmethod
    def others_snapshot(setup, alg):
        out = {}
        for nm, a in getattr(setup, "algorithms", {}).items():
            if a is alg or getattr(a, "result", None) is None:
                continue
            r, rp = a.result, a.run_params
            out[nm] = ([None if getattr(r, k, None) is None else np.array(getattr(r, k), copy=True) for k in ClassRunner.STORED],
                       (repr(rp.sel_freq), repr(rp.order_in), repr(rp.rtol)))
        return out

    @staticmethod
    def others_changed(setup, alg, before):
        moved = []
        for nm, (vals, rps) in before.items():
            a = setup.algorithms.get(nm)
            if a is None or a.result is None:
                moved.append(nm)
                continue
            r, rp = a.result, a.run_params
            for k, v in zip(ClassRunner.STORED, vals):
                w = getattr(r, k, None)
                if (v is None) != (w is None) or (v is not None and not eqv(np.asarray(w), v)):
                    moved.append("%s.result.%s" % (nm, k))
            if (repr(rp.sel_freq), repr(rp.order_in), repr(rp.rtol)) != rps:
                moved.append("%s.run_params" % nm)
        return moved

    def probe_setup_errors(self, ss, make_ssi, make_pl):
        """An algorithm that has not been run, and a name the setup does not know: mpe must refuse (model: NotRun / NoAlg), store nothing."""
        ctx = self.ctx
        for tag, alg, fn in (("SSIcov", make_ssi(), "ssi_class_mpe"), ("pLSCF", make_pl(), "plscf_class_mpe false")):
            ss.add_algorithms(alg)
            for form, od in (("int", 0), ("find_min", "find_min")):
                _, err = call(ss.mpe, alg.name, sel_freq=[1.0], order=od, rtol=0.02)
                case = dict(kind="class-not-run", cls=tag, order=od)
                ctx.count(case, nontrivial=False)
                self.exprs2.append("showAlgo (%s (@Build_algo Z Z Z Z Z (a_rp (mk_algo (mk_tables [] [] 0 0 false) 0 10 1)) None None) [Qm 1 1] %s (Qm 1 50))" % (fn, coq_order(od)))
                self.meta2.append(dict(case=case, name=tag, probe="not-run", err=err, stored=alg.result is not None and getattr(alg.result, "Fn", None) is not None))
        _, err = call(ss.mpe, "no algorithm of this name", sel_freq=[1.0], order=0, rtol=0.02)
        case = dict(kind="class-unknown-name")
        ctx.count(case, nontrivial=False)
        self.exprs2.append('let A := mk_algo (mk_tables [[sq 1 1]] [[1%Z]] 1 1 false) 0 10 1 in match setup_mpe false [("a"%string, ASsi A); ("b"%string, APl A)] '
                           '"c"%string [Qm 1 1] (Explicit (OInt 0%nat)) (Qm 1 50) with COk _ => "O" | CErr e => "E " ++ showCerr e end')
        self.meta2.append(dict(case=case, name="setup", probe="unknown-name", err=err, stored=False))

    def cmp_class_model(self, meta, s):
        ctx = self.ctx
        case, name = meta["case"], meta["name"]
        if "probe" in meta:
            if not s.startswith("E ") or not meta["err"] or meta["stored"]:
                ctx.fail("correspondence", "%s: mpe on %s: model %r, implementation %s" % (name, meta["probe"], s, meta["err"] or "returns"), case,
                         key="C11:%s.mpe:corr-%s" % (name, meta["probe"]))
            return
        a_str, o_str = s.split("#")
        tb, order, b, snap, err, freq = meta["tb"], meta["order"], meta["bound"], meta["snap"], meta["err"], meta["freq"]
        is_ssi = meta["is_ssi"]
        # ---- the hand-over
        if b is None:
            ctx.hist("hand-over", "not observed (%d calls recorded at the module attributes)" % meta["ncalls"])
        else:
            ctx.hist("hand-over", "observed")
            fr_m, ord_m, rt_m, df_m, tags_m, shp_m = a_str.split("|")
            try:
                got_fr = [fq(float(x)) for x in b["freq_ref" if b["_routine"] == "ssi" else "sel_freq"]]
            except Exception:  # noqa: BLE001
                got_fr = None
            covs = [b.get(k) for k in ("Fn_cov", "Xi_cov", "Phi_cov")] if b["_routine"] == "ssi" else [None, None, None]
            tags = "%s %s %s" % (slot_tag(b["Xi_pol"], tb, "Xi"), slot_tag(b["Phi_pol"], tb, "Phi"),
                                 "N" if all(c is None for c in covs) else " ".join(slot_tag(c, tb, k) for c, k in zip(covs, ("Fn_cov", "Xi_cov", "Phi_cov"))))
            shp = "%s %s" % (shape_of(b["Fn_pol"], tb["Fn"]), "?" if b["Lab"] is None else shape_of(b["Lab"], tb["Lab"]))
            bad = []
            if got_fr != fracs(fr_m):
                bad.append("requests %r" % (b.get("freq_ref", b.get("sel_freq")),))
            if show_order(b["order"]) != ord_m:
                bad.append("order %r (model: %s)" % (b["order"], ord_m))
            if float(b["rtol"]) != float(fracs(rt_m)[0]):
                bad.append("rtol %r (model: %s)" % (b["rtol"], rt_m))
            if b["_routine"] == "plscf" and float(b["deltaf"]) != float(fracs(df_m)[0]):
                bad.append("deltaf %r (model: %s)" % (b["deltaf"], df_m))
            if tags != tags_m:
                bad.append("moved tables in the slots (Xi, Phi, Fn_cov, Xi_cov, Phi_cov) are %s (model: %s; 1..5 = the object's Xi_poles, Phi_poles, Fn_poles_cov, Xi_poles_cov, Phi_poles_cov)" % (tags, tags_m))
            if shp != shp_m:
                bad.append("Fn_pol / Lab are not the object's Fn_poles / Lab (%s, model %s)" % (shp, shp_m))
            if (b["_routine"] == "ssi") != is_ssi:
                bad.append("routine %s" % b["_routine"])
            if bad:
                ctx.fail("correspondence", "%s.mpe(order=%s) hands over to the extraction routine something else than the class-level model: %s"
                         % (name, order if not isinstance(order, list) else "list", "; ".join(bad)), case, key="C11:%s.mpe:corr-hand-over" % name)
        # ---- the object after the call
        if not meta["jd"]:
            return
        if o_str.startswith("E ") or err:
            if o_str.startswith("E ") != bool(err):
                ctx.fail("correspondence", "%s.mpe(order=%s): class-level model %s, implementation %s" % (name, order, o_str[:40], err or "returns"), case,
                         key="C11:%s.mpe:corr-stored" % name)
            return
        sel_m, oin_m, rt_m, rp_m, Fn_m, Xi_m, Phi_m, oo_m, cov_m = o_str[2:].split("|")
        bad = []
        try:
            if snap["sel_freq"] is None or [fq(float(x)) for x in snap["sel_freq"]] != fracs(sel_m):
                bad.append("run_params.sel_freq=%r" % (snap["sel_freq"],))
            if show_order(snap["order_in"]) != oin_m:
                bad.append("run_params.order_in=%r" % (snap["order_in"],))
            if float(snap["rtol"]) != float(fracs(rt_m)[0]):
                bad.append("run_params.rtol=%r" % (snap["rtol"],))
            if "%d %d %d" % (snap["ordmin"], snap["ordmax"], snap["step"]) != rp_m:
                bad.append("run_params ordmin/ordmax/step=%r (before the call %s)" % ((snap["ordmin"], snap["ordmax"], snap["step"]), rp_m))
            FnS = np.asarray(snap["Fn"], dtype=float).reshape(-1)
            if [None if x != x else fq(x) for x in FnS] != fracs(Fn_m):
                bad.append("result.Fn=%s (model %s)" % (FnS.tolist(), Fn_m))
            for fld, key, tag, vec, txt in (("Xi", "Xi", 1, False, Xi_m), ("Phi", "Phi", 2, True, Phi_m)):
                if not self.field_ok(txt, snap[fld], tb[key], tag, vec, tb.get("Fn"), freq):
                    bad.append("result.%s is not the content of the cells %s of %s_poles" % (fld, [int(x) % 1000 for x in txt.split()], fld))
            oo_mod = [] if oo_m == "N" else [int(oo_m[2:])] if oo_m.startswith("I ") else [int(x) for x in oo_m[1:].split()]
            if isinstance(order, list):
                oo_mod = oo_mod[: len(freq)]
            if canon_oo(snap["order_out"], len(freq)) != oo_mod:
                bad.append("result.order_out=%r (model %s)" % (snap["order_out"], oo_m))
            cv = [snap["Fn_cov"], snap["Xi_cov"], snap["Phi_cov"]]
            if cov_m == "N":
                if any(c is not None for c in cv):
                    bad.append("covariances stored although the object has no covariance tables")
            else:
                for c, key, tag, vec, txt in zip(cv, ("Fn_cov", "Xi_cov", "Phi_cov"), (3, 4, 5), (False, False, True), cov_m.split(";")):
                    if c is None or tb.get(key) is None or not self.field_ok(txt, c, tb[key], tag, vec, tb.get("Fn"), freq):
                        bad.append("result.%s is not the content of the cells %s of %s" % (key, [int(x) % 1000 for x in txt.split()], key.replace("_cov", "_poles_cov")))
        except Exception as e:  # noqa: BLE001
            bad.append("stored object could not be read: %s: %s" % (type(e).__name__, str(e)[:120]))
        if bad:
            ctx.fail("correspondence", "%s.mpe(order=%s): the object after the call differs from the class-level model: %s"
                     % (name, order if not isinstance(order, list) else "list", "; ".join(bad)), case, key="C11:%s.mpe:corr-stored" % name)

    @staticmethod
    def field_ok(txt, arr, table, tag, vec, Fn=None, freq=()):
        """the stored values are the content of the model's cells - or, where two retained poles of the order are EXACTLY equally close to a
        request (duplicate frequencies in a column, equal distances on either side), of the other such cell: the property leaves that choice open"""
        ids = [int(x) for x in txt.split()]
        a = np.asarray(arr)
        if vec:
            if a.size == 0:
                comps = []
            elif a.ndim != 2:
                return False
            else:
                comps = [a[:, j] for j in range(a.shape[1])]
        else:
            comps = list(a.reshape(-1))
        if len(comps) != len(ids):
            return False
        n, m = table.shape[:2]
        for v, i in zip(comps, ids):
            r, c = divmod(i % 1000, m)
            if i // 1000 != tag or r >= n:
                return False
            if eqv(table[r, c], v):
                continue
            alt = False
            if Fn is not None and np.shape(Fn)[:2] == (n, m) and Fn[r, c] == Fn[r, c]:
                for r2 in range(n):
                    f2, f1 = Fn[r2, c], Fn[r, c]
                    if r2 != r and f2 == f2 and (f2 == f1 or any(abs(float(f2) - float(q)) == abs(float(f1) - float(q)) for q in freq)) and eqv(table[r2, c], v):
                        alt = True
                        break
            if not alt:
                return False
        return True

    @staticmethod
    def cur_tables(res, is_ssi):
        d = dict(Fn=res.Fn_poles, Xi=res.Xi_poles, Phi=res.Phi_poles, Lab=res.Lab)
        if is_ssi:
            d.update(Fn_cov=res.Fn_poles_cov, Xi_cov=res.Xi_poles_cov, Phi_cov=res.Phi_poles_cov)
        return {k: (None if v is None else np.asarray(v)) for k, v in d.items()}

    def finish_classes(self):
        ctx = self.ctx
        # one wave of coqc runs for both the function-level expressions of the class cases and the class-level model
        allx = self.exprs + self.exprs2
        res = ctx.coq_eval(HEADER_CLASS, allx, shard=max(6, len(allx) // 12 + 1))
        res, res2 = res[: len(self.exprs)], res[len(self.exprs):]
        for (case, tabs, metas, _), s in zip(self.meta, res):
            outs = s.split("#")
            for (kind, impl, order, site), o in zip(metas, outs):
                if kind == "res":
                    self.cmp(site, order, parse_res(o), impl, case, len(case["freq"]))
                else:
                    self.cmp_present("0/1 (%s)" % site, parse_present(o), impl, tabs, case)
        for meta, s in zip(self.meta2, res2):
            self.cmp_class_model(meta, s)


# ------------------------------------------------------------------------------------------------------------
def run(ctx):
    ctx.extra["rule"] = (
        "random pole tables n x m (n != m, rows permuted per order) with modes missing at some orders, spurious and duplicated poles, "
        "a second pole inside a band, NaN elsewhere, stability growing with the order; requests on/near/between modes; rtol and deltaf "
        "dyadic and decimal; poles placed inside, exactly on, between and outside the tolerances; ~15 % malformed stream (unsorted, "
        "overlapping bands, all-NaN order, order out of range, short order list, duplicated request). Each table goes through SSI_mpe "
        "(with/without covariances) and pLSCF_mpe for order=int, list, 'find_min' (pLSCF find_min with stable label 1 and relabelled 7). "
        "A case is non-trivial when the table has NaNs and more than one row and order; distinct by hash of (table, requests, entry point, order). "
        "Class level: seven classes through setup.mpe on their own tables and on injected tables (covariance tables in any SSI class, run parameters "
        "ordmin in {0,2,4,6} and step in {1,2,3}), hand-over and stored object compared with the class-level model; positional call forms of every entry point.")
    ctx.assumptions += [
        "np.isclose(a,b,rtol) is |a-b| <= 1e-8 + rtol|b| and np.nanargmin returns the first index of the minimum (modelled; cases whose float and exact decisions differ are not judged)",
        "np.unique returns the ascending distinct values (modelled by uniq_sorted)",
        "the moved tables (Xi, Phi, covariances) are one opaque payload per cell in the model; the harness traces every returned component back to its cell",
        "the classes call the extraction routines through the module attributes ssi.SSI_mpe / plscf.pLSCF_mpe (where the harness records the hand-over; if a class reaches them another way the hand-over is reported as not observed and only the stored object is compared)",
        "oracle for 'find_min' judges a table only when the readings of 'within tolerance' (np.isclose alone / search band and isclose / exactly one in the band) agree",
    ]
    R = Runner(ctx)
    R.probe_lab7()
    if ctx.replay:  # --replay file: only the table of that replay, through every entry point
        case = json.load(open(ctx.replay)).get("case") or {}
        if "Fn" in case and "o_int" in case:
            case = {k: v for k, v in case.items() if k not in ("site", "order", "labels", "cov", "cls")}
            case["kind"] = "corpus" if str(case.get("kind", "")).startswith(("valid", "corpus", "class")) else case.get("kind")
            R.add_case(case, src="replay")
        R.finish()
        return
    # corpus first (failing inputs of repaired defects)
    class_corpus = []
    skip_corpus = os.environ.get("VERIF_C11_SKIP_CORPUS") == "1"  # testing aid only: shows what the generator alone finds
    for path in ([] if skip_corpus else sorted(glob.glob(os.path.join(VERIF, "corpus", "C11", "*.json")))):
        case = json.load(open(path))
        case.setdefault("kind", "corpus")
        if "cls" in case:  # class-level corpus case: run by the ClassRunner below
            class_corpus.append(case)
            continue
        R.add_case(case, src=os.path.basename(path))
    for k in range(ctx.n(130, 1500)):
        R.add_case(gen_case(ctx.np_rng, malformed=(k % 7 == 3)))
    for k in range(ctx.n(4, 40)):
        R.add_case(gen_int_case(ctx.np_rng))
    R.finish()
    C = ClassRunner(ctx)
    C.lab7 = R.lab7
    C.class_corpus = class_corpus
    C.run_classes()
    C.finish_classes()
