"""C07 - EFDD / FSDD on an exact SDOF spectral bell.  Model: coq/Model/M_efdd.v; theorems: coq/Properties/C07.v.

Correspondence
  A. fdd.SDOF_bellandMS against (i) the closed form of theorem C07_bell_rank_one on analytic rank-one-plus-floor
     spectra and (ii) the Gallina model sdof_bell_l evaluated at Qc (band by nearest lines, MAC filter, sigma / phi^H Sy phi,
     close modes) on rank-one and on two-mode complex Hermitian spectra, with the SVD as a witness input obtained by the
     harness from numpy.linalg.svd (never from pyoma2).
  B. fdd.EFDD_mpe (PerPlot: bell, normalised correlation, extremum indices, delta, lam; Fn, Xi) against the Gallina model
     efdd_time evaluated at Qc on the correlation the harness computes itself (np.fft.ifft of the closed-form bell),
     through the transcendental boundary (log arguments, xi^2, fn^2).
  C. EFDD / FSDD classes with an injected exact Sy: result.{Fn,Xi,Phi,forPlot} = what fdd.EFDD_mpe returns for that Sy; the
     documented positional call forms mpe(sel_freq, DF1, DF2, cm, MAClim, sppk, npmax) give the keyword call's result.
  D. WHICH SVD (theorems C07_bell_svd_independent, C07_bell_rephase_invariant, C07_shape_mac_one): numpy.linalg.svd is made to
     answer with ANOTHER triple meeting its contract (unit-modulus factors on the columns of U and V; a unitary turn inside the
     degenerate floor subspace of a rank-one-plus-floor line) - fdd.SDOF_bellandMS and fdd.EFDD_mpe must return the same bell /
     Fn / Xi / Phi (1e-9) and stay inside the envelope; the Gallina model evaluated on the rephased stored vectors
     (sdof_bell_zt, exact unit-modulus rationals) must print the very same string.
Oracle (property text, NumPy only): over the stated envelope MAC >= 0.999, |fn err| <= 2.5 %, |xi err| <= 15 %, and
  Sy -> c*Sy leaves Fn, Xi unchanged to 1e-9, both methods.
"""
import glob
import json
import math
import os
from fractions import Fraction

import numpy as np

from common import VERIF, parse_q, parse_row, qc
from pyoma2.functions import fdd

HEADER = "From PyOMA.Base Require Import Cplx.\nFrom PyOMA.Model Require Import M_efdd M_efdd_svd."
TOL = 1e-9


# ----------------------------------------------------------------------------------------------------------------------
# the analytic spectral density of the property (independent of pyoma2)
# ----------------------------------------------------------------------------------------------------------------------
def sdof_psd(f, fn, xi):
    """|H(f)|^2 of one mode: displacement response of m x'' + c x' + k x to white noise, up to a constant."""
    return 1.0 / ((fn**2 - f**2) ** 2 + (2.0 * xi * fn * f) ** 2)


def build_sy(fs, nxseg, fn, xi, phi, eps_rel, gain):
    """Periodogram-convention (one-sided grid k*fs/nxseg, k = 0..nxseg/2) spectral matrix:
    gain * ( s(f)/max s * phi phi^T + eps_rel * I )."""
    Nf = nxseg // 2 + 1
    f = np.arange(Nf) * fs / nxseg
    s = sdof_psd(f, fn, xi)
    s = s / s.max()
    phi = np.asarray(phi, float)
    Sy = gain * (s[None, None, :] * np.outer(phi, phi)[:, :, None] + eps_rel * np.eye(len(phi))[:, :, None])
    return f, Sy, gain * s, gain * eps_rel


def mac(a, b):
    a = np.asarray(a).ravel()
    b = np.asarray(b).ravel()
    return float(abs(np.vdot(a, b)) ** 2 / (np.vdot(a, a).real * np.vdot(b, b).real))


def in_envelope(fs, nxseg, fn, xi, DF2):
    bw = 2 * xi * fn
    return (0.04 * fs <= fn <= 0.25 * fs and 0.02 <= xi <= 0.05 and 1024 <= nxseg <= 8192
            and bw >= 4 * fs / nxseg and fn * (nxseg / 2) / fs >= 30 and DF2 >= 4 * bw)


def gen_envelope(rng, big):
    """A point of the property's quantifier."""
    while True:
        if big:
            nxseg = int(rng.choice([1024, 1025, 1536, 2000, 2048, 3000, 4000, 4096, 6000, 8000, 8192]))
        else:
            nxseg = int(rng.choice([1024, 1536, 2000, 2048, 2600, 4000, 4096]))
        fs = float(rng.choice([0.05, 0.2, 1.0, 12.5, 50.0, 100.0, 256.0, 1000.0, 4096.0, 5000.0, 1e5]))
        fn_r = float(rng.uniform(0.04, 0.25))
        xi = float(rng.uniform(0.02, 0.05))
        if 2 * xi * fn_r * nxseg >= 4.02 and fn_r * nxseg / 2 >= 30.2:
            break
    fn = fn_r * fs
    nch = int(rng.integers(2, 7))
    phi = np.round(rng.uniform(-1, 1, nch) * 64) / 64
    top = int(rng.integers(nch))
    phi[top] = float(rng.choice([1.0, -1.0]))
    r = rng.random()
    if r < 0.25:  # nodes: exact zeros at some sensors (never at the largest component)
        for i in rng.choice([i for i in range(nch) if i != top], size=int(rng.integers(1, nch)), replace=False):
            phi[int(i)] = 0.0
    elif r < 0.4:  # equal magnitudes, arbitrary sign pattern
        phi = rng.choice([1.0, -1.0], size=nch)
    bw = 2 * xi * fn
    return dict(kind="envelope", fs=fs, nxseg=nxseg, fn=fn, xi=xi, phi=phi.tolist(),
                eps_rel=float(10.0 ** rng.uniform(-12, -7)), gain=float(10.0 ** rng.uniform(-8, 8)),
                DF2=float(bw * rng.choice([4.0, 4.5, 6.0, 10.0, 20.0, 40.0])), DF1=float(bw * rng.choice([0.5, 1.0, 2.0])),
                sel=float(fn + bw * rng.uniform(-0.45, 0.45)), layout=str(rng.choice(LAYOUTS)), readonly=RO_FORMS[int(rng.integers(0, 3))],
                c=float(rng.choice([2.0 ** int(rng.integers(-40, 41)), 10.0 ** rng.uniform(-12, 12), 3.0, 1e-3, 7e5])))


SPECIAL_SHAPES = (
    [0.0, 1.0, -0.5],                      # node at the first sensor
    [1.0, -0.5, 0.0],                      # node at the last sensor
    [0.0, 1.0, 0.0, -0.75, 0.0, 0.5],      # nodes at several sensors
    [1.0, 1.0],                            # equal magnitudes
    [1.0, -1.0, 1.0, -1.0],                # alternating signs, equal magnitudes
    [-1.0, -1.0, -1.0],                    # all negative
    [0.0, 0.0, 1.0],                       # one live sensor, last
    [1.0, 0.0],                            # one live sensor, first
    [0.0, -1.0],                           # node first, negative
    [-0.5, 0.5, 0.0, 1.0, -1.0],           # ties, signs and a node
    [0.0, 0.0, 0.0, 0.0, 0.0, -1.0],       # five nodes
    [0.5, 0.5, -0.5, 0.5],                 # equal magnitudes below the unit one is missing: 0.5 everywhere
    [0.0, 0.25, 1.0, 0.25, 0.0],           # symmetric with nodes at both ends
    [1.0, 0.0, -1.0],                      # antisymmetric with a central node
)


def special_shape_points(thorough):
    """Envelope points whose (real) mode shape has exact zeros, sign patterns or equal magnitudes."""
    pars = [(100.0, 1024, 0.123, 0.03), (1.0, 2000, 0.2, 0.02)] + ([(12.5, 1536, 0.07, 0.05), (5000.0, 4096, 0.05, 0.025)] if thorough else [])
    out = []
    for i, phi in enumerate(SPECIAL_SHAPES):
        for j, (fs, nxseg, fn_r, xi) in enumerate(pars if thorough else [pars[i % 2]]):
            fn = fn_r * fs
            bw = 2 * xi * fn
            out.append(dict(kind="envelope-shape", fs=fs, nxseg=nxseg, fn=fn, xi=xi, phi=list(phi), eps_rel=(1e-10, 1e-8, 1e-12)[(i + j) % 3],
                            gain=(1.0, 1e-5, 1e4)[(i + j) % 3], DF2=bw * (4.0, 8.0)[(i + j) % 2], DF1=bw, sel=fn + bw * (0.2, -0.3, 0.0)[(i + j) % 3],
                            c=(7.0, 2.0 ** -30, 1e6)[(i + j) % 3], scale_test=bool(thorough or i % 3 == 0), layout=LAYOUTS[(i + j) % 3],
                            alt_svd=(i + j if (i + j) % 3 == 1 else None),
                            readonly=(None, "flag", None, "broadcast", "flag", "memmap")[(i + 2 * j) % 6]))
    return out


CORNER_NXSEG = (2000, 4000, 6000, 8000, 1025, 3000)


def corner_points(thorough):
    """Deterministic corners of the envelope: segment lengths that are not powers of two (just under one, odd, 3*2^k*..)
    x natural frequency at the upper end (0.19-0.25 fs: fewest correlation samples per period) and at the lower end
    (0.04-0.06 fs, or the lowest value the resolution clauses allow) x damping at both ends (2 %, 5 %)."""
    highs = (0.22, 0.23, 0.19, 0.245, 0.25, 0.205)
    lows = (0.04, 0.045, 0.05, 0.06, 0.0586, 0.042)
    fss = (100.0, 1.0, 50.0, 1000.0, 12.5, 256.0)
    shapes = ([1.0, -0.5, 0.25], [0.5, 1.0], [0.25, -1.0, 0.75, 0.5], [1.0, 0.875, -0.375, 0.125, 0.625, -0.75], [-1.0, 0.5, 0.5], [0.75, 1.0, -0.25, 0.5, 0.125])
    out = []
    for i, nxseg in enumerate(CORNER_NXSEG):
        for j, xi in enumerate((0.02, 0.05)):
            fmin = max(0.04, 60.4 / nxseg, 4.02 / (2 * xi * nxseg))
            ends = [("high", highs[(i + j) % 6]), ("low", max(lows[(i + 3 * j) % 6], fmin))]
            if thorough:
                ends += [("high", highs[(i + j + 2) % 6]), ("high", highs[(i + j + 4) % 6]), ("low", max(lows[(i + 3 * j + 1) % 6], fmin))]
            for e, (end, fn_r) in enumerate(ends):
                fs = fss[(i + j + e) % 6]
                fn = fn_r * fs
                bw = 2 * xi * fn
                out.append(dict(kind="envelope-corner", end=end, fs=fs, nxseg=nxseg, fn=fn, xi=xi, phi=shapes[(i + e) % 6],
                                eps_rel=(1e-10, 1e-8, 1e-12)[(i + j + e) % 3], gain=(1.0, 1e-6, 1e5)[(i + e) % 3],
                                DF2=bw * (4.0, 10.0, 6.0)[(i + j + e) % 3], DF1=bw, sel=fn + bw * (0.3, -0.4, 0.1)[(i + e) % 3],
                                c=(1000.0, 2.0 ** -20, 3.0)[(j + e) % 3], scale_test=bool(thorough or (i + j + e) % 4 == 0),
                                alt_svd=(i + j + e if (i + j + e) % 4 == 1 else None),
                                layout=LAYOUTS[(i + 2 * j + e) % 3], readonly=RO_FORMS[(i + j + 2 * e) % 3]))
    return out


LAYOUTS = ("C", "F", "view")


def lay_out(Sy, layout):
    """The same spectral matrix in another memory layout: row-major, column-major (np.asfortranarray, loadmat data,
    np.array(list_of_line_matrices).T) or a non-contiguous view of a larger buffer."""
    if layout == "F":
        return np.asfortranarray(Sy)
    if layout == "view":
        big = np.zeros((Sy.shape[0] + 1, Sy.shape[1], 2 * Sy.shape[2] + 1), Sy.dtype)
        v = big[1:, :, 1::2]
        v[...] = Sy
        assert not v.flags["C_CONTIGUOUS"] and not v.flags["F_CONTIGUOUS"]
        return v
    return np.ascontiguousarray(Sy)


RO_FORMS = (None, "flag", "broadcast")


def present(a, ro, workdir=None):
    """The same array handed over read-only: a view with flags.writeable = False (same strides), np.broadcast_to, or a
    memory map opened with mmap_mode="r".  The pristine code never writes to its inputs."""
    if not ro:
        return a
    if ro == "broadcast":
        v = np.broadcast_to(a, a.shape)
    elif ro == "memmap" and workdir is not None:
        path = os.path.join(workdir, "ro_%d.npy" % id(a))
        np.save(path, np.ascontiguousarray(a))
        v = np.load(path, mmap_mode="r")
    else:
        v = a.view()
        v.setflags(write=False)
    assert not v.flags.writeable
    return v


def ro_note(case):
    return " (Sy and freq handed over read-only: %s)" % case["readonly"] if case.get("readonly") else ""


class Frozen:
    """Input-immutability clause: the arrays handed to the implementation are bit-equal after the call."""

    def __init__(self, **arrs):
        self.arrs = arrs
        self.snap = {k: (np.array(v, copy=True), np.asarray(v).tobytes()) for k, v in arrs.items()}

    def changed(self):
        return [k for k, v in self.arrs.items() if np.asarray(v).tobytes() != self.snap[k][1] or np.shape(v) != self.snap[k][0].shape]

    def restore(self):
        for k, v in self.arrs.items():
            if isinstance(v, np.ndarray) and v.flags.writeable:
                v[...] = self.snap[k][0]


# ----------------------------------------------------------------------------------------------------------------------
# D. which SVD?  another triple meeting numpy.linalg.svd's contract
# ----------------------------------------------------------------------------------------------------------------------
UNIT_Q = ((3, 4, 5), (5, -12, 13), (-8, 15, 17), (0, 1, 1), (-1, 0, 1), (7, 24, 25), (-20, -21, 29), (12, -35, 37))  # (a + ib)/c, modulus 1 exactly


def unit_phases(k, n):
    """n exact unit-modulus Gaussian rationals (as (a, b, c)), a different selection for every k."""
    return [UNIT_Q[(k + 3 * c) % len(UNIT_Q)] for c in range(n)]


class AltSVD:
    """numpy.linalg.svd answering with ANOTHER triple (U', S, V'^H) meeting its contract A = U' diag(S) V'^H, U'^H U' = I,
    V'^H V' = I, S unchanged: column c of U and of V multiplied by the unit-modulus number t_c (always possible) and - rotate -
    the columns 1.. of a line whose values S[1:] coincide (the floor of a rank-one-plus-floor spectrum) turned among themselves
    by a fixed unitary matrix.  Used as a context manager around ONE call of the implementation; .calls counts the square
    matrices it has answered for (0 = the implementation does not go through numpy.linalg.svd: nothing is judged)."""

    def __init__(self, phases, rotate=False):
        self.t = np.array([complex(a, b) / c for a, b, c in phases])
        self.rotate = rotate
        self.calls = 0
        self.Q = {}

    def __enter__(self):
        self.orig = np.linalg.svd
        np.linalg.svd = self
        return self

    def __exit__(self, *exc):
        np.linalg.svd = self.orig
        return False

    def _turn(self, m):
        if m not in self.Q:
            g = np.random.default_rng(1000 + m)
            self.Q[m] = np.asarray(self.orig(g.standard_normal((m, m)) + 1j * g.standard_normal((m, m)))[0])  # unitary
        return self.Q[m]

    def __call__(self, a, *args, **kw):
        out = self.orig(a, *args, **kw)
        arr = np.asarray(a)
        if arr.ndim != 2 or arr.shape[0] != arr.shape[1] or not isinstance(out, tuple) or len(out) != 3:
            return out
        U, S, Vh = out
        n = arr.shape[0]
        if np.shape(U) != (n, n) or np.shape(Vh) != (n, n):
            return out
        t = np.array([self.t[c % len(self.t)] for c in range(n)])
        U2 = np.asarray(U, complex) * t[None, :]
        Vh2 = t.conj()[:, None] * np.asarray(Vh, complex)
        if self.rotate and n > 2 and S[1] - S[-1] <= 1e-13 * S[0]:
            Q = self._turn(n - 1)
            U2[:, 1:] = U2[:, 1:] @ Q
            Vh2[1:, :] = Q.conj().T @ Vh2[1:, :]
        if self.calls < 3:  # the alternative answer meets the contract (harness sanity)
            assert np.allclose((U2 * S[None, :]) @ Vh2, arr, rtol=0, atol=1e-12 * max(S[0], 1e-300)), "AltSVD: A"
            assert np.allclose(U2.conj().T @ U2, np.eye(n), atol=1e-12) and np.allclose(Vh2 @ Vh2.conj().T, np.eye(n), atol=1e-12), "AltSVD: unitary"
        self.calls += 1
        return type(out)(U2, S, Vh2) if hasattr(out, "_fields") else (U2, S, Vh2)


def oracle_alt_svd(ctx, spec, case, Sy, f, method, ref):
    """The estimates of ONE envelope point when numpy.linalg.svd answers with another contract-meeting triple: inside the
    envelope (property text) and equal to the estimates obtained with LAPACK's own answer (ref = (Fn, Xi, Phi))."""
    k = spec["alt_svd"]
    case2 = dict(case, alt_svd=dict(phases=unit_phases(k, len(spec["phi"])), rotate=True))
    ctx.count(case2, nontrivial=True)
    ctx.hist("oracle alt svd", method)
    with AltSVD(case2["alt_svd"]["phases"], rotate=True) as alt:
        r2 = analyse(ctx, case2, Sy, f, spec, method)
    if alt.calls == 0:
        ctx.not_judged += 1
        return
    if r2 is None:
        return
    Fn, Xi, Phi = ref
    if not (abs(r2[0] - Fn) <= TOL * abs(Fn) and abs(r2[1] - Xi) <= TOL * abs(Xi) and mac(r2[2][:, 0], Phi[:, 0]) >= 1 - 1e-9):
        ctx.fail("correspondence", "%s: estimates depend on WHICH contract-meeting SVD numpy.linalg.svd returns (columns of U, V times unit-modulus "
                 "numbers %r, floor subspace turned): Fn %r -> %r, Xi %r -> %r, MAC of the two shapes %.12f - theorem C07_bell_svd_independent says equal"
                 % (method, case2["alt_svd"]["phases"], Fn, r2[0], Xi, r2[1], mac(r2[2][:, 0], Phi[:, 0])), case2, key="C07:%s:svd-choice" % method)


def analyse(ctx, case, Sy, f, spec, method, judge=True):
    """One call of fdd.EFDD_mpe on (Sy, f) judged against the truth of spec (the property text).  None = failed call."""
    fs, fn, xi = spec["fs"], spec["fn"], spec["xi"]
    phi = np.array(spec["phi"], float)
    sel = [spec["sel"]]
    fr = Frozen(Sy=Sy, freq=f, sel_freq=np.array(sel))
    try:
        Fn, Xi, Phi, _ = fdd.EFDD_mpe(present(Sy, case.get("readonly"), ctx.work), present(f, case.get("readonly"), ctx.work), 1.0 / fs, sel, "per",
                                      method=method, DF1=spec["DF1"], DF2=spec["DF2"])
    except Exception as e:  # noqa: BLE001
        Fn = e
    ch = fr.changed() + ([] if sel == [spec["sel"]] else ["sel_freq"])
    if ch:
        ctx.fail("oracle", "fdd.EFDD_mpe(%s) modifies its input %s (memory layout %s)" % (method, "/".join(ch), case.get("layout", "C")), case,
                 key="C07:%s:mutates-input" % method)
        fr.restore()
    if isinstance(Fn, Exception):
        ctx.fail("oracle", "%s raised %s: %s - inside the property's envelope%s" % (method, type(Fn).__name__, str(Fn)[:80], ro_note(case)), case,
                 key="C07:%s:raises" % method)
        return None
    Fn, Xi = float(np.ravel(Fn)[0]), float(np.ravel(Xi)[0])
    if not judge:
        return Fn, Xi, Phi
    m = mac(Phi[:, 0], phi)
    efn, exi = abs(Fn - fn) / fn, abs(Xi - xi) / xi
    ctx.extra["worst_fn_err"] = max(ctx.extra.get("worst_fn_err", 0.0), efn if np.isfinite(efn) else 9.9)
    ctx.extra["worst_xi_err"] = max(ctx.extra.get("worst_xi_err", 0.0), exi if np.isfinite(exi) else 9.9)
    if not (m >= 0.999):
        ctx.fail("oracle", "%s: MAC(Phi, true shape) = %.6f < 0.999" % (method, m), case, key="C07:%s:mac" % method)
    if not (efn <= 0.025):
        ctx.fail("oracle", "%s: natural frequency %.6g vs true %.6g (error %.2f %% > 2.5 %%)" % (method, Fn, fn, 100 * efn), case, key="C07:%s:fn" % method)
    if not (exi <= 0.15):
        ctx.fail("oracle", "%s: damping ratio %.5g vs true %.5g (error %.1f %% > 15 %%)" % (method, Xi, xi, 100 * exi), case, key="C07:%s:xi" % method)
    return Fn, Xi, Phi


def oracle_case(ctx, spec, methods=("EFDD", "FSDD")):
    """The property text on the implementation for one point of the envelope."""
    fs, nxseg, fn, xi = spec["fs"], spec["nxseg"], spec["fn"], spec["xi"]
    phi = np.array(spec["phi"], float)
    assert in_envelope(fs, nxseg, fn, xi, spec["DF2"]), spec
    f, Sy, _, _ = build_sy(fs, nxseg, fn, xi, phi, spec["eps_rel"], spec["gain"])
    layout = spec.get("layout", "C")
    Sy = lay_out(Sy, layout)
    for method in methods:
        case = dict(spec, method=method)
        ctx.count(case, nontrivial=True)
        ctx.hist("oracle nxseg", nxseg)
        ctx.hist("oracle layout", layout)
        ctx.hist("oracle read-only", str(spec.get("readonly")))
        ctx.hist("oracle log10 fs", int(np.floor(np.log10(fs))))
        r = analyse(ctx, case, Sy, f, spec, method)
        if r is not None and spec.get("alt_svd") is not None:
            oracle_alt_svd(ctx, spec, case, Sy, f, method, r)
        if r is None or not spec.get("scale_test", True):
            continue
        Fn, Xi, Phi = r
        # positive scaling of the whole spectral matrix (same memory layout)
        c = spec["c"]
        r2 = analyse(ctx, dict(case, scaled_by=c), lay_out(c * Sy, layout), f, spec, method, judge=False)
        ok = r2 is not None and abs(r2[0] - Fn) <= TOL * abs(Fn) and abs(r2[1] - Xi) <= TOL * abs(Xi) and mac(r2[2][:, 0], Phi[:, 0]) >= 1 - 1e-9
        if not ok:
            ctx.fail("oracle", "%s: estimates change under Sy -> %g*Sy: Fn %r -> %r, Xi %r -> %r" % (
                method, c, Fn, r2 and r2[0], Xi, r2 and r2[1]), case, key="C07:%s:scale" % method)


def oracle_sequence(ctx, seq):
    """Histories on ONE ndarray object: the work array is refilled in place with the spectrum of another mode and
    analysed again; every analysis is judged against the truth of the spectrum the array holds at that moment."""
    specs, order, layout = seq["specs"], seq["order"], seq.get("layout", "C")
    built = []
    for sp in specs:
        assert in_envelope(sp["fs"], sp["nxseg"], sp["fn"], sp["xi"], sp["DF2"]), sp
        built.append(build_sy(sp["fs"], sp["nxseg"], sp["fn"], sp["xi"], np.array(sp["phi"], float), sp["eps_rel"], sp["gain"]))
    assert len({b[1].shape for b in built}) == 1
    for method in seq.get("methods", ("EFDD", "FSDD")):
        work = lay_out(np.zeros_like(built[0][1]), layout)
        for step, i in enumerate(order):
            work[...] = built[i][1]  # refill the same object in place
            case = dict(kind="sequence", step=step, order=list(order[: step + 1]), layout=layout, method=method, specs=specs, judged=i,
                        readonly="flag" if step % 2 else None)
            ctx.count(case, nontrivial=step > 0)
            ctx.hist("oracle sequence step", step)
            analyse(ctx, case, work, built[i][0], specs[i], method)


def call_mpe(ctx, case, Sy, f, spec, method, sel):
    """fdd.EFDD_mpe with an arbitrary sel_freq object (list / ndarray of float or integer picks): every returned estimate
    is judged against the envelope of the ONE mode the spectrum holds.  Returns (Fn, Xi, Phi) as arrays or None."""
    fs, fn, xi = spec["fs"], spec["fn"], spec["xi"]
    phi = np.array(spec["phi"], float)
    sel_copy = np.array(sel, copy=True)
    fr = Frozen(Sy=Sy, freq=f)
    try:
        Fn, Xi, Phi, _ = fdd.EFDD_mpe(present(Sy, case.get("readonly"), ctx.work), present(f, case.get("readonly"), ctx.work), 1.0 / fs, sel, "per",
                                      method=method, DF1=spec["DF1"], DF2=spec["DF2"])
    except Exception as e:  # noqa: BLE001
        Fn = e
    ch = fr.changed() + ([] if np.array_equal(np.array(sel), sel_copy) and np.array(sel).dtype == sel_copy.dtype else ["sel_freq"])
    if ch:
        ctx.fail("oracle", "fdd.EFDD_mpe(%s) modifies its input %s" % (method, "/".join(ch)), case, key="C07:%s:mutates-input" % method)
        fr.restore()
    if isinstance(Fn, Exception):
        ctx.fail("oracle", "%s raised %s: %s - inside the property's envelope (sel_freq = %r)%s" % (method, type(Fn).__name__, str(Fn)[:80], sel, ro_note(case)),
                 case, key="C07:%s:raises" % method)
        return None
    Fn, Xi = np.ravel(np.asarray(Fn, float)), np.ravel(np.asarray(Xi, float))
    if len(Fn) != len(sel_copy) or len(Xi) != len(sel_copy) or np.shape(Phi) != (len(phi), len(sel_copy)):
        ctx.fail("oracle", "%s: %d picks but %d / %d / %s estimates" % (method, len(sel_copy), len(Fn), len(Xi), np.shape(Phi)), case, key="C07:%s:npicks" % method)
        return None
    for i in range(len(Fn)):
        m = mac(Phi[:, i], phi)
        efn, exi = abs(Fn[i] - fn) / fn, abs(Xi[i] - xi) / xi
        ctx.extra["worst_fn_err"] = max(ctx.extra.get("worst_fn_err", 0.0), efn if np.isfinite(efn) else 9.9)
        ctx.extra["worst_xi_err"] = max(ctx.extra.get("worst_xi_err", 0.0), exi if np.isfinite(exi) else 9.9)
        if not (m >= 0.999 and efn <= 0.025 and exi <= 0.15):
            ctx.fail("oracle", "%s, pick #%d of sel_freq = %r: fn %.6g (true %.6g, error %.2f %%), xi %.5g (true %.5g, error %.1f %%), MAC %.5f - outside "
                     "2.5 %% / 15 %% / 0.999" % (method, i, sel, Fn[i], fn, 100 * efn, Xi[i], xi, 100 * exi, m), case, key="C07:%s:pick-envelope" % method)
    return Fn, Xi, Phi


def oracle_multipick(ctx, spec):
    """Several selected frequencies in ONE call, all on the same exact bell (a few lines apart, overlapping DF2 bands):
    every estimate meets the envelope and equals the single-pick result of the same call parameters."""
    fs, nxseg = spec["fs"], spec["nxseg"]
    assert in_envelope(fs, nxseg, spec["fn"], spec["xi"], spec["DF2"]), spec
    f, Sy, _, _ = build_sy(fs, nxseg, spec["fn"], spec["xi"], np.array(spec["phi"], float), spec["eps_rel"], spec["gain"])
    Sy = lay_out(Sy, spec.get("layout", "C"))
    picks = [spec["sel"] + k * fs / nxseg for k in spec["offsets_lines"]]
    for method in spec.get("methods", ("EFDD", "FSDD")):
        case = dict(spec, kind="multipick", method=method, sel_freq=picks)
        ctx.count(case, nontrivial=len(picks) > 1)
        ctx.hist("oracle picks per call", len(picks))
        multi = call_mpe(ctx, case, Sy, f, spec, method, list(picks))
        if multi is None:
            continue
        for i, p in enumerate(picks):
            single = call_mpe(ctx, dict(case, single_pick=i), Sy, f, spec, method, [p])
            if single is None:
                continue
            if not (abs(multi[0][i] - single[0][0]) <= TOL * abs(single[0][0]) and abs(multi[1][i] - single[1][0]) <= TOL * abs(single[1][0])
                    and mac(multi[2][:, i], single[2][:, 0]) >= 1 - 1e-9):
                ctx.fail("oracle", "%s: pick #%d of sel_freq = %r gives fn %.9g, xi %.9g in the multi-pick call but fn %.9g, xi %.9g when picked alone "
                         "(true %.6g, %.4g)" % (method, i, picks, multi[0][i], multi[1][i], single[0][0], single[1][0], spec["fn"], spec["xi"]), case,
                         key="C07:%s:multipick" % method)


def oracle_intpick(ctx, spec):
    """A mode on a whole number of hertz picked as Python int, numpy int64 (scalar in a list, integer ndarray) and float:
    identical estimates, envelope on each; DF2 a float below 1 Hz."""
    fs, nxseg, fn = spec["fs"], spec["nxseg"], spec["fn"]
    assert float(fn).is_integer() and 0 < spec["DF2"] < 1 and not float(spec["DF2"]).is_integer(), spec
    assert in_envelope(fs, nxseg, fn, spec["xi"], spec["DF2"]), spec
    f, Sy, _, _ = build_sy(fs, nxseg, fn, spec["xi"], np.array(spec["phi"], float), spec["eps_rel"], spec["gain"])
    k = int(fn)
    forms = [("float list", [float(k)]), ("int list", [k]), ("numpy int64 list", [np.int64(k)]), ("int64 ndarray", np.array([k], dtype=np.int64)),
             ("float ndarray", np.array([float(k)])), ("int32 ndarray", np.array([k], dtype=np.int32))]
    for method in spec.get("methods", ("EFDD", "FSDD")):
        ref = None
        for name, sel in forms:
            case = dict(spec, kind="intpick", method=method, pick_form=name, sel=float(k))
            ctx.count(case, nontrivial=True)
            ctx.hist("oracle pick form", name)
            r = call_mpe(ctx, case, Sy, f, dict(spec, sel=float(k)), method, sel)
            if r is None:
                continue
            if ref is None:
                ref = (name, r)
            elif not (abs(r[0][0] - ref[1][0][0]) <= TOL * abs(ref[1][0][0]) and abs(r[1][0] - ref[1][1][0]) <= TOL * abs(ref[1][1][0])):
                ctx.fail("oracle", "%s: the pick %d Hz given as %s yields fn %.9g, xi %.9g but as %s fn %.9g, xi %.9g (true %g, %.4g; DF2 = %g)" % (
                    method, k, name, r[0][0], r[1][0], ref[0], ref[1][0][0], ref[1][1][0], fn, spec["xi"], spec["DF2"]), case, key="C07:%s:pick-dtype" % method)


def fixed_picks(thorough):
    """Deterministic multi-pick and integer-pick cases present in both tiers."""
    multi = [dict(fs=100.0, nxseg=2048, fn=12.3, xi=0.03, phi=[1.0, -0.5, 0.25], eps_rel=1e-10, gain=1.0, DF2=3.0, DF1=0.738, sel=12.25, offsets_lines=[0, 2]),
             dict(fs=1.0, nxseg=4000, fn=0.21, xi=0.045, phi=[0.5, 1.0], eps_rel=1e-9, gain=1e-4, DF2=0.08, DF1=0.0189, sel=0.2095, offsets_lines=[0, 3, -2],
                  layout="F", readonly="flag")]
    ints = [dict(fs=50.0, nxseg=2048, fn=2.0, xi=0.04, phi=[1.0, 0.5, -0.25], eps_rel=1e-10, gain=1.0, DF2=0.96, DF1=0.16),
            dict(fs=20.0, nxseg=2048, fn=3.0, xi=0.02, phi=[-0.5, 1.0], eps_rel=1e-9, gain=25.0, DF2=0.5, DF1=0.12, readonly="broadcast")]
    if thorough:
        multi += [dict(fs=256.0, nxseg=1536, fn=30.0, xi=0.02, phi=[1.0, 0.25, 0.5, -0.75], eps_rel=1e-11, gain=1e3, DF2=7.0, DF1=1.2, sel=30.2,
                       offsets_lines=[0, 1, 2, 0], layout="view"),
                  dict(fs=12.5, nxseg=8000, fn=0.6, xi=0.05, phi=[1.0, -1.0, 0.5], eps_rel=1e-10, gain=1.0, DF2=0.3, DF1=0.06, sel=0.61, offsets_lines=[-4, 4])]
        ints += [dict(fs=8.0, nxseg=4096, fn=1.0, xi=0.05, phi=[1.0, 0.75], eps_rel=1e-10, gain=1e-2, DF2=0.45, DF1=0.1),
                 dict(fs=100.0, nxseg=8192, fn=5.0, xi=0.02, phi=[0.25, -1.0, 0.5], eps_rel=1e-12, gain=1.0, DF2=0.85, DF1=0.2)]
    return multi, ints


def gen_picks(rng):
    """Random multi-pick / integer-pick points of the envelope."""
    sp = gen_envelope(rng, big=False)
    offs = [0] + [int(o) for o in rng.integers(-2, 3, size=int(rng.integers(1, 3)))]
    multi = dict(sp, offsets_lines=offs)
    while True:
        k = int(rng.choice([1, 2, 3, 5]))
        xi = float(rng.uniform(0.02, 0.05))
        bw = 2 * xi * k
        fn_r = float(rng.uniform(0.04, 0.25))
        nxseg = int(rng.choice([2048, 4000, 4096]))
        DF2 = float(bw * rng.uniform(4.05, 6.0))
        if DF2 < 0.98 and 2 * xi * fn_r * nxseg >= 4.02 and fn_r * nxseg / 2 >= 30.2:
            break
    ints = dict(fs=k / fn_r, nxseg=nxseg, fn=float(k), xi=xi, phi=sp["phi"], eps_rel=sp["eps_rel"], gain=sp["gain"], DF2=DF2, DF1=bw)
    if not in_envelope(ints["fs"], nxseg, ints["fn"], xi, DF2):  # rounding of k / fn_r at the edges of the range
        ints = None
    return multi, ints


FS_DECADES = (0.05, 0.2, 1.0, 100.0, 5000.0, 1e5)


def oracle_fs_sweep(ctx, base, fss=FS_DECADES):
    """Time-unit covariance: at fixed dimensionless fn/fs, xi, band and selection the estimates fn/fs and xi do not
    depend on the sampling rate (1e-9 relative), and each is inside the envelope for every fs."""
    for method in base.get("methods", ("EFDD", "FSDD")):
        ref = None
        for fs in fss:
            spec = dict(base, kind="fs-sweep", fs=fs, fn=base["fn_r"] * fs, DF1=base["DF1_r"] * fs, DF2=base["DF2_r"] * fs, sel=base["sel_r"] * fs,
                        readonly=RO_FORMS[list(fss).index(fs) % 3])
            assert in_envelope(fs, spec["nxseg"], spec["fn"], spec["xi"], spec["DF2"]), spec
            f, Sy, _, _ = build_sy(fs, spec["nxseg"], spec["fn"], spec["xi"], np.array(spec["phi"], float), spec["eps_rel"], spec["gain"])
            case = dict(spec, method=method)
            ctx.count(case, nontrivial=True)
            ctx.hist("oracle log10 fs", int(np.floor(np.log10(fs))))
            r = analyse(ctx, case, Sy, f, spec, method)
            if r is None:
                continue
            if ref is None:
                ref = (fs, r[0] / fs, r[1])
            elif not (abs(r[0] / fs - ref[1]) <= TOL * abs(ref[1]) and abs(r[1] - ref[2]) <= TOL * abs(ref[2])):
                ctx.fail("oracle", "%s: fn/fs and xi depend on the sampling rate: fs=%g gives fn/fs=%.12g, xi=%.12g; fs=%g gives fn/fs=%.12g, xi=%.12g "
                         "(true %.6g, %.4g)" % (method, ref[0], ref[1], ref[2], fs, r[0] / fs, r[1], base["fn_r"], spec["xi"]), case,
                         key="C07:%s:fs-covariance" % method)


def fixed_histories(thorough):
    """Deterministic sequences / sampling-rate sweeps present in both tiers."""
    A = dict(kind="envelope", fs=50.0, nxseg=2048, fn=3.1, xi=0.02, phi=[1.0, -0.5, 0.25], eps_rel=1e-10, gain=1.0, DF2=1.0, DF1=0.124, sel=3.12, c=1.0)
    B = dict(kind="envelope", fs=50.0, nxseg=2048, fn=2.95, xi=0.032, phi=[1.0, -0.5, 0.25], eps_rel=1e-9, gain=40.0, DF2=1.0, DF1=0.19, sel=2.9, c=1.0)
    C = dict(kind="envelope", fs=50.0, nxseg=2048, fn=9.0, xi=0.045, phi=[-0.5, 0.5, 1.0], eps_rel=1e-11, gain=1e-3, DF2=4.0, DF1=0.8, sel=9.2, c=1.0)
    seqs = [dict(specs=[A, B], order=[0, 1, 0, 1], layout="C"), dict(specs=[B, C], order=[0, 1, 0], layout="F")]
    if thorough:
        seqs += [dict(specs=[A, B, C], order=[0, 1, 2, 0, 2, 1, 1, 0], layout="view"), dict(specs=[C, A], order=[0, 1, 0, 1, 0], layout="C")]
    sweeps = [dict(nxseg=1024, fn_r=0.0625, xi=0.04, phi=[1.0, 0.5], eps_rel=1e-10, gain=1.0, DF1_r=0.005, DF2_r=0.021, sel_r=0.063),
              dict(nxseg=2000, fn_r=0.22, xi=0.02, phi=[0.5, -1.0, 0.25], eps_rel=1e-9, gain=1e3, DF1_r=0.0088, DF2_r=0.04, sel_r=0.221)]
    if thorough:
        sweeps += [dict(nxseg=4096, fn_r=0.1234, xi=0.05, phi=[1.0, 0.75, -0.5, 0.25], eps_rel=1e-12, gain=1e-4, DF1_r=0.012, DF2_r=0.1, sel_r=0.12),
                   dict(nxseg=3000, fn_r=0.04, xi=0.035, phi=[-1.0, 0.5], eps_rel=1e-8, gain=1.0, DF1_r=0.0028, DF2_r=0.0115, sel_r=0.0405)]
    return seqs, sweeps


# ----------------------------------------------------------------------------------------------------------------------
# A. SDOF_bellandMS
# ----------------------------------------------------------------------------------------------------------------------
def band_of(Nf, dt, sel, DF):
    """Nearest lines of the code's own grid, with the margin to the runner-up (None = too close to call)."""
    h = 1 / dt / (2 * Nf)
    out = []
    for x in (sel - DF, sel + DF):
        d = np.abs(np.arange(Nf) * h - x)
        k = int(np.argmin(d))
        dd = np.sort(d)
        if len(dd) > 1 and dd[1] - dd[0] <= 1e-9 * h:
            return h, None
        out.append(k)
    return h, tuple(out)


def gen_bell_case(rng, k):
    """Small spectra for the Coq-evaluated bell: rank-one real (even k) or two-mode complex Hermitian (odd k)."""
    Nf = int(rng.choice([48, 64, 96, 130, 200]))
    fs = float(rng.choice([8.0, 64.0, 100.0, 1.0]))
    dt = 1.0 / fs
    n = int(rng.integers(2, 7))
    fn = float(rng.uniform(0.08, 0.3)) * fs
    xi = float(rng.uniform(0.02, 0.08))
    f = np.arange(Nf) * fs / (2 * (Nf - 1))
    s1 = np.round(sdof_psd(f, fn, xi) / sdof_psd(fn, fn, xi) * 2**16) / 2**16
    eps = float(2.0 ** -int(rng.integers(8, 24)))
    g = float(2.0 ** int(rng.integers(-6, 7)))
    two = bool(k % 2)
    if not two:
        a = np.round(rng.uniform(-1, 1, n) * 16) / 16
        a[int(rng.integers(n))] = 1.0
        Sy = g * (s1[None, None, :] * np.outer(a, a)[:, :, None] + eps * np.eye(n)[:, :, None])
        phi = a / a[np.argmax(np.abs(a))]
        b = None
        s2 = None
    else:
        a = (np.round(rng.uniform(-1, 1, n) * 16) + 1j * np.round(rng.uniform(-1, 1, n) * 16)) / 16
        b = (np.round(rng.uniform(-1, 1, n) * 16) + 1j * np.round(rng.uniform(-1, 1, n) * 16)) / 16
        a[0] = 1.0
        fn2 = fn * (1 + float(rng.uniform(1.5, 4.0)) * xi)
        s2 = np.round(sdof_psd(f, fn2, xi) / sdof_psd(fn2, fn2, xi) * 2**16) / 2**16 * float(rng.choice([0.5, 1.0, 2.0]))
        Sy = g * (s1[None, None, :] * np.outer(a, a.conj())[:, :, None] + s2[None, None, :] * np.outer(b, b.conj())[:, :, None]
                  + eps * np.eye(n)[:, :, None])
        kk = int(np.argmin(np.abs(f - fn)))
        U, _, _ = np.linalg.svd(Sy[:, :, kk])
        phi = U[:, 0].conj()
        phi = phi / phi[np.argmax(np.abs(phi))]
        if rng.random() < 0.3:
            phi = np.round(phi * 64) / 64
    bw = 2 * xi * fn
    DF = float(bw * rng.uniform(1.5, 5.0))
    sel = float(fn + bw * rng.uniform(-0.5, 0.5))
    cm = 1 if rng.random() < 0.7 else 2
    MAClim = float(rng.choice([0.85, 0.5, 0.95, 0.3, 0.99]))
    mal = None
    r = rng.random()
    if r < 0.04:
        DF, mal = -abs(DF), "negative DF"
    elif r < 0.07:
        sel, mal = fs * 2, "band outside the grid"
    elif r < 0.11:
        MAClim, mal = 1.5, "MAClim > 1"
    elif r < 0.14:
        cm, mal = 0, "cm = 0"
    return dict(kind="bell", Nf=Nf, dt=dt, n=n, two=two, sel=sel, DF=DF, cm=cm, MAClim=MAClim, malformed=mal,
                rank_one=None if two else dict(a=a.tolist(), s=(g * s1).tolist(), eps=g * eps)), Sy, phi


def _me(x):
    """float -> (odd mantissa, binary exponent), exact."""
    x = float(x)
    if x == 0.0:
        return 0, 0
    m, e = math.frexp(x)
    m = int(m * 2**53)
    e -= 53
    t = (m & -m).bit_length() - 1
    return m >> t, e + t


def _hx(z):
    return "(-0x%x)" % -z if z < 0 else "0x%x" % z


def qd(x):
    """Coq term of type Qc for a float (reader qd of M_efdd.v)."""
    m, e = _me(x)
    return "(qd %s %s)" % (_hx(m), _hx(e))


def zq(xs):
    """flat Z list of (mantissa, exponent) for real floats (reader dec_q)."""
    out = []
    for x in xs:
        out += _me(x)
    return out


def zc(zs):
    """flat Z list for complex floats (reader dec_c)."""
    out = []
    for z in zs:
        z = complex(z)
        out += _me(z.real) + _me(z.imag)
    return out


def zlist(ints):
    return "[" + "; ".join(_hx(z) for z in ints) + "]%Z"


def run_bell(ctx, rng):
    exprs, meta = [], []
    for k in range(ctx.n(28, 160)):
        case, Sy, phi = gen_bell_case(rng, k)
        Nf, dt, n, cm, lim = case["Nf"], case["dt"], case["n"], case["cm"], case["MAClim"]
        h, bd = band_of(Nf, dt, case["sel"], case["DF"])
        if bd is None:
            ctx.not_judged += 1
            continue
        lo, hi = bd
        # the SVD witness and the MAC margins (harness' own NumPy calls)
        lines, near = [], False
        for l in range(lo, hi):
            U, S, _ = np.linalg.svd(Sy[:, :, l])
            sv = [U[:, c].conj() for c in range(cm)]
            for v in sv:
                if abs(mac(phi, v) - lim) < 1e-7:
                    near = True
            lines += zc(Sy[:, :, l].ravel()) + zq(S[:cm]) + zc(np.concatenate(sv) if sv else [])
        if near:
            ctx.not_judged += 1
            continue
        layout = LAYOUTS[(k // 2) % 3]
        Sy_in = lay_out(Sy, layout)
        for method in ("EFDD", "FSDD"):
            cs = dict(case, method=method, phi=[[z.real, z.imag] for z in np.asarray(phi, complex)],
                      Sy_digest=float(np.abs(Sy).sum()), layout=layout)
            ctx.count(cs, nontrivial=hi > lo and cm > 0 and lim < 1)
            ctx.hist("bell", (method, "two-mode" if case["two"] else "rank-one", "cm%d" % cm, case["malformed"]))
            phi_in = np.array(phi)
            fr = Frozen(Sy=Sy_in, phi_FDD=phi_in)
            ro = RO_FORMS[k % 3]
            cs["readonly"] = ro
            for ro_try in ((ro, None) if ro else (None,)):
                try:
                    bell, ms = fdd.SDOF_bellandMS(present(Sy_in, ro_try), dt, case["sel"], present(phi_in, ro_try), method=method, cm=cm, MAClim=lim,
                                                  DF=case["DF"])
                    got = np.asarray(bell, complex)
                except Exception as e:  # noqa: BLE001
                    got = type(e).__name__
                if ro_try and isinstance(got, str):
                    first = got
                    continue  # judge the writable presentation too: the exception must not depend on the write flag
                if ro_try is None and ro and not isinstance(got, str):
                    ctx.fail("oracle", "fdd.SDOF_bellandMS(%s) raises %s only because Sy / phi_FDD are read-only (%s); with writable arrays it returns the bell"
                             % (method, first, ro), cs, key="C07:bell:readonly")
                break
            if fr.changed():
                ctx.fail("oracle", "fdd.SDOF_bellandMS(%s) modifies its input %s (memory layout %s)" % (method, "/".join(fr.changed()), layout), cs,
                         key="C07:bell:mutates-input")
                fr.restore()
            # (i) closed form of C07_bell_rank_one
            if case["rank_one"] is not None and not isinstance(got, str) and case["malformed"] is None and cm == 1:
                a = np.array(case["rank_one"]["a"])
                s = np.array(case["rank_one"]["s"])
                eps = case["rank_one"]["eps"]
                want = np.zeros(Nf)
                if method == "EFDD":
                    want[lo:hi] = s[lo:hi] * (a @ a) + eps
                else:
                    want[lo:hi] = s[lo:hi] * (phi.real @ a) ** 2 + eps * (phi.real @ phi.real)
                if got.shape != want.shape or not np.allclose(got, want, rtol=0, atol=TOL * np.abs(want).max()):
                    ctx.fail("oracle", "SDOF_bellandMS(%s) is not the closed form on a rank-one-plus-floor spectrum "
                             "(EFDD: s|phi|^2+eps, FSDD: s(phi_n.phi)^2+eps|phi_n|^2 on the band, 0 outside)" % method, cs,
                             key="C07:bell:%s:closed-form" % method)
            exprs.append("showBell (sdof_bell_z %s %d %d %d %s %s %s %s %s %d %s)" % (
                method, n, cm, Nf, qd(h), qd(case["sel"]), qd(case["DF"]), zlist(zc(phi)), qd(lim), lo, zlist(lines)))
            meta.append((cs, got, lo, hi, None))
            if k % 7 == 0 and case["malformed"] is None and not isinstance(got, str):
                # D. another contract-meeting SVD: the implementation under AltSVD, the model on the rephased stored vectors
                ph = unit_phases(k, n)
                cs2 = dict(cs, alt_svd=dict(phases=ph, rotate=not case["two"]))
                ctx.count(cs2, nontrivial=hi > lo and cm > 0 and lim < 1)
                ctx.hist("bell alt svd", (method, "two-mode" if case["two"] else "rank-one", "cm%d" % cm))
                with AltSVD(ph, rotate=not case["two"]) as alt:
                    try:
                        got2 = np.asarray(fdd.SDOF_bellandMS(Sy_in, dt, case["sel"], phi_in, method=method, cm=cm, MAClim=lim, DF=case["DF"])[0], complex)
                    except Exception as e:  # noqa: BLE001
                        got2 = type(e).__name__
                if alt.calls == 0:
                    ctx.not_judged += 1
                elif isinstance(got2, str) or got2.shape != got.shape or not np.allclose(got2, got, rtol=0, atol=TOL * max(np.abs(got).max(), 1e-300)):
                    ctx.fail("correspondence", "SDOF_bellandMS(%s) depends on WHICH contract-meeting SVD numpy.linalg.svd returns (columns of U, V times "
                             "unit-modulus numbers%s): %s - theorem C07_bell_svd_independent says the bell is the same" % (
                                 method, "" if case["two"] else ", floor subspace turned",
                                 got2 if isinstance(got2, str) else "max difference %.3g of %.3g" % (np.abs(got2 - got).max(), np.abs(got).max())),
                             cs2, key="C07:bell:svd-choice-%s" % method)
                # S_vec[c] = conj(U[:, c] t_c) = conj(U[:, c]) conj(t_c): the model multiplies the stored vector c by conj(t_c)
                tsz = "[" + "; ".join("(q %s %d, q %s %d)" % ("(%d)" % a_ if a_ < 0 else str(a_), c_, "(%d)" % -b_ if -b_ < 0 else str(-b_), c_)
                                      for a_, b_, c_ in ph[:cm]) + "]"
                exprs.append("showBell (sdof_bell_lt %s %d %d %d %s %s %s (dec_c %s) %s %d %s (dec_lines %d %d %s))" % (
                    method, n, cm, Nf, qd(h), qd(case["sel"]), qd(case["DF"]), zlist(zc(phi)), qd(lim), lo, tsz, n, cm, zlist(lines)))
                meta.append((cs2, got, lo, hi, len(exprs) - 2))
    res = ctx.coq_eval(HEADER, exprs, shard=4)
    for (cs, got, lo, hi, base), s in zip(meta, res):
        if base is not None:  # theorem C07_bell_rephase_invariant, executed: the very same string
            if s != res[base]:
                ctx.fail("correspondence", "the model bell evaluated on the stored vectors times unit-modulus numbers differs from the model bell on the "
                         "vectors themselves (C07_bell_rephase_invariant says equal): %s... vs %s..." % (s[:60], res[base][:60]), cs,
                         key="C07:bell:rephase-model")
            continue
        if s.startswith("E:"):
            if not isinstance(got, str) and cs.get("malformed"):
                ctx.note("SDOF_bellandMS returns on a malformed request (%s) where the model has %s: outside the property's quantifier" % (cs["malformed"], s))
            elif not isinstance(got, str):
                ctx.fail("correspondence", "SDOF_bellandMS returns where the model has %s" % s, cs, key="C07:bell:corr-raise")
            continue
        if isinstance(got, str):
            ctx.fail("correspondence", "SDOF_bellandMS raised %s, the model returns a bell" % got, cs, key="C07:bell:corr-raise")
            continue
        mlo, mhi, row = s.split("|")
        mlo, mhi = int(mlo), int(mhi)
        vals = [complex(float(parse_q(a)), float(parse_q(b))) for a, b in (t.split(",") for t in row.split(" ") if t)]
        want = np.zeros(cs["Nf"], complex)
        want[mlo:mhi] = vals
        if (mlo, mhi) != (lo, hi):
            ctx.fail("correspondence", "harness band (%d,%d) differs from the model's (%d,%d)" % (lo, hi, mlo, mhi), cs, key="C07:bell:band-harness")
        if got.shape != want.shape or not np.allclose(got, want, rtol=0, atol=TOL * max(np.abs(want).max(), 1e-300)):
            ctx.fail("correspondence", "SDOF_bellandMS(%s) differs from the model sdof_bell" % cs["method"], cs, key="C07:bell:corr-%s" % cs["method"])


# ----------------------------------------------------------------------------------------------------------------------
# B. EFDD_mpe after the inverse FFT
# ----------------------------------------------------------------------------------------------------------------------
def gen_decay_case(rng, k):
    Nf = int(rng.choice([96, 128, 160, 200, 257]))
    fs = float(rng.choice([16.0, 100.0, 1.0, 250.0]))
    n = int(rng.integers(2, 5))
    fn = float(rng.uniform(0.09, 0.22)) * fs
    xi = float(rng.uniform(0.012, 0.05))
    a = np.round(rng.uniform(-1, 1, n) * 16) / 16
    a[int(rng.integers(n))] = 1.0
    sppk = int(rng.choice([3, 3, 0, 1, 2, 4, 6]))
    npmax = int(rng.choice([20, 20, 5, 8, 12, 16, 25]))
    periods = fn * Nf / fs
    if 2 * periods < sppk + npmax + 4:  # keep most cases inside the record
        npmax = max(3, int(2 * periods) - sppk - 4)
    mal = None
    r = rng.random()
    r = {1: 0.05, 2: 0.13, 3: 0.17, 4: 0.10}.get(k, r)  # every malformed kind is present in the quick tier too
    if r < 0.08:
        sppk, mal = int(2 * periods) + int(rng.integers(0, 4)), "too few extrema"
    elif r < 0.12:
        npmax, mal = int(2 * periods) + 2, "too few extrema"
    elif r < 0.15:
        mal = "all-zero bell"
    elif r < 0.19:
        npmax, mal = int(rng.integers(0, 2)), "fewer than two fitted extrema"
    bw = 2 * xi * fn
    return dict(kind="decay", Nf=Nf, fs=fs, fn=fn, xi=xi, a=a.tolist(), eps=float(2.0 ** -int(rng.integers(20, 36))),
                gain=float(2.0 ** int(rng.integers(-10, 11))), sel=float(fn + bw * rng.uniform(-0.4, 0.4)), DF1=float(bw),
                DF2=float(bw * rng.uniform(3.0, 8.0)), sppk=sppk, npmax=npmax, methodSy=str(rng.choice(["per", "per", "cor"])),
                method=str(rng.choice(["EFDD", "FSDD"])), malformed=mal)


def run_decay(ctx, rng):
    exprs, meta = [], []
    for k in range(ctx.n(16, 120)):
        cs = gen_decay_case(rng, k)
        Nf, fs, a = cs["Nf"], cs["fs"], np.array(cs["a"])
        dt = 1.0 / fs
        f = np.arange(Nf) * fs / (2 * (Nf - 1))
        s = sdof_psd(f, cs["fn"], cs["xi"])
        s = cs["gain"] * s / s.max()
        eps = cs["gain"] * cs["eps"]
        Sy = s[None, None, :] * np.outer(a, a)[:, :, None] + eps * np.eye(len(a))[:, :, None]
        lim = 1.5 if cs["malformed"] == "all-zero bell" else 0.85
        ctx.count(cs, nontrivial=cs["malformed"] is None)
        ctx.hist("decay", (cs["method"], cs["methodSy"], "sppk%d" % cs["sppk"], "npmax%d" % cs["npmax"], cs["malformed"]))
        ctx.sample(cs)
        ro = RO_FORMS[k % 3]
        if ro:  # the outcome (estimates or exception kind) must not depend on the write flag of Sy / freq
            cs["readonly"] = ro
            outs = []
            for r_ in (ro, None):
                try:
                    o = fdd.EFDD_mpe(present(Sy, r_), present(f, r_), dt, [cs["sel"]], cs["methodSy"], method=cs["method"], DF1=cs["DF1"], DF2=cs["DF2"],
                                     MAClim=lim, sppk=cs["sppk"], npmax=cs["npmax"])
                    outs.append("ok")
                except Exception as e:  # noqa: BLE001
                    outs.append(type(e).__name__)
            if outs[0] != outs[1]:
                ctx.fail("oracle", "fdd.EFDD_mpe with read-only Sy / freq (%s): %s; with writable arrays: %s" % (ro, outs[0], outs[1]), cs, key="C07:mpe:readonly")
        try:
            Fn, Xi, Phi, PP = fdd.EFDD_mpe(present(Sy, ro), present(f, ro), dt, [cs["sel"]], cs["methodSy"], method=cs["method"], DF1=cs["DF1"], DF2=cs["DF2"],
                                           MAClim=lim, sppk=cs["sppk"], npmax=cs["npmax"])
            got = dict(Fn=float(np.ravel(Fn)[0]), Xi=float(np.ravel(Xi)[0]), bell=np.asarray(PP[0][2]), norm=np.asarray(PP[0][5]),
                       idx=[int(i) for i in PP[0][6]], lam=float(np.ravel(PP[0][7])[0]), delta=np.asarray(PP[0][8], float),
                       time=np.asarray(PP[0][1]))
        except Exception as e:  # noqa: BLE001
            got = type(e).__name__
        # harness' own bell (closed form), correlation and time axis
        h, bd = band_of(Nf, dt, cs["sel"], cs["DF2"])
        if bd is None:
            ctx.not_judged += 1
            continue
        lo, hi = bd
        phin = a / a[np.argmax(np.abs(a))]
        bell = np.zeros(Nf, complex)
        if lim < 1:
            bell[lo:hi] = (s[lo:hi] * (a @ a) + eps) if cs["method"] == "EFDD" else (s[lo:hi] * (phin @ a) ** 2 + eps * (phin @ phin))
        corr = np.fft.ifft(bell, n=5 * Nf, axis=0, norm="ortho").real
        tlag = 1 / (1 / dt / Nf)
        exprs.append("showDecay (efdd_time_z %s %s %d %d)" % (zlist(zq(corr)), qd(tlag), cs["sppk"], cs["npmax"]))
        meta.append((cs, got, bell, corr))
    res = ctx.coq_eval(HEADER, exprs, shard=1)
    fit_exprs, fit_meta = [], []
    for (cs, got, bell, corr), s in zip(meta, res):
        if s.startswith("E:"):
            if s == "E:NoModel":
                if not isinstance(got, str) and np.isfinite(got["Fn"]) and np.isfinite(got["Xi"]):
                    ctx.fail("correspondence", "EFDD_mpe returns finite estimates where the model has nan/inf arithmetic", cs, key="C07:mpe:corr-nomodel")
            elif not isinstance(got, str):
                ctx.fail("correspondence", "EFDD_mpe returns where the model has %s" % s, cs, key="C07:mpe:corr-raise")
            elif s == "E:Index" and got not in ("IndexError", "ValueError"):
                # too few correlation extrema for the requested fit (outside the property's quantifier): the present code runs off the end of a
                # list (IndexError); an explicit ValueError says the same thing - only another outcome is a difference
                ctx.fail("correspondence", "EFDD_mpe raised %s where the record holds too few extrema (model: IndexError)" % got, cs, key="C07:mpe:corr-raise")
            continue
        if isinstance(got, str):
            ctx.fail("correspondence", "EFDD_mpe raised %s, the model returns a fit" % got, cs, key="C07:mpe:corr-raise")
            continue
        sidx, sratio, sTd = s.split("|")
        idx = [int(t) for t in sidx.split(" ") if t]
        ratio = np.array([float(x) for x in parse_row(sratio)])
        Td = parse_q(sTd)
        if got["bell"].shape != bell.shape or not np.allclose(got["bell"], bell, rtol=0, atol=TOL * np.abs(bell).max()):
            ctx.fail("correspondence", "PerPlot SDOF bell (%s) differs from the closed form" % cs["method"], cs, key="C07:mpe:corr-bell")
            continue
        mx = corr[np.argmax(corr)]
        norm = corr[: len(corr) // 2] / mx
        if got["norm"].shape != norm.shape or not np.allclose(got["norm"], norm, rtol=0, atol=TOL):
            ctx.fail("correspondence", "normalised correlation differs from ifft(bell, 5*Nf, ortho).real[:half]/max", cs, key="C07:mpe:corr-norm")
            continue
        if np.abs(norm).min() < 1e-11:
            ctx.not_judged += 1
            continue
        if got["idx"] != idx:
            close = len(got["idx"]) == len(idx) and all(abs(norm[i] - norm[j]) < 1e-10 for i, j in zip(got["idx"], idx))
            if close:
                ctx.not_judged += 1
            else:
                ctx.fail("correspondence", "extremum indices %s differ from the model's %s" % (got["idx"][:6], idx[:6]), cs, key="C07:mpe:corr-idx")
            continue
        delta = np.log(ratio)
        if got["delta"].shape != delta.shape or not np.allclose(got["delta"], delta, rtol=0, atol=TOL * max(1.0, np.abs(delta).max())):
            ctx.fail("correspondence", "logarithmic decrements differ from log of the model's ratios", cs, key="C07:mpe:corr-delta")
            continue
        Nf = cs["Nf"]
        tau = -(Nf - 1) / np.log(0.01)
        sd = {"per": "Per", "cor": "Cor"}[cs["methodSy"]]
        fit_exprs.append("showFit %s %s %s %s (dec_q %s)" % (sd, qd(1 / tau), qd(np.pi**2), qc(Td), zlist(zq(delta))))
        fit_meta.append((cs, got))
    res = ctx.coq_eval(HEADER, fit_exprs, shard=40)
    for (cs, got), s in zip(fit_meta, res):
        lam, xi2, fn2 = [float(parse_q(t)) for t in s.split("|")]
        if not abs(got["lam"] - lam) <= 1e-7 * abs(lam):  # curve_fit iterates to ftol 1e-8
            ctx.fail("correspondence", "lam %.12g differs from the model's %.12g (2*least-squares slope%s)" % (
                got["lam"], lam, " - 1/tau" if cs["methodSy"] == "cor" else ""), cs, key="C07:mpe:corr-lam")
        if not abs(got["Xi"] ** 2 - xi2) <= 1e-6 * abs(xi2):
            ctx.fail("correspondence", "Xi^2 %.12g differs from the model's lam^2/(4pi^2+lam^2) = %.12g" % (got["Xi"] ** 2, xi2), cs, key="C07:mpe:corr-xi")
        if not abs(got["Fn"] ** 2 - fn2) <= 1e-6 * abs(fn2):
            ctx.fail("correspondence", "Fn^2 %.12g differs from the model's fd^2/(1-xi^2) = %.12g" % (got["Fn"] ** 2, fn2), cs, key="C07:mpe:corr-fn")


# ----------------------------------------------------------------------------------------------------------------------
# C. classes
# ----------------------------------------------------------------------------------------------------------------------
MPE_ORDER = ("DF1", "DF2", "cm", "MAClim", "sppk", "npmax")  # EFDD.mpe(sel_freq, DF1, DF2, cm, MAClim, sppk, npmax): the documented order
MPE_DEFAULTS = dict(DF1=0.1, DF2=1.0, cm=1, MAClim=0.85, sppk=3, npmax=20)


def positional_forms(ctx, case, ss, alg, spec, phi, kwref):
    """The documented positional call forms of the class-level mpe - setup.mpe(name, sel_freq, DF1, DF2, cm, MAClim, sppk, npmax)
    (all seven), alg.mpe(sel_freq, DF1, DF2) (band widths only) - on the object that has just answered the keyword call:
    same Fn / Xi / Phi as the keyword call (kwref, 1e-12), inside the property's envelope, and run_params holds what was passed."""
    full = dict(MPE_DEFAULTS, DF1=spec["DF1"], DF2=spec["DF2"])
    forms = (("setup.mpe(name, sel_freq, DF1, DF2, cm, MAClim, sppk, npmax)", lambda: ss.mpe("a", [spec["sel"]], *[full[k] for k in MPE_ORDER])),
             ("alg.mpe(sel_freq, DF1, DF2)", lambda: alg.mpe([spec["sel"]], spec["DF1"], spec["DF2"])))
    for name, call in forms:
        cs = dict(case, kind="class-positional", call_form=name)
        ctx.count(cs, nontrivial=True)
        ctx.hist("class call form", name)
        try:
            call()
            Fn, Xi, Phi = np.array(alg.result.Fn, float), np.array(alg.result.Xi, float), np.array(alg.result.Phi)
            rp = {k: getattr(alg.run_params, k, None) for k in MPE_ORDER}
        except Exception as e:  # noqa: BLE001
            ctx.fail("oracle", "%s.mpe called positionally as %s raised %s: %s - the keyword call with the same values succeeds" % (
                case["cls"], name, type(e).__name__, str(e)[:80]), cs, key="C07:class:positional-raises")
            continue
        m = mac(Phi[:, 0], phi) if np.ndim(Phi) == 2 and Phi.shape[0] == len(phi) else float("nan")
        efn, exi = abs(Fn[0] - spec["fn"]) / spec["fn"], abs(Xi[0] - spec["xi"]) / spec["xi"]
        if not (m >= 0.999 and efn <= 0.025 and exi <= 0.15):
            ctx.fail("oracle", "%s.mpe called positionally as %s with DF1 = %g, DF2 = %g: fn %.6g (true %.6g, error %.2f %%), xi %.5g (true %.5g, error "
                     "%.1f %%), MAC %.5f - outside 2.5 %% / 15 %% / 0.999 (the keyword call gives fn %.6g, xi %.5g)" % (
                         case["cls"], name, spec["DF1"], spec["DF2"], Fn[0], spec["fn"], 100 * efn, Xi[0], spec["xi"], 100 * exi, m, kwref[0][0], kwref[1][0]),
                     cs, key="C07:class:positional-envelope")
        if not (Fn.shape == kwref[0].shape and np.allclose(Fn, kwref[0], rtol=1e-12, atol=0) and np.allclose(Xi, kwref[1], rtol=1e-12, atol=0)
                and np.shape(Phi) == np.shape(kwref[2]) and np.allclose(Phi, kwref[2], rtol=1e-12, atol=1e-15)):
            ctx.fail("oracle", "%s.mpe called positionally as %s gives fn %.12g, xi %.12g; the same values passed by keyword give fn %.12g, xi %.12g "
                     "(true %.6g, %.4g; DF1 = %g, DF2 = %g)" % (case["cls"], name, Fn[0], Xi[0], kwref[0][0], kwref[1][0], spec["fn"], spec["xi"],
                                                                 spec["DF1"], spec["DF2"]), cs, key="C07:class:positional-differs")
        want = full if name.startswith("setup") else dict(DF1=spec["DF1"], DF2=spec["DF2"])
        bad = {k: rp[k] for k in want if rp[k] is not None and rp[k] != want[k]}
        if bad:
            ctx.fail("oracle", "%s.mpe called positionally as %s: run_params records %r, passed %r" % (case["cls"], name, bad, {k: want[k] for k in bad}), cs,
                     key="C07:class:positional-run-params")


def run_classes(ctx, rng):
    from pyoma2.algorithms import EFDD, FSDD
    from pyoma2.setup import SingleSetup

    sp_all = special_shape_points(False)
    specs = [sp_all[i] for i in ((0, 2, 4) if ctx.quick() else range(len(sp_all)))]
    # band widths for which the library default DF2 = 1.0 Hz is far too narrow (1.25 bandwidths) / far too wide (the whole axis)
    specs += [dict(kind="envelope", fs=100.0, nxseg=2048, fn=20.0, xi=0.02, phi=[1.0, -0.5, 0.75, 0.25], eps_rel=1e-9, gain=1.0, DF2=4.0, DF1=0.15, sel=20.05),
              dict(kind="envelope", fs=1.0, nxseg=2048, fn=0.11, xi=0.03, phi=[0.5, 1.0, -0.25], eps_rel=1e-7, gain=1e2, DF2=0.03, DF1=0.004, sel=0.1105)]
    for k in range(ctx.n(3, 16)):
        spec = gen_envelope(rng, big=False)
        spec["nxseg"] = min(spec["nxseg"], 2600)
        while not in_envelope(spec["fs"], spec["nxseg"], spec["fn"], spec["xi"], spec["DF2"]):
            spec = gen_envelope(rng, big=False)
            spec["nxseg"] = min(spec["nxseg"], 2600)
        specs.append(spec)
    for k, spec in enumerate(specs):
        fs, nxseg = spec["fs"], spec["nxseg"]
        phi = np.array(spec["phi"])
        f, Sy, s, eps = build_sy(fs, nxseg, spec["fn"], spec["xi"], phi, spec["eps_rel"], spec["gain"])
        data = rng.standard_normal((nxseg + 64, len(phi)))
        for cls, method in ((EFDD, "EFDD"), (FSDD, "FSDD")):
            case = dict(spec, kind="class", cls=cls.__name__)
            ctx.count(case, nontrivial=True)
            ss = SingleSetup(data.copy(), fs=fs)
            alg = cls(name="a", nxseg=nxseg, method_SD="per")
            ss.add_algorithms(alg)
            ss.run_by_name("a")
            if alg.result.Sy.shape != Sy.shape or not np.allclose(alg.result.freq, f, rtol=1e-12, atol=0):
                ctx.fail("correspondence", "%s.run: spectral grid is not k*fs/nxseg, k=0..nxseg/2" % cls.__name__, case, key="C07:class:grid")
                continue
            layout = LAYOUTS[k % 3]
            ro = RO_FORMS[(k + (method == "FSDD")) % 3]
            case["readonly"] = ro
            laid, freq0 = lay_out(Sy.astype(complex), layout), np.array(alg.result.freq)
            alg.result.Sy, alg.result.freq = present(laid, ro), present(freq0, ro)
            sel_in = [spec["sel"]]
            fr = Frozen(Sy=laid, freq=freq0)
            try:
                ss.mpe("a", sel_freq=sel_in, DF1=spec["DF1"], DF2=spec["DF2"])
                r = alg.result
                if fr.changed() or sel_in != [spec["sel"]]:
                    ctx.fail("oracle", "%s.mpe modifies result.Sy / result.freq / sel_freq (memory layout %s)" % (cls.__name__, layout), case,
                             key="C07:class:mutates-input")
                    fr.restore()
                Fn, Xi, Phi, PP = fdd.EFDD_mpe(lay_out(Sy.astype(complex), layout), f, 1.0 / fs, [spec["sel"]], "per", method=method,
                                               DF1=spec["DF1"], DF2=spec["DF2"])
                same = (np.shape(r.Fn) == (1,) and np.shape(r.Xi) == (1,) and np.allclose(r.Fn, np.ravel(Fn), rtol=TOL, atol=0)
                        and np.allclose(r.Xi, np.ravel(Xi), rtol=TOL, atol=0) and np.allclose(r.Phi, Phi, rtol=TOL, atol=1e-12)
                        and np.allclose(r.forPlot[0][2], PP[0][2], rtol=TOL, atol=0))
                Fnc, Xic, m = float(r.Fn[0]), float(r.Xi[0]), mac(r.Phi[:, 0], phi)
                bell = np.asarray(r.forPlot[0][2])
                kwref = (np.array(r.Fn, float), np.array(r.Xi, float), np.array(r.Phi))
            except Exception as e:  # noqa: BLE001
                ctx.fail("oracle", "%s.mpe raised %s: %s - inside the property's envelope%s" % (cls.__name__, type(e).__name__, str(e)[:80], ro_note(case)), case,
                         key="C07:class:raises")
                continue
            if not same:
                ctx.fail("correspondence", "%s.mpe result is not fdd.EFDD_mpe(result.Sy, result.freq, dt, sel, method_SD, method=%s)" % (cls.__name__, method),
                         case, key="C07:class:glue-%s" % method)
            # the class uses ITS method's bell
            nz = np.nonzero(bell)[0]
            phin = phi / phi[np.argmax(np.abs(phi))]
            want = (s[nz] * (phi @ phi) + eps) if method == "EFDD" else (s[nz] * (phin @ phi) ** 2 + eps * (phin @ phin))
            if len(nz) == 0 or not np.allclose(bell[nz], want, rtol=1e-9, atol=0):
                ctx.fail("oracle", "%s.mpe: bell on the band is not the %s closed form" % (cls.__name__, method), case, key="C07:class:bell-%s" % method)
            if not (m >= 0.999 and abs(Fnc - spec["fn"]) <= 0.025 * spec["fn"] and abs(Xic - spec["xi"]) <= 0.15 * spec["xi"]):
                ctx.fail("oracle", "%s.mpe: Fn %.6g (true %.6g), Xi %.5g (true %.5g), MAC %.5f outside the envelope" % (
                    cls.__name__, Fnc, spec["fn"], Xic, spec["xi"], m), case, key="C07:class:envelope-%s" % method)
            # the documented positional call forms on the same object
            positional_forms(ctx, case, ss, alg, spec, phi, kwref)
            # history on the same objects: the stored spectral matrix is refilled in place with another mode, mpe again
            fn2 = spec["fn"] * 1.12 if spec["fn"] * 1.12 <= 0.25 * fs else spec["fn"] / 1.12
            xi2 = 0.07 - spec["xi"]
            bw2 = 2 * xi2 * fn2
            spec2 = dict(spec, fn=fn2, xi=xi2, phi=phi[::-1].tolist(), DF1=bw2, DF2=max(spec["DF2"], 4.2 * bw2), sel=fn2 + 0.2 * bw2)
            if not in_envelope(fs, nxseg, fn2, xi2, spec2["DF2"]):
                continue
            _, Sy2, _, _ = build_sy(fs, nxseg, fn2, xi2, phi[::-1], spec["eps_rel"], spec["gain"] * 3.0)
            if ro == "broadcast":  # a broadcast presentation does not share the buffer being refilled
                alg.result.Sy = laid
            laid[...] = Sy2
            case2 = dict(spec2, kind="class-refill", cls=cls.__name__, first=spec)
            ctx.count(case2, nontrivial=True)
            try:
                ss.mpe("a", sel_freq=[spec2["sel"]], DF1=spec2["DF1"], DF2=spec2["DF2"])
                Fnc, Xic, m = float(alg.result.Fn[0]), float(alg.result.Xi[0]), mac(alg.result.Phi[:, 0], phi[::-1])
            except Exception as e:  # noqa: BLE001
                ctx.fail("oracle", "%s.mpe raised %s after result.Sy was refilled in place with another mode's spectrum" % (cls.__name__, type(e).__name__),
                         case2, key="C07:class:refill-raises")
                continue
            if not (m >= 0.999 and abs(Fnc - fn2) <= 0.025 * fn2 and abs(Xic - xi2) <= 0.15 * xi2):
                ctx.fail("oracle", "%s.mpe after an in-place refill of result.Sy: Fn %.6g (true %.6g), Xi %.5g (true %.5g), MAC %.5f" % (
                    cls.__name__, Fnc, fn2, Xic, xi2, m), case2, key="C07:class:refill-%s" % method)


def _make_alg(cls, data, fs, nxseg, Sy, f, ro=None):
    from pyoma2.setup import SingleSetup

    ss = SingleSetup(data.copy(), fs=fs)
    alg = cls(name="a", nxseg=nxseg, method_SD="per")
    ss.add_algorithms(alg)
    ss.run_by_name("a")
    assert alg.result.Sy.shape == Sy.shape and np.allclose(alg.result.freq, f, rtol=1e-12, atol=0)
    # run_params.nxseg is the segment length the injected matrix was built for: result.Sy has nxseg // 2 + 1 lines
    assert alg.run_params.nxseg == nxseg and Sy.shape[2] == nxseg // 2 + 1
    alg.result.Sy, alg.result.freq = present(Sy.astype(complex), ro), present(np.array(alg.result.freq), ro)
    return ss, alg


def oracle_class_sequence(ctx, seq):
    """Histories of mpe calls on ONE EFDD / FSDD object (exact Sy injected): a call that omits DF1, DF2, cm, MAClim, sppk,
    npmax asks for the documented defaults (0.1, 1.0, 1, 0.85, 3, 20) whatever was passed before: it must equal the
    default-argument result of a fresh object (1e-12) and meet the envelope.  steps: list of keyword dicts, {} = defaults."""
    from pyoma2.algorithms import EFDD, FSDD

    spec = seq["spec"]
    fs, nxseg, fn, xi = spec["fs"], spec["nxseg"], spec["fn"], spec["xi"]
    phi = np.array(spec["phi"], float)
    # the library defaults DF1 = 0.1 Hz, DF2 = 1.0 Hz must themselves be inside the property's quantifier
    always = dict(seq.get("always", {}))  # keywords passed in EVERY call (DF1/DF2 where the default band is outside the quantifier)
    assert in_envelope(fs, nxseg, fn, xi, always.get("DF2", 1.0)) and abs(spec["sel"] - fn) < always.get("DF1", 0.1), spec
    f, Sy, _, _ = build_sy(fs, nxseg, fn, xi, phi, spec["eps_rel"], spec["gain"])
    data = np.random.default_rng(12345).standard_normal((nxseg + 64, len(phi)))
    for cls in (EFDD, FSDD):
        if cls.__name__ not in seq.get("classes", ("EFDD", "FSDD")):
            continue
        base = dict(kind="class-sequence", cls=cls.__name__, spec=spec, always=always)
        try:
            ss0, fresh = _make_alg(cls, data, fs, nxseg, Sy, f)
            ss0.mpe("a", sel_freq=[spec["sel"]], **always)
            ref = (np.array(fresh.result.Fn, float), np.array(fresh.result.Xi, float), np.array(fresh.result.Phi))
        except Exception as e:  # noqa: BLE001
            ctx.fail("oracle", "%s.mpe(sel_freq) with default arguments raised %s inside the property's envelope" % (cls.__name__, type(e).__name__),
                     base, key="C07:class-seq:raises")
            continue
        for si, steps in enumerate(seq["sequences"]):
            ro = RO_FORMS[(si + (cls is FSDD)) % 3]
            ss, alg = _make_alg(cls, data, fs, nxseg, Sy, f, ro)
            for i, kw in enumerate(steps):
                case = dict(base, steps=steps[: i + 1], step=i, readonly=ro)
                ctx.count(case, nontrivial=i > 0)
                ctx.hist("oracle class sequence", "%s step %d %s" % (cls.__name__, i, "defaults" if not kw else "explicit"))
                try:
                    if si % 2 == 1 and set(always) == {"DF1", "DF2"} and not ({"DF1", "DF2"} & set(kw)):
                        case["call_form"] = "setup.mpe(name, sel_freq, DF1, DF2, **others)"  # the band widths positionally, in the documented order
                        ss.mpe("a", [spec["sel"]], always["DF1"], always["DF2"], **kw)
                    else:
                        ss.mpe("a", sel_freq=[spec["sel"]], **dict(always, **kw))
                    Fn, Xi, Phi = np.array(alg.result.Fn, float), np.array(alg.result.Xi, float), np.array(alg.result.Phi)
                except Exception as e:  # noqa: BLE001
                    if not kw:
                        ctx.fail("oracle", "%s.mpe with default arguments raised %s: %s - after the calls %r on the same object%s" % (
                            cls.__name__, type(e).__name__, str(e)[:80], steps[:i], ro_note(case)), case, key="C07:class-seq:raises")
                    continue
                if kw:
                    continue  # explicit non-default parameters: legal, outside the "default sppk/npmax/MAClim" clause
                m = mac(Phi[:, 0], phi)
                efn, exi = abs(Fn[0] - fn) / fn, abs(Xi[0] - xi) / xi
                if not (m >= 0.999 and efn <= 0.025 and exi <= 0.15):
                    ctx.fail("oracle", "%s.mpe(sel_freq) with default arguments after the calls %r on the same object: fn %.6g (true %.6g, error %.2f %%), "
                             "xi %.5g (true %.5g, error %.1f %%), MAC %.5f" % (cls.__name__, steps[:i], Fn[0], fn, 100 * efn, Xi[0], xi, 100 * exi, m),
                             case, key="C07:class-seq:envelope-%s" % cls.__name__)
                if not (Fn.shape == ref[0].shape and np.allclose(Fn, ref[0], rtol=1e-12, atol=0) and np.allclose(Xi, ref[1], rtol=1e-12, atol=0)
                        and np.allclose(Phi, ref[2], rtol=1e-12, atol=1e-15)):
                    ctx.fail("oracle", "%s.mpe(sel_freq) with default arguments after the calls %r gives fn %.12g, xi %.12g; a fresh object gives fn %.12g, "
                             "xi %.12g (true %.6g, %.4g)" % (cls.__name__, steps[:i], Fn[0], Xi[0], ref[0][0], ref[1][0], fn, xi), case,
                             key="C07:class-seq:sticky-%s" % cls.__name__)


ND_A = dict(sppk=0, npmax=2)
ND_B = dict(DF1=0.3, DF2=0.7, cm=2, MAClim=0.5, sppk=1, npmax=8)
ND_C = dict(sppk=6, npmax=30, MAClim=0.99, DF2=2.5)


def fixed_class_sequences(thorough):
    """Deterministic call histories on one algorithm object (both tiers)."""
    S1 = dict(kind="envelope", fs=50.0, nxseg=2048, fn=3.1, xi=0.02, phi=[1.0, -0.5, 0.25], eps_rel=1e-10, gain=1.0, sel=3.12)
    S2 = dict(kind="envelope", fs=100.0, nxseg=4096, fn=11.9, xi=0.03, phi=[0.0, 1.0, -0.5, 0.75], eps_rel=1e-9, gain=1e-3, sel=11.95)
    nd = dict(cm=2, MAClim=0.5, sppk=1, npmax=8)
    out = [dict(spec=S1, sequences=[[ND_A, {}, {}], [{}, ND_B, {}]]),
           dict(spec=S2, always=dict(DF1=0.7, DF2=3.0), sequences=[[nd, ND_A, {}], [{}, {}, dict(sppk=6, npmax=30, MAClim=0.99), {}]])]
    if thorough:
        S3 = dict(kind="envelope", fs=20.0, nxseg=2600, fn=1.3, xi=0.05, phi=[1.0, 1.0], eps_rel=1e-11, gain=1e4, sel=1.28)
        out += [dict(spec=S3, sequences=[[ND_C, {}, ND_A, {}, {}], [ND_A, ND_B, ND_C, {}]]),
                dict(spec=S1, sequences=[[ND_B, {}], [ND_C, {}], [ND_A, ND_A, {}]])]
    return out


# ----------------------------------------------------------------------------------------------------------------------
def run(ctx):
    rng = ctx.np_rng
    ctx.extra["rule"] = ("oracle: points of the property's envelope (fs over 0.05..1e5, nxseg, fn, xi, shape, floor, gain, DF2, scale c, memory layout C/F/view) "
                         "x {EFDD, FSDD}, inputs bit-equal after every call; histories on one ndarray refilled in place; fs sweeps at fixed fn/fs, xi; "
                         "bell: small rank-one / two-mode Hermitian spectra x method x cm x MAClim (+ malformed bands); decay: small analytic "
                         "spectra x sppk x npmax x per/cor (+ too few extrema, all-zero bell); non-trivial = non-empty band with an active "
                         "bell / a fit that is carried out; distinct by hash of the case; which-SVD: a share of the envelope points and of the bell "
                         "cases is repeated with numpy.linalg.svd answering with another contract-meeting triple (unit-modulus column factors, floor "
                         "subspace turned) and the model is evaluated on the rephased stored vectors; class-level mpe in keyword and in the documented "
                         "positional call forms with band widths for which the default DF2 = 1.0 Hz is far too narrow / too wide")
    ctx.assumptions += [
        "oracle contract: numpy.linalg.svd returns U, S, V^H with A = U diag(S) V^H, U^H U = I, V^H V = I (Section hypothesis svd_ok of C07_efdd_bell_homogeneous)",
        "oracle contract: numpy.linalg.svd returns S non-negative with S[0] the largest (hypothesis sv_first_max of C07_first_singular_pair_unique / "
        "C07_bell_svd_independent); WHICH triple meeting the contract it returns is no longer assumed: proved irrelevant under the gap S[0] > S[1], one mode",
        "oracle contract: numpy.fft.ifft is linear (hypothesis ifft_homog of C07_efdd_pipeline_scale_invariant); its values enter the executed model as witness inputs",
        "oracle contract: scipy.optimize.curve_fit(m*x) returns the least-squares slope sum(k d_k)/sum(k^2) (checked at 1e-7 on every decay case)",
        "numpy.log / sqrt: the model computes their arguments (ratios), xi^2 and fn^2; the harness applies numpy.log to the model's ratios",
        "the accuracy envelope (2.5 % / 15 %, MAC >= 0.999) is NOT a theorem: it is covered by the oracle sweep only (C07_full_statement is a Definition)",
        "phi_FDD (fdd.FDD_mpe) is an input of this model (its own model and theorems are C06)",
    ]
    # ---- corpus first: failing inputs of the repaired sqrt(sigma) bell
    for path in sorted(glob.glob(os.path.join(VERIF, "corpus", "C07", "*.json"))):
        spec = json.load(open(path))
        if spec["kind"] == "sequence":
            oracle_sequence(ctx, spec)
        elif spec["kind"] == "fs-sweep":
            oracle_fs_sweep(ctx, spec, tuple(spec.get("fss", FS_DECADES)))
        elif spec["kind"] == "multipick":
            oracle_multipick(ctx, spec)
        elif spec["kind"] == "intpick":
            oracle_intpick(ctx, spec)
        elif spec["kind"] == "class-sequence":
            oracle_class_sequence(ctx, spec)
        else:
            oracle_case(ctx, spec, methods=tuple(spec.get("methods", ("EFDD", "FSDD"))))
    # ---- histories on one array object, sampling rates over many decades (both tiers)
    seqs, sweeps = fixed_histories(not ctx.quick())
    for q in seqs:
        oracle_sequence(ctx, q)
    for b in sweeps:
        oracle_fs_sweep(ctx, b)
    # ---- several picks in one call, integer-valued picks (both tiers)
    multi, ints = fixed_picks(not ctx.quick())
    for k in range(ctx.n(2, 12)):
        m_, i_ = gen_picks(rng)
        multi.append(m_)
        if i_ is not None:
            ints.append(i_)
    for sp in multi:
        oracle_multipick(ctx, sp)
    for sp in ints:
        oracle_intpick(ctx, sp)
    # ---- mode shapes with nodes (exact zeros), sign patterns, equal magnitudes (both tiers)
    for spec in special_shape_points(not ctx.quick()):
        ctx.hist("oracle special shape", str(spec["phi"]))
        oracle_case(ctx, spec)
    # ---- deterministic corners of the envelope (both tiers)
    for spec in corner_points(not ctx.quick()):
        ctx.hist("oracle corner", (spec["nxseg"], spec["end"], spec["xi"]))
        oracle_case(ctx, spec)
    # ---- oracle sweep over the envelope
    for k in range(ctx.n(10, 200)):
        sp = gen_envelope(rng, big=not ctx.quick() or k % 7 == 0)
        if k % 4 == 1:
            sp["alt_svd"] = k  # ... also with another contract-meeting answer of numpy.linalg.svd
        oracle_case(ctx, sp)
    # ---- call histories on one EFDD / FSDD object (both tiers)
    for q in fixed_class_sequences(not ctx.quick()):
        oracle_class_sequence(ctx, q)
    run_bell(ctx, rng)
    run_decay(ctx, rng)
    run_classes(ctx, rng)
