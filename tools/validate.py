#!/usr/bin/env python3
"""Validate MANIFEST.json and every evidence file against the schemas (run with python3-vt)."""
import json, glob, sys, jsonschema
ok = True
def v(path, schema):
    global ok
    try:
        jsonschema.validate(json.load(open(path)), json.load(open(schema)))
    except Exception as e:
        ok = False
        print("INVALID", path, str(e)[:300])
v('/verif/MANIFEST.json', '/root/.vp/MANIFEST.schema.json')
for c in json.load(open('/verif/MANIFEST.json'))['checks']:
    v(c['evidence_file'], '/root/.vp/EVIDENCE.schema.json')
print("valid" if ok else "NOT VALID")
sys.exit(0 if ok else 1)
