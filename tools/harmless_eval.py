#!/usr/bin/env python3
"""Run a property check against a behaviour-preserving change, in a scratch worktree of /repo (removed afterwards).

usage: harmless_eval.py <property id> <patch.diff> [--tier quick]
The change was written by an independent sub-agent told to preserve the property; the check is expected to exit 0.
An exit 1 is a candidate false alarm and is looked at by hand (either the change is not harmless after all, or the
check demands more than the property states and is corrected).  /repo itself is never touched (VERIF_REPO_SRC aid).
"""
import json, os, re, subprocess, sys, tempfile, shutil

def sh(cmd, env=None, timeout=5400):
    p = subprocess.run(cmd, shell=True, capture_output=True, text=True, env=env, timeout=timeout)
    return p.returncode, p.stdout + p.stderr

def main():
    pid, patch = sys.argv[1:3]
    opts = sys.argv[3:]
    tier = opts[opts.index("--tier") + 1] if "--tier" in opts else "quick"
    wt = tempfile.mkdtemp(prefix="harmwt_%s_" % pid, dir="/tmp")
    os.rmdir(wt)
    out = {"property": pid, "patch": patch}
    rc, o = sh("git -C /repo worktree add -q --detach %s HEAD" % wt)
    assert rc == 0, o
    try:
        rc, o = sh("git -C %s apply %s" % (wt, os.path.abspath(patch)))
        assert rc == 0, "patch does not apply: " + o
        env = dict(os.environ, PYTHONPATH=wt + "/src", MPLBACKEND="Agg", TQDM_DISABLE="1", PYTHONDONTWRITEBYTECODE="1")
        if "--no-suite" not in opts:
            rc, o = sh("cd %s && /venv/bin/python -m pytest -q -p no:cacheprovider --timeout=900 --continue-on-collection-errors 2>&1 | tail -3" % wt, env)
            m = re.search(r"(\d+) passed", o)
            out["suite_passed"] = int(m.group(1)) if m else None
        env2 = dict(os.environ, VERIF_REPO_SRC=wt + "/src")
        rc, o = sh("/venv/bin/python /verif/harness/check.py %s --no-proof --tier %s" % (pid, tier), env2)
        out["check_rc"] = rc
        out["check_lines"] = [l for l in o.splitlines() if l.startswith(("VIOLATION", "KNOWN-FINDING"))][:8]
        if rc != 0:
            out["check_tail"] = o[-1500:]
            reps = []
            for l in out["check_lines"]:
                m = re.search(r"replay=(\S+)", l)
                if m and os.path.exists(m.group(1)):
                    try:
                        r = json.load(open(m.group(1)))
                        reps.append({k: (str(r[k])[:600]) for k in r if k in ("kind", "what", "key")})
                    except Exception as e:
                        reps.append(str(e))
            out["replays"] = reps
    finally:
        sh("git -C /repo worktree remove --force %s" % wt)
        shutil.rmtree(wt, ignore_errors=True)
    print(json.dumps(out, indent=1))

if __name__ == "__main__":
    main()
