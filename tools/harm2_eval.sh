#!/bin/bash
# usage: tools/harm2_eval.sh Cxx -- keep the second-round behaviour-preserving changes written in /tmp/wh2_Cxx/harmless as harmless/Cxx-{5,6,7} and run the check against each
p=$1; cd /verif
for k in 1 2 3; do
  src=/tmp/wh2_$p/harmless; [ -f $src/h$k.diff ] || continue
  d=harmless/$p-$((k+4)); mkdir -p $d
  cp $src/h$k.diff $d/patch.diff; cp $src/h$k.txt $d/description.txt 2>/dev/null; cp $src/h${k}_equiv.py $d/equiv.py 2>/dev/null
  /venv/bin/python tools/harmless_eval.py $p $d/patch.diff > .work/harm2_$p-$k.json 2>&1
  python3 - <<PY
import json
t=open('/verif/.work/harm2_$p-$k.json').read()
try:
    d=json.loads(t[t.index('{'):])
    json.dump({"property":"$p","suite_passed":d.get("suite_passed"),"check_cmd":"VERIF_REPO_SRC=<worktree>/src harness/check.py $p --no-proof --tier quick (escalated seeds, since the module fingerprint differs)","check_rc":d["check_rc"],"check_lines":d["check_lines"][:4],"replays":d.get("replays",[])[:3]}, open('/verif/$d/result.json','w'), indent=1)
    print('$p-$((k+4))', 'suite=%s'%d.get('suite_passed'), 'rc=%s'%d['check_rc'], [ (r.get('key'), r.get('what','')[:160]) if isinstance(r,dict) else r for r in d.get('replays',[])][:2], flush=True)
except Exception as e: print('$p-$((k+4))', 'ERR', t[-300:], flush=True)
PY
done
