#!/bin/bash
# usage: tools/round7_eval.sh Cxx  -- stage the round-8 changes written in /tmp/wt8_Cxx/mutants and evaluate them (seeded/Cxx-17, Cxx-18)
p=$1
cd /verif
mkdir -p seeded_staging/${p}r8
cp /tmp/wt8_$p/mutants/m[12].diff /tmp/wt8_$p/mutants/m[12]_demo.py /tmp/wt8_$p/mutants/m[12].txt seeded_staging/${p}r8/ 2>/dev/null
for k in 1 2; do /venv/bin/python tools/seed_keep.py $p $k --staging ${p}r8 --as $((k+16)) 2>&1 | python3 -c "
import sys,json
t=sys.stdin.read()
try:
    d=json.loads(t[t.index('{'):]); print('$p-$((k+16))', 'confirmed' if d['confirmed'] else 'NOT confirmed', 'detected' if d['detected'] else 'MISSED', 'input' if d['with_failing_input'] else 'no-input', d['demo'], d.get('suite'), flush=True)
except Exception as e: print('$p-$((k+16))', t[-600:])
"; done
