#!/bin/bash
# integrate.sh Cxx [Cyy ...] : regenerate MANIFEST/_CoqProject from meta/, build, run the quick checks, commit on success.
set -u
cd /verif
python3 tools/gen_manifest.py || exit 2
(cd coq && coq_makefile -f _CoqProject -o Makefile >/dev/null && timeout 3000 make -j16 2>&1 | grep -E "Error|error|rror:" -A5 | head -30)
ok=1
for p in "$@"; do
  /venv/bin/python harness/check.py $p --tier quick > .work/integrate_$p.out 2>&1; rc=$?
  out=$(grep -v conda.cli .work/integrate_$p.out)
  echo "$p rc=$rc :: $(echo "$out" | cut -c1-200 | head -5)"
  if [ $rc != 0 ]; then ok=0; fi
done
if [ $ok = 1 ]; then
  files="meta MANIFEST.json coq/_CoqProject"
  for f in $(grep '\.v$' coq/_CoqProject); do files="$files coq/$f"; done
  for p in "$@"; do files="$files harness/props/$p.py evidence/$p.json"; [ -d corpus/$p ] && files="$files corpus/$p"; done
  git add $files && git commit -qm "integrate $*: model, proofs, property file, harness, corpus, evidence" && echo "committed $*"
  python3-vt tools/validate.py
else
  echo "NOT committed"
fi
