#!/usr/bin/env python3
"""integrate_one.py Cxx [msg] : integrate ONE property while other builders are still editing theirs.
Regenerates MANIFEST.json/_CoqProject from meta/, keeps in _CoqProject only files that are already tracked or belong to the import cone of
Properties/Cxx.v, runs the quick check (proof step without a global make: the builder compiled its cone by hand), commits that property's files on exit 0."""
import os, re, subprocess, sys
V = "/verif"; C = V + "/coq"
pid = sys.argv[1]
msg = sys.argv[2] if len(sys.argv) > 2 else "integrate %s: model, proofs, property file, harness, corpus, evidence" % pid
def sh(cmd, **k):
    return subprocess.run(cmd, shell=True, capture_output=True, text=True, cwd=V, **k)
def cone(f, seen):
    if f in seen or not os.path.exists(os.path.join(C, f)):
        return
    seen.add(f)
    for grp, names in re.findall(r"From PyOMA\.(\w+) Require (?:Import|Export) ([^.]*)\.", open(os.path.join(C, f)).read()):
        for n in names.split():
            cone("%s/%s.v" % (grp, n), seen)
mine = set(); cone("Properties/%s.v" % pid, mine)
assert sh("python3 tools/gen_manifest.py").returncode == 0
tracked = set(l[len("coq/"):] for l in sh("git ls-files coq").stdout.split())
lines = open(C + "/_CoqProject").read().splitlines()
keep = [l for l in lines if not l.endswith(".v") or l in tracked or l in mine]
dropped = [l for l in lines if l not in keep]
open(C + "/_CoqProject", "w").write("\n".join(keep) + "\n")
# every file of my cone must have an up-to-date .vo
for f in sorted(mine):
    vo = os.path.join(C, f[:-2] + ".vo")
    if not os.path.exists(vo) or os.path.getmtime(vo) < os.path.getmtime(os.path.join(C, f)):
        print("stale or missing .vo:", f); sys.exit(3)
env = dict(os.environ, VERIF_SKIP_MAKE="1")
p = sh("/venv/bin/python harness/check.py %s --tier quick" % pid, env=env)
out = [l for l in (p.stdout + p.stderr).splitlines() if "conda.cli" not in l]
print(pid, "rc=%d" % p.returncode, [l[:160] for l in out if not l.startswith("KNOWN-FINDING")][:5], "dropped from _CoqProject:", dropped)
if p.returncode != 0:
    sh("git checkout coq/_CoqProject MANIFEST.json"); sys.exit(1)
files = ["MANIFEST.json", "coq/_CoqProject", "meta/%s.json" % pid, "harness/props/%s.py" % pid, "evidence/%s.json" % pid] + ["coq/" + f for f in mine]
if os.path.isdir(V + "/corpus/" + pid):
    files.append("corpus/" + pid)
r = sh("git add " + " ".join(files) + " && git commit -qm " + repr(msg))
print("committed" if r.returncode == 0 else "commit failed: " + r.stdout + r.stderr)
print(sh("python3-vt tools/validate.py").stdout.strip())
