#!/bin/bash
# usage: reseed.sh Cxx k : is seeded/Cxx-k still detected by the current check?
cd /verif; p=$1; k=$2; d=seeded/$p-$k
[ -f $d/patch.diff ] || exit 0
/venv/bin/python tools/seed_eval.py $p $d/patch.diff $d/demo.py --no-suite 2>&1 | python3 -c "
import sys,json
t=sys.stdin.read()
try:
    d=json.loads(t[t.index('{'):]); print('$p-$k', 'detected' if d['detected'] else 'MISSED', 'input' if d['with_failing_input'] else 'no-input', flush=True)
except Exception as e: print('$p-$k ERR', t[-200:])
"
