#!/usr/bin/env python3
"""Confirm a seeded change and run a property check against it, in a scratch worktree of /repo (removed afterwards).

usage: seed_eval.py <property id> <patch.diff> <demo.py> [--no-suite] [--tier quick]
Prints a JSON summary: demo exit code before/after the change, suite counts with the change, check exit code and VIOLATION lines.
The registered checks always run against /repo itself; this tool uses the harness' VERIF_REPO_SRC testing aid so that /repo is never touched.
"""
import json, os, re, subprocess, sys, tempfile, shutil

def sh(cmd, env=None, timeout=3600):
    p = subprocess.run(cmd, shell=True, capture_output=True, text=True, env=env, timeout=timeout)
    return p.returncode, p.stdout + p.stderr

def main():
    pid, patch, demo = sys.argv[1:4]
    opts = sys.argv[4:]
    tier = "quick"
    if "--tier" in opts:
        tier = opts[opts.index("--tier") + 1]
    wt = tempfile.mkdtemp(prefix="seedwt_%s_" % pid, dir="/tmp")
    os.rmdir(wt)
    out = {"property": pid, "patch": patch}
    rc, o = sh("git -C /repo worktree add -q --detach %s HEAD" % wt)
    assert rc == 0, o
    try:
        env = dict(os.environ, PYTHONPATH=wt + "/src", MPLBACKEND="Agg", TQDM_DISABLE="1", PYTHONDONTWRITEBYTECODE="1")
        rc0, o0 = sh("cd %s && /venv/bin/python %s" % (wt, os.path.abspath(demo)), env)
        out["demo_pristine_rc"] = rc0
        rc, o = sh("git -C %s apply %s" % (wt, os.path.abspath(patch)))
        assert rc == 0, "patch does not apply: " + o
        rc1, o1 = sh("cd %s && /venv/bin/python %s" % (wt, os.path.abspath(demo)), env)
        out["demo_changed_rc"] = rc1
        out["demo_changed_tail"] = o1[-400:]
        if "--no-suite" not in opts:
            rc, o = sh("cd %s && /venv/bin/python -m pytest -q -p no:cacheprovider --timeout=900 --continue-on-collection-errors 2>&1 | tail -3" % wt, env)
            m = re.search(r"(\d+) failed, (\d+) passed", o) or re.search(r"(\d+) passed", o)
            out["suite_tail"] = o.strip().splitlines()[-1] if o.strip() else ""
            out["suite_passed"] = int(m.groups()[-1]) if m else None
        env2 = dict(os.environ, VERIF_REPO_SRC=wt + "/src")
        rc, o = sh("/venv/bin/python /verif/harness/check.py %s --no-proof --tier %s" % (pid, tier), env2)
        out["check_rc"] = rc
        out["check_lines"] = [l for l in o.splitlines() if l.startswith(("VIOLATION", "KNOWN-FINDING"))][:8]
        if rc not in (0, 1):
            out["check_tail"] = o[-600:]
        out["detected"] = rc == 1 and any(l.startswith("VIOLATION property=%s" % pid) for l in out["check_lines"])
        out["with_failing_input"] = any(l.startswith("VIOLATION") and "no-failing-input-found" not in l for l in out["check_lines"])
    finally:
        sh("git -C /repo worktree remove --force %s" % wt)
        shutil.rmtree(wt, ignore_errors=True)
    print(json.dumps(out, indent=1))

if __name__ == "__main__":
    main()
