#!/bin/bash
# usage: r8_one.sh Cxx k   (k = 1|2) : re-evaluate one round-7 change
p=$1; k=$2; cd /verif
/venv/bin/python tools/seed_keep.py $p $k --staging ${p}r8 --as $((k+16)) 2>&1 | python3 -c "
import sys,json
t=sys.stdin.read()
try:
    d=json.loads(t[t.index('{'):]); print('$p-$((k+16))', 'confirmed' if d['confirmed'] else 'NOT confirmed', 'detected' if d['detected'] else 'MISSED', 'input' if d['with_failing_input'] else 'no-input', d['demo'], d.get('lines'), flush=True)
except Exception as e: print('$p-$((k+16))', t[-600:])
"
