#!/bin/bash
# development aid: run every integrated quick check with VERIF_COVERAGE=1 against /repo and print the anchored functions' uncovered lines
cd /verif
for p in "$@"; do
  VERIF_COVERAGE=1 /venv/bin/python harness/check.py $p --no-proof >/dev/null 2>&1
  git checkout -q evidence/$p.json 2>/dev/null
  python3 - "$p" <<'PY'
import json,sys
p=sys.argv[1]
try: r=json.load(open('/verif/.work/coverage_%s.json'%p))
except Exception as e: print(p,"no coverage",e); sys.exit()
for k,v in sorted(r.get("_functions",{}).items()):
    print(p,k,"%d stmts"%v["statements"],"missing",v["missing_lines"])
PY
done
