#!/bin/bash
# usage: tools/round7_eval.sh Cxx  -- stage the round-7 changes written in /tmp/wt7_Cxx/mutants and evaluate them (seeded/Cxx-15, Cxx-16)
p=$1
cd /verif
mkdir -p seeded_staging/${p}r7
cp /tmp/wt7_$p/mutants/m[12].diff /tmp/wt7_$p/mutants/m[12]_demo.py /tmp/wt7_$p/mutants/m[12].txt seeded_staging/${p}r7/ 2>/dev/null
for k in 1 2; do /venv/bin/python tools/seed_keep.py $p $k --staging ${p}r7 --as $((k+14)) 2>&1 | python3 -c "
import sys,json
t=sys.stdin.read()
try:
    d=json.loads(t[t.index('{'):]); print('$p-$((k+14))', 'confirmed' if d['confirmed'] else 'NOT confirmed', 'detected' if d['detected'] else 'MISSED', 'input' if d['with_failing_input'] else 'no-input', d['demo'], d.get('suite'), flush=True)
except Exception as e: print('$p-$((k+14))', t[-600:])
"; done
