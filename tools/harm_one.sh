#!/bin/bash
# usage: harm_one.sh Cxx k
cd /verif; p=$1; k=$2; d=harmless/$p-$k
[ -f $d/patch.diff ] || exit 0
/venv/bin/python tools/harmless_eval.py $p $d/patch.diff --no-suite > .work/harm_$p-$k.json 2>&1
python3 - <<PY
import json
t=open('/verif/.work/harm_$p-$k.json').read()
try:
    d=json.loads(t[t.index('{'):]); print('$p-$k', 'rc=%s'%d['check_rc'], d['check_lines'][:2] if d['check_rc'] else '', [r.get('key') if isinstance(r,dict) else r for r in d.get('replays',[])][:3], flush=True)
except Exception as e: print('$p-$k', 'ERR', t[-300:], flush=True)
PY
