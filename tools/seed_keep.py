#!/usr/bin/env python3
"""seed_keep.py <pid> <k> : confirm seeded_staging/<pid>/m<k>.{diff,_demo.py,txt} with seed_eval and, if the change is confirmed
(demo passes pristine / fails changed, suite still 75 passed), keep it as seeded/<pid>-<k>/{patch.diff, demo.py, meta.json}."""
import json, os, shutil, subprocess, sys
pid, k = sys.argv[1], sys.argv[2]
V = "/verif"
args = sys.argv[3:]
stg, out_k = pid, k
if "--staging" in args:
    stg = args[args.index("--staging") + 1]; del args[args.index("--staging"):args.index("--staging") + 2]
if "--as" in args:
    out_k = args[args.index("--as") + 1]; del args[args.index("--as"):args.index("--as") + 2]
st = "%s/seeded_staging/%s" % (V, stg)
diff, demo, txt = "%s/m%s.diff" % (st, k), "%s/m%s_demo.py" % (st, k), "%s/m%s.txt" % (st, k)
p = subprocess.run([sys.executable, V + "/tools/seed_eval.py", pid, diff, demo] + args, capture_output=True, text=True)
try:
    r = json.loads(p.stdout[p.stdout.index("{"):])
except Exception:
    print("seed_eval failed:", p.stdout[-800:], p.stderr[-800:]); sys.exit(2)
confirmed = r["demo_pristine_rc"] == 0 and r["demo_changed_rc"] != 0 and r.get("suite_passed") == 75
print(json.dumps({"confirmed": confirmed, "detected": r["detected"], "with_failing_input": r["with_failing_input"], "lines": r["check_lines"][:3],
                  "demo": [r["demo_pristine_rc"], r["demo_changed_rc"]], "suite": r.get("suite_tail")}))
if confirmed:
    d = "%s/seeded/%s-%s" % (V, pid, out_k)
    os.makedirs(d, exist_ok=True)
    shutil.copy(diff, d + "/patch.diff"); shutil.copy(demo, d + "/demo.py")
    meta = {"property": pid, "breaks": "see description", "description": open(txt).read() if os.path.exists(txt) else "",
            "confirmed_by": "tools/seed_eval.py in a scratch worktree of /repo (removed afterwards): demo exit %d on the pristine tree, %d with the change; suite with the change: %s"
                            % (r["demo_pristine_rc"], r["demo_changed_rc"], r.get("suite_tail")),
            "check_result": {"cmd": "VERIF_REPO_SRC=<worktree>/src harness/check.py %s --no-proof --tier quick" % pid, "rc": r["check_rc"],
                             "detected": r["detected"], "with_failing_input": r["with_failing_input"], "lines": r["check_lines"][:5]}}
    json.dump(meta, open(d + "/meta.json", "w"), indent=1)
