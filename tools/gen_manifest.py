#!/usr/bin/env python3
"""Regenerate /verif/MANIFEST.json from the table below (keeps it valid at all times)."""
import json, os
V = os.path.dirname(os.path.dirname(os.path.abspath(__file__)))
props = [json.loads(l) for l in open(os.path.join(V, "properties.jsonl"))]

COMMON_NOTE = ("Trusted: Coq 8.16.1 kernel/coqc, vm_compute (no native_compute, no extraction); the theorems are about hand-written Gallina "
               "models, tied to /repo/src only by the behavioural correspondence (differential testing bounded by its generator) run on every "
               "invocation; harness (generators, float<->rational conversion, printers, comparison rules). ")

# id -> (technique, level text, level note, design ref)
CLAIMED = {
 "C12": ("Coq theorems on a generic-ring model of build_hank (entry formulas, bilinearity, LQ Gram identity) + vm_compute correspondence + impulse-basis oracle",
         "Every entry of the moment-matrix and Toeplitz Hankel matrices is proved (all sizes, all data, any commutative ring) to be one uniform-weight "
         "single-lag correlation with lag i+j+1 / br+i-j, bilinear, with (br+1)l x (br+1)r layout; the data-driven Gram identity is proved from the LQ contract. "
         "The model is tied to the code by exact evaluation on random dyadic data and by measuring the code on the full unit-impulse basis.",
         COMMON_NOTE + "No axioms (all C12 theorems closed under the global context). numpy.linalg.qr contract is a hypothesis of C12_dat_gram.",
         "DESIGN.md 5/C12"),
}
NOT_YET = "check not built yet (build in progress, see DESIGN.md section 9)"

checks, na = [], []
for p in props:
    i = p["id"]
    if i in CLAIMED and os.path.exists(os.path.join(V, "harness", "props", i + ".py")):
        tech, text, note, ref = CLAIMED[i]
        checks.append({
            "property_id": i,
            "quick_cmd": "cd /verif && /venv/bin/python harness/check.py %s --tier quick" % i,
            "thorough_cmd": "cd /verif && /venv/bin/python harness/check.py %s --tier thorough" % i,
            "evidence_file": "/verif/evidence/%s.json" % i,
            "replay_cmd_template": "cd /verif && /venv/bin/python harness/check.py %s --replay {path}" % i,
            "engine": "coq-model+correspondence",
            "level_claimed": {"category": "proof", "text": text, "design_ref": ref},
            "level_note": note,
            "technique": tech,
        })
    else:
        na.append({"property_id": i, "reason": NOT_YET})
m = {
 "version": 1,
 "setup_cmd": "cd /verif/coq && coq_makefile -f _CoqProject -o Makefile && timeout 3000 make -j16",
 "hooks": {"guard": "PYOMA2_VERIF", "enable": "no hooks: checks import pyoma2 from /repo/src as it is (PYTHONPATH=/repo/src forced by harness/check.py)",
           "baseline_off_cmd": "cd /repo && /venv/bin/python -m pytest -ra -q -p no:cacheprovider --timeout=900 --continue-on-collection-errors",
           "source_commits": [], "add_only": True},
 "engines": [{"name": "coq-model+correspondence", "path": "/verif/harness/check.py", "serves_properties": [c["property_id"] for c in checks],
              "kind_free_text": "machine-checked proof in Coq 8.16.1 about executable Gallina models + behavioural correspondence with /repo/src on every run"}],
 "checks": checks,
 "notes": "See DESIGN.md. KNOWN_FINDINGS.txt lists recorded findings and fixed defects.",
 "not_applicable": na,
}
json.dump(m, open(os.path.join(V, "MANIFEST.json"), "w"), indent=1)
print("checks:", [c["property_id"] for c in checks])
