#!/usr/bin/env python3
"""Regenerate /verif/MANIFEST.json and coq/_CoqProject from meta/Cxx.json (one file per INTEGRATED property).

A property is integrated when meta/Cxx.json, harness/props/Cxx.py and coq/Properties/Cxx.v all exist.  _CoqProject lists the
import cone of the integrated Properties files (plus Base), so setup_cmd builds exactly the development the checks audit.
Optional meta keys: "not_applicable_reason" (then the property is listed under not_applicable instead of checks).
"""
import json, os, re
V = os.path.dirname(os.path.dirname(os.path.abspath(__file__)))
C = os.path.join(V, "coq")
props = [json.loads(l) for l in open(os.path.join(V, "properties.jsonl"))]

COMMON_NOTE = ("Trusted: Coq 8.16.1 kernel/coqc, vm_compute (no native_compute, no extraction); the theorems are about hand-written Gallina "
               "models, tied to /repo/src only by the behavioural correspondence (differential testing bounded by its generator) run on every "
               "invocation; harness (generators, float<->rational conversion, printers, comparison rules). ")
NOT_YET = "check not built yet (build in progress, see DESIGN.md section 9)"

def cone(f, seen):
    if f in seen or not os.path.exists(os.path.join(C, f)):
        return
    seen.add(f)
    for grp, names in re.findall(r"From PyOMA\.(\w+) Require (?:Import|Export) ([^.]*)\.", open(os.path.join(C, f)).read()):
        for n in names.split():
            cone("%s/%s.v" % (grp, n), seen)

checks, na, files = [], [], set("Base/" + f for f in os.listdir(os.path.join(C, "Base")) if f.endswith(".v"))
for p in props:
    i = p["id"]
    mp = os.path.join(V, "meta", i + ".json")
    meta = json.load(open(mp)) if os.path.exists(mp) else None
    ok = meta and "not_applicable_reason" not in meta and os.path.exists(os.path.join(V, "harness", "props", i + ".py")) \
        and os.path.exists(os.path.join(C, "Properties", i + ".v"))
    if ok:
        cone("Properties/%s.v" % i, files)
        checks.append({
            "property_id": i,
            "quick_cmd": "cd /verif && /venv/bin/python harness/check.py %s --tier quick" % i,
            "thorough_cmd": "cd /verif && /venv/bin/python harness/check.py %s --tier thorough" % i,
            "evidence_file": "/verif/evidence/%s.json" % i,
            "replay_cmd_template": "cd /verif && /venv/bin/python harness/check.py %s --replay {path}" % i,
            "engine": "coq-model+correspondence",
            "level_claimed": {"category": meta.get("category", "proof"), "text": meta["level_text"], "design_ref": meta.get("design_ref", "DESIGN.md 5/" + i)},
            "level_note": COMMON_NOTE + meta["level_note"],
            "technique": meta["technique"],
        })
    else:
        na.append({"property_id": i, "reason": (meta or {}).get("not_applicable_reason", NOT_YET)})
m = {
 "version": 1,
 "setup_cmd": "cd /verif/coq && coq_makefile -f _CoqProject -o Makefile && timeout 3000 make -j16",
 "hooks": {"guard": "PYOMA2_VERIF", "enable": "no hooks: checks import pyoma2 from /repo/src as it is (PYTHONPATH=/repo/src forced by harness/check.py)",
           "baseline_off_cmd": "cd /repo && /venv/bin/python -m pytest -ra -q -p no:cacheprovider --timeout=900 --continue-on-collection-errors",
           "source_commits": [], "add_only": True},
 "engines": [{"name": "coq-model+correspondence", "path": "/verif/harness/check.py", "serves_properties": [c["property_id"] for c in checks],
              "kind_free_text": "machine-checked proof in Coq 8.16.1 about executable Gallina models + behavioural correspondence with /repo/src on every run"}],
 "checks": checks,
 "notes": "See DESIGN.md. KNOWN_FINDINGS.txt lists recorded findings and fixed defects.",
 "not_applicable": na,
}
json.dump(m, open(os.path.join(V, "MANIFEST.json"), "w"), indent=1)
order = {"Base": 0, "Model": 1, "Proofs": 2, "Properties": 3}
fl = sorted(files, key=lambda f: (order.get(f.split("/")[0], 9), f))
open(os.path.join(C, "_CoqProject"), "w").write("-R . PyOMA\n" + "\n".join(fl) + "\n")
print("checks:", [c["property_id"] for c in checks], "| coq files:", len(fl))
