#!/usr/bin/env python3
"""Run every registered check (MANIFEST.json) in the given tier, a few at a time; print rc, wall time and output lines."""
import json, subprocess, sys, time
from concurrent.futures import ThreadPoolExecutor
tier = sys.argv[1] if len(sys.argv) > 1 else "quick"
par = int(sys.argv[2]) if len(sys.argv) > 2 else 2
only = sys.argv[3].split(",") if len(sys.argv) > 3 else None
m = json.load(open("/verif/MANIFEST.json"))
def run(c):
    if only and c["property_id"] not in only:
        return None
    t = time.time()
    p = subprocess.run(c["%s_cmd" % tier], shell=True, capture_output=True, text=True)
    return c["property_id"], p.returncode, round(time.time() - t, 1), [l for l in (p.stdout + p.stderr).splitlines() if "conda.cli" not in l][-6:]
with ThreadPoolExecutor(par) as ex:
    for r in ex.map(run, m["checks"]):
        if r:
            print("%s rc=%d %ss %s" % r, flush=True)
