#!/usr/bin/env python3
"""Regenerate coq/_CoqProject from the .v files present (coqdep orders them)."""
import os
C = os.path.join(os.path.dirname(os.path.dirname(os.path.abspath(__file__))), "coq")
fs = []
for d in ("Base", "Model", "Proofs", "Properties"):
    for f in sorted(os.listdir(os.path.join(C, d))):
        if f.endswith(".v"):
            fs.append("%s/%s" % (d, f))
open(os.path.join(C, "_CoqProject"), "w").write("-R . PyOMA\n" + "\n".join(fs) + "\n")
print(len(fs), "files")
