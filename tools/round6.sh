#!/bin/bash
# usage: tools/round6.sh Cxx k [k...]  -- integrate the property's strengthened check, then re-evaluate the listed round-6 changes
p=$1; shift
cd /verif
tools/integrate.sh $p 2>&1 | tail -3
for k in "$@"; do /venv/bin/python tools/seed_keep.py $p $k --staging ${p}r6 --as $((k+12)) 2>&1 | python3 -c "
import sys,json
t=sys.stdin.read()
try:
    d=json.loads(t[t.index('{'):]); print('$p-$((k+12))', 'confirmed' if d['confirmed'] else 'NOT confirmed', 'detected' if d['detected'] else 'MISSED', 'input' if d['with_failing_input'] else 'no-input', d['demo'])
except Exception as e: print(t[-400:])
"; done
git add seeded; git commit -qm "seeded: $p round-6 re-evaluated after strengthening" ; true
