#!/venv/bin/python
"""Record a structural fingerprint (AST without docstrings) of every anchored source file of /repo as it is now.
The checks use it only to decide how much to explore: when an anchored file differs from this baseline the quick tier
runs additional seeds (see harness/check.py); it never raises an alarm by itself.  Re-run after every commit to /repo."""
import json, os, sys
if sys.executable != "/venv/bin/python":  # ast.dump differs between interpreter versions: always the checks' interpreter
    os.execv("/venv/bin/python", ["/venv/bin/python"] + sys.argv)
sys.path.insert(0, os.path.join(os.path.dirname(os.path.dirname(os.path.abspath(__file__))), "harness"))
from common import source_fingerprint
V = "/verif"
files = set()
for l in open(V + "/properties.jsonl"):
    files.update(json.loads(l)["anchors"]["files"])
for root, _, fs in os.walk("/repo/src/pyoma2"):  # every library module: a change outside the anchors still earns one extra seed
    for fn in fs:
        if fn.endswith(".py"):
            files.add(os.path.relpath(os.path.join(root, fn), "/repo"))
out = {f: source_fingerprint(os.path.join("/repo", f)) for f in sorted(files)}
json.dump(out, open(V + "/anchors_baseline.json", "w"), indent=1)
print(len(out), "files fingerprinted")
